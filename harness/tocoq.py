"""FNode / PySMTType  ->  Gallina literal of core/Syntax.v  (and an independent structural key).

A DAG is written as a `let` chain over its distinct nodes so that literals stay linear in DAG
size.  Python ints -> %Z literals; names -> Coq strings (UTF-8 bytes); string constants -> lists
of code points.
"""
from fractions import Fraction

import pysmt.operators as op

BVOPS = {op.BV_NOT: "BNot", op.BV_AND: "BAnd", op.BV_OR: "BOr", op.BV_XOR: "BXor", op.BV_CONCAT: "BConcat",
         op.BV_NEG: "BNeg", op.BV_ADD: "BAdd", op.BV_SUB: "BSub", op.BV_MUL: "BMul", op.BV_UDIV: "BUdiv",
         op.BV_UREM: "BUrem", op.BV_LSHL: "BLshl", op.BV_LSHR: "BLshr", op.BV_COMP: "BComp",
         op.BV_SDIV: "BSdiv", op.BV_SREM: "BSrem", op.BV_ASHR: "BAshr"}
BVRELS = {op.BV_ULT: "BUlt", op.BV_ULE: "BUle", op.BV_SLT: "BSlt", op.BV_SLE: "BSle"}
STROPS = {op.STR_LENGTH: "SLength", op.STR_CONCAT: "SConcat", op.STR_CONTAINS: "SContains",
          op.STR_INDEXOF: "SIndexOf", op.STR_REPLACE: "SReplace", op.STR_SUBSTR: "SSubstr",
          op.STR_PREFIXOF: "SPrefixOf", op.STR_SUFFIXOF: "SSuffixOf", op.STR_TO_INT: "SToInt",
          op.INT_TO_STR: "SFromInt", op.STR_CHARAT: "SCharAt"}
SIMPLE = {op.AND: "OAnd", op.OR: "OOr", op.NOT: "ONot", op.IMPLIES: "OImplies", op.IFF: "OIff",
          op.PLUS: "OPlus", op.MINUS: "OMinus", op.TIMES: "OTimes", op.LE: "OLe", op.LT: "OLt",
          op.EQUALS: "OEquals", op.ITE: "OIte", op.TOREAL: "OToReal", op.ARRAY_SELECT: "OSelect",
          op.ARRAY_STORE: "OStore", op.DIV: "ODiv", op.POW: "OPow", op.BV_TONATURAL: "OBVToNat"}


class Unsupported(Exception):
    pass


def z(n):
    n = int(n)
    return "(%d)%%Z" % n if n < 0 else "%d%%Z" % n


def cstr(s):
    return '"' + s.replace('"', '""') + '"%string'


def ty(t):
    if t.is_bool_type():
        return "TBool"
    if t.is_int_type():
        return "TInt"
    if t.is_real_type():
        return "TReal"
    if t.is_string_type():
        return "TStr"
    if t.is_bv_type():
        return "(TBV %s)" % z(t.width)
    if t.is_array_type():
        return "(TArr %s %s)" % (ty(t.index_type), ty(t.elem_type))
    if t.is_function_type():
        return "(TFun [%s] %s)" % ("; ".join(ty(p) for p in t.param_types), ty(t.return_type))
    if t.is_custom_type():
        return "(TUser %s [%s])" % (cstr(t.basename), "; ".join(ty(a) for a in t.args))
    raise Unsupported("type %r" % (t,))


def tkey(t):
    if t.is_bool_type():
        return ("Bool",)
    if t.is_int_type():
        return ("Int",)
    if t.is_real_type():
        return ("Real",)
    if t.is_string_type():
        return ("String",)
    if t.is_bv_type():
        return ("BV", t.width)
    if t.is_array_type():
        return ("Array", tkey(t.index_type), tkey(t.elem_type))
    if t.is_function_type():
        return ("Fun", tuple(tkey(p) for p in t.param_types), tkey(t.return_type))
    return ("User", t.basename, tuple(tkey(a) for a in t.args))


def opr(f):
    """Gallina text of the `op` of node f."""
    nt = f.node_type()
    if nt in SIMPLE:
        return SIMPLE[nt]
    if nt in (op.FORALL, op.EXISTS):
        vs = "; ".join("(%s, %s)" % (cstr(v.symbol_name()), ty(v.symbol_type())) for v in f.quantifier_vars())
        return "(%s [%s])" % ("OForall" if nt == op.FORALL else "OExists", vs)
    if nt == op.SYMBOL:
        return "(OSymbol %s %s)" % (cstr(f.symbol_name()), ty(f.symbol_type()))
    if nt == op.FUNCTION:
        fn = f.function_name()
        return "(OFunction %s %s)" % (cstr(fn.symbol_name()), ty(fn.symbol_type()))
    if nt == op.REAL_CONSTANT:
        v = Fraction(f.constant_value())
        return "(ORealC %s %s)" % (z(v.numerator), z(v.denominator))
    if nt == op.BOOL_CONSTANT:
        return "(OBoolC %s)" % ("true" if f.constant_value() else "false")
    if nt == op.INT_CONSTANT:
        return "(OIntC %s)" % z(f.constant_value())
    if nt == op.STR_CONSTANT:
        return "(OStrC [%s])" % "; ".join(z(ord(c)) for c in f.constant_value())
    if nt == op.BV_CONSTANT:
        return "(OBVC %s %s)" % (z(f._content.payload[0]), z(f._content.payload[1]))
    if nt in BVOPS:
        return "(OBV %s %s)" % (BVOPS[nt], z(f._content.payload[0]))
    if nt in BVRELS:
        return "(OBVRel %s)" % BVRELS[nt]
    if nt == op.BV_EXTRACT:
        p = f._content.payload
        return "(OBVExtract %s %s %s)" % (z(p[0]), z(p[1]), z(p[2]))
    if nt in (op.BV_ROL, op.BV_ROR, op.BV_ZEXT, op.BV_SEXT):
        p = f._content.payload
        nm = {op.BV_ROL: "OBVRol", op.BV_ROR: "OBVRor", op.BV_ZEXT: "OBVZext", op.BV_SEXT: "OBVSext"}[nt]
        return "(%s %s %s)" % (nm, z(p[0]), z(p[1]))
    if nt in STROPS:
        return "(OStr %s)" % STROPS[nt]
    if nt == op.ARRAY_VALUE:
        return "(OArrayValue %s)" % ty(f.array_value_index_type())
    raise Unsupported("node type %d" % nt)


def topo(roots):
    """Distinct nodes reachable from roots, children first (iterative)."""
    seen, order = set(), []
    stack = [(r, False) for r in reversed(list(roots))]
    while stack:
        n, done = stack.pop()
        if done:
            order.append(n)
            continue
        if n in seen:
            continue
        seen.add(n)
        stack.append((n, True))
        for c in reversed(n.args()):
            if c not in seen:
                stack.append((c, False))
    return order


def lets(roots):
    """(list of let lines, name-of-node function) for the DAG under roots."""
    names = {}
    lines = []
    for i, n in enumerate(topo(roots)):
        nm = "n%d" % i
        names[n] = nm
        lines.append("let %s := T %s [%s] in" % (nm, opr(n), "; ".join(names[c] for c in n.args())))
    return lines, names


def with_terms(roots, body_fn):
    """Gallina expression `let ... in <body>` where body_fn(names) gives the body text."""
    lines, names = lets(roots)
    return "(" + "\n  ".join(lines) + "\n  " + body_fn(names) + ")"


def term(f):
    return with_terms([f], lambda names: names[f])


def skey(f, memo=None):
    """Independent structural key (tuple tree) of a formula - iterative, memoised per node."""
    memo = {} if memo is None else memo
    for n in topo([f]):
        if n in memo:
            continue
        nt = n.node_type()
        if nt in (op.FORALL, op.EXISTS):
            pay = tuple(sorted((v.symbol_name(), tkey(v.symbol_type())) for v in n.quantifier_vars()))
        elif nt == op.SYMBOL:
            pay = (n.symbol_name(), tkey(n.symbol_type()))
        elif nt == op.FUNCTION:
            pay = (n.function_name().symbol_name(), tkey(n.function_name().symbol_type()))
        elif nt == op.ARRAY_VALUE:
            pay = tkey(n.array_value_index_type())
        elif nt == op.REAL_CONSTANT:
            v = Fraction(n.constant_value())
            pay = (v.numerator, v.denominator)
        else:
            pay = n._content.payload
        memo[n] = (nt, pay, tuple(memo[c] for c in n.args()))
    return memo[f]
