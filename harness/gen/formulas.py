"""Seeded generator of well-typed pySMT formulas with sharing, over all supported theories.

Everything random comes from the `random.Random` passed in.  The generator keeps per-type pools
so that later terms re-use earlier ones (shared sub-DAGs), and biases constants toward the
values rewrite rules special-case (0, 1, -1, all-ones, sign bit, width, width+-1 ...).
"""
from fractions import Fraction

from pysmt.exceptions import PysmtTypeError
from pysmt.typing import BOOL, INT, REAL, STRING, BVType, ArrayType, FunctionType, Type


class Config(object):
    def __init__(self, **kw):
        self.bool = True
        self.ints = True
        self.reals = True
        self.bv = True
        self.strings = True
        self.arrays = True
        self.uf = True
        self.quantifiers = True
        self.custom = True
        self.nonlinear = True
        self.div = True
        self.widths = (1, 2, 3, 4, 8)
        self.max_arity = 4
        self.reuse = 0.35
        for k, v in kw.items():
            if not hasattr(self, k):
                raise TypeError(k)
            setattr(self, k, v)


class FormulaGen(object):
    def __init__(self, env, rnd, cfg=None, prefix=""):
        self.env = env
        self.mgr = env.formula_manager
        self.rnd = rnd
        self.cfg = cfg or Config()
        self.pool = {}
        self.prefix = prefix
        m = self.mgr
        c = self.cfg
        self.types = [BOOL]
        if c.ints:
            self.types.append(INT)
        if c.reals:
            self.types.append(REAL)
        if c.bv:
            self.types += [BVType(w) for w in c.widths]
        if c.strings:
            self.types.append(STRING)
        self.U = None
        if c.custom:
            self.U = env.type_manager.Type(prefix + "U", 0)
            self.types.append(self.U)
        self.array_types = []
        if c.arrays:
            if c.ints:
                self.array_types.append(ArrayType(INT, INT))
            if c.bv:
                self.array_types.append(ArrayType(BVType(2), BOOL))
                self.array_types.append(ArrayType(BVType(2), BVType(2)))
            if c.ints and c.reals:
                self.array_types.append(ArrayType(INT, ArrayType(INT, REAL)))
            self.types += self.array_types
        self.syms = {}
        for t in self.types:
            self.syms[t] = [m.Symbol("%s%s%d" % (prefix, self._tname(t), i), t) for i in range(3)]
        self.funs = []
        if c.uf:
            if c.ints:
                self.funs.append(m.Symbol(prefix + "f_ii", FunctionType(INT, [INT])))
                self.funs.append(m.Symbol(prefix + "p_iib", FunctionType(BOOL, [INT, INT])))
            if c.bv:
                self.funs.append(m.Symbol(prefix + "g_bv", FunctionType(BVType(c.widths[-1]), [BVType(c.widths[-1])])))
            if c.reals:
                self.funs.append(m.Symbol(prefix + "h_rbr", FunctionType(REAL, [REAL, BOOL])))
            if self.U is not None:
                self.funs.append(m.Symbol(prefix + "k_uu", FunctionType(self.U, [self.U])))
            self.funs.append(m.Symbol(prefix + "q_bb", FunctionType(BOOL, [BOOL])))

    @staticmethod
    def _tname(t):
        s = str(t)
        return "".join(ch if ch.isalnum() else "_" for ch in s).lower()

    # ---------------- leaves ------------------------------------------------
    def const(self, t):
        r, m = self.rnd, self.mgr
        if t.is_bool_type():
            return m.Bool(r.random() < 0.5)
        if t.is_int_type():
            return m.Int(r.choice([0, 1, -1, 2, 3, -2, 5, 7, 10, -10, 255, 2 ** 70, -(2 ** 65) - 1, r.randint(-20, 20)]))
        if t.is_real_type():
            return m.Real(r.choice([Fraction(0), Fraction(1), Fraction(-1), Fraction(1, 2), Fraction(-3, 4), Fraction(5, 3),
                                    Fraction(2), Fraction(10 ** 20 + 1, 7), Fraction(r.randint(-9, 9), r.randint(1, 6))]))
        if t.is_bv_type():
            w = t.width
            mx = (1 << w) - 1
            return m.BV(r.choice([0, 1 & mx, mx, 1 << (w - 1), (1 << (w - 1)) - 1 if w > 1 else 0, w & mx, (w - 1) & mx, (w + 1) & mx, r.randint(0, mx)]), w)
        if t.is_string_type():
            return m.String(r.choice(["", "a", "ab", "abc", "ba", "aa", "0", "12", "-5", " 12", "007", "a\"b", "abcabc", "x y", "9" * 25]))
        return None

    def leaf(self, t):
        r = self.rnd
        c = None
        if r.random() < 0.45:
            c = self.const(t)
        if c is not None:
            return c
        if t in self.syms:
            return r.choice(self.syms[t])
        return self.mgr.Symbol("%s%s_x" % (self.prefix, self._tname(t)), t)

    def remember(self, f):
        t = self.env.stc.get_type(f)
        self.pool.setdefault(t, []).append(f)
        return f

    # ---------------- terms -------------------------------------------------
    def gen(self, t, depth):
        r = self.rnd
        if depth <= 0:
            return self.leaf(t)
        if r.random() < self.cfg.reuse and self.pool.get(t):
            return r.choice(self.pool[t])
        for _ in range(6):
            try:
                f = self._gen_op(t, depth)
            except PysmtTypeError:
                f = None
            if f is not None:
                return self.remember(f)
        return self.leaf(t)

    def some_type(self, scalar=False):
        ts = [t for t in self.types if not (scalar and (t.is_array_type()))]
        return self.rnd.choice(ts)

    def _gen_op(self, t, d):
        r, m, c = self.rnd, self.mgr, self.cfg
        g = lambda ty: self.gen(ty, d - 1 - (1 if r.random() < 0.3 else 0))
        generic = ["ite"]
        if c.quantifiers and not t.is_bool_type():
            generic.append("qite")       # a quantifier below a theory term (condition of a term-level ITE)
        if c.uf and any(fn.symbol_type().return_type == t for fn in self.funs):
            generic.append("uf")
        if c.arrays and any(a.elem_type == t for a in self.array_types):
            generic.append("select")
        if t.is_bool_type():
            ops = ["and", "or", "not", "implies", "iff", "eq", "and", "or", "not"]
            if c.ints:
                ops += ["le_i", "lt_i"]
            if c.reals:
                ops += ["le_r", "lt_r"]
            if c.bv:
                ops += ["bvult", "bvule", "bvslt", "bvsle"]
            if c.strings:
                ops += ["contains", "prefixof", "suffixof"]
            if c.quantifiers:
                ops += ["forall", "exists"]
        elif t.is_int_type():
            ops = ["plus", "minus", "times", "plus", "minus"]
            if c.div:
                ops.append("div")
            if c.bv:
                ops.append("bv2nat")
            if c.strings:
                ops += ["strlen", "indexof", "str2int"]
        elif t.is_real_type():
            ops = ["plus", "minus", "times", "plus"]
            if c.div:
                ops.append("div")
            if c.ints:
                ops.append("toreal")
            if c.nonlinear:
                ops.append("pow")
        elif t.is_bv_type():
            ops = ["bvnot", "bvand", "bvor", "bvxor", "bvneg", "bvadd", "bvsub", "bvmul", "bvudiv", "bvurem",
                   "bvlshl", "bvlshr", "bvashr", "bvsdiv", "bvsrem", "bvrol", "bvror", "extract", "concat", "zext", "sext"]
            if t.width == 1:
                ops.append("bvcomp")
        elif t.is_string_type():
            ops = ["strconcat", "replace", "substr", "charat", "int2str"]
        elif t.is_array_type():
            ops = ["store", "store", "arrayvalue"]
        else:
            ops = []
        k = r.choice(ops + generic)
        if k == "ite":
            return m.Ite(g(BOOL), g(t), g(t))
        if k == "qite":
            ty = r.choice([x for x in self.types if not x.is_array_type()])
            q = (m.ForAll if r.random() < 0.5 else m.Exists)([r.choice(self.syms[ty])], g(BOOL))
            return m.Ite(q, g(t), g(t))
        if k == "uf":
            fn = r.choice([fn for fn in self.funs if fn.symbol_type().return_type == t])
            return m.Function(fn, [g(p) for p in fn.symbol_type().param_types])
        if k == "select":
            a = r.choice([a for a in self.array_types if a.elem_type == t])
            return m.Select(g(a), g(a.index_type))
        n = r.randint(2, c.max_arity)
        if k == "and":
            return m.And([g(BOOL) for _ in range(r.choice([n, n, 2, 1, 0]))])
        if k == "or":
            return m.Or([g(BOOL) for _ in range(r.choice([n, n, 2, 1, 0]))])
        if k == "not":
            return m.Not(g(BOOL))
        if k == "implies":
            return m.Implies(g(BOOL), g(BOOL))
        if k == "iff":
            return m.Iff(g(BOOL), g(BOOL))
        if k == "eq":
            ty = self.some_type()
            if ty.is_bool_type():
                return m.Iff(g(BOOL), g(BOOL))
            a = g(ty)
            return m.Equals(a, a if r.random() < 0.1 else g(ty))
        if k in ("le_i", "lt_i", "le_r", "lt_r"):
            ty = INT if k.endswith("i") else REAL
            return (m.LE if k.startswith("le") else m.LT)(g(ty), g(ty))
        if k in ("bvult", "bvule", "bvslt", "bvsle"):
            ty = BVType(r.choice(c.widths))
            return {"bvult": m.BVULT, "bvule": m.BVULE, "bvslt": m.BVSLT, "bvsle": m.BVSLE}[k](g(ty), g(ty))
        if k in ("contains", "prefixof", "suffixof"):
            return {"contains": m.StrContains, "prefixof": m.StrPrefixOf, "suffixof": m.StrSuffixOf}[k](g(STRING), g(STRING))
        if k in ("forall", "exists"):
            nv = r.choice([1, 1, 2])
            vs = []
            for _ in range(nv):
                ty = r.choice([x for x in self.types if not x.is_array_type() or r.random() < 0.2])
                vs.append(r.choice(self.syms[ty]))
            body = g(BOOL)
            return (m.ForAll if k == "forall" else m.Exists)(vs, body)
        if k == "plus":
            return m.Plus([g(t) for _ in range(n)])
        if k == "minus":
            return m.Minus(g(t), g(t))
        if k == "times":
            if c.nonlinear and r.random() < 0.5:
                return m.Times([g(t) for _ in range(n)])
            return m.Times(self.const(t), g(t)) if r.random() < 0.5 else m.Times(g(t), self.const(t))
        if k == "div":
            den = g(t) if (c.nonlinear and r.random() < 0.4) else self.const(t)
            return m.Div(g(t), den)
        if k == "pow":
            return m.Pow(g(t), m.Real(r.choice([0, 1, 2, 3]))) if t.is_real_type() else m.Pow(g(t), m.Int(r.choice([0, 1, 2, 3])))
        if k == "toreal":
            return m.ToReal(g(INT))
        if k == "bv2nat":
            return m.BVToNatural(g(BVType(r.choice(c.widths))))
        if k == "strlen":
            return m.StrLength(g(STRING))
        if k == "indexof":
            return m.StrIndexOf(g(STRING), g(STRING), g(INT))
        if k == "str2int":
            return m.StrToInt(g(STRING))
        if k == "strconcat":
            return m.StrConcat([g(STRING) for _ in range(n)])
        if k == "replace":
            return m.StrReplace(g(STRING), g(STRING), g(STRING))
        if k == "substr":
            return m.StrSubstr(g(STRING), g(INT), g(INT))
        if k == "charat":
            return m.StrCharAt(g(STRING), g(INT))
        if k == "int2str":
            return m.IntToStr(g(INT))
        if t.is_bv_type():
            w = t.width
            un = {"bvnot": m.BVNot, "bvneg": m.BVNeg}
            bi = {"bvand": m.BVAnd, "bvor": m.BVOr, "bvxor": m.BVXor, "bvadd": m.BVAdd, "bvsub": m.BVSub, "bvmul": m.BVMul,
                  "bvudiv": m.BVUDiv, "bvurem": m.BVURem, "bvlshl": m.BVLShl, "bvlshr": m.BVLShr, "bvashr": m.BVAShr,
                  "bvsdiv": m.BVSDiv, "bvsrem": m.BVSRem}
            if k in un:
                return un[k](g(t))
            if k in bi:
                return bi[k](g(t), g(t))
            if k in ("bvrol", "bvror"):
                return (m.BVRol if k == "bvrol" else m.BVRor)(g(t), r.choice([0, 1, w - 1, w, r.randint(0, w)]))
            if k == "bvcomp":
                ty = BVType(r.choice(c.widths))
                return m.BVComp(g(ty), g(ty))
            if k == "extract":
                srcw = r.choice([x for x in c.widths if x >= w])
                start = r.randint(0, srcw - w)
                return m.BVExtract(g(BVType(srcw)), start, start + w - 1)
            if k == "concat":
                parts = [x for x in c.widths if x < w and (w - x) in c.widths]
                if not parts:
                    return None
                a = r.choice(parts)
                return m.BVConcat(g(BVType(a)), g(BVType(w - a)))
            if k in ("zext", "sext"):
                srcs = [x for x in c.widths if x <= w]
                a = r.choice(srcs)
                return (m.BVZExt if k == "zext" else m.BVSExt)(g(BVType(a)), w - a)
        if k == "store":
            return m.Store(g(t), g(t.index_type), g(t.elem_type))
        if k == "arrayvalue":
            nassign = r.choice([0, 0, 1, 2, 3])
            assigned = {}
            for _ in range(nassign):
                ic = self.const(t.index_type)
                if ic is None:
                    break
                assigned[ic] = g(t.elem_type)
            return m.Array(t.index_type, g(t.elem_type), assigned)
        return None

    def formula(self, depth=4, t=None):
        return self.gen(t or BOOL, depth)
