"""Seeded generator of SMT-LIB 2 script TEXT for C08/C09: well-sorted scripts over the theories pySMT
supports in every syntactic variant the parser has code for (let / forall / exists / define-fun /
annotations / indexed operators / as const / all literal notations / numerals typed by the logic),
with deliberate name collisions between globals, let variables, quantified variables and define-fun
names / parameters; plus a malformed stream derived from them.

Everything random comes from the random.Random passed in.  The generator knows nothing about
pySMT: it writes text from the grammar of the SMT-LIB 2.6 reference.
"""

BOOL, INT, REAL, STR = "Bool", "Int", "Real", "String"


def bv(w):
    return "(_ BitVec %d)" % w


def arr(i, e):
    return "(Array %s %s)" % (i, e)


LOGICS = [None, None, "QF_LIA", "QF_LRA", "QF_BV", "QF_UFLIRA", "LIA", "LRA", "AUFLIRA", "QF_AUFBV", "QF_SLIA",
          "QF_UFLRA", "QF_ALIA", "QF_NIA", "QF_UF", "qf_lia", "QF_UFBV", "UFLRA", "QF_FOO"]
INT_LOGIC = {None: True, "QF_LIA": True, "QF_LRA": False, "QF_BV": False, "QF_UFLIRA": True, "LIA": True, "LRA": False,
             "AUFLIRA": True, "QF_AUFBV": False, "QF_SLIA": True, "QF_UFLRA": False, "QF_ALIA": True, "QF_NIA": True,
             "QF_UF": False, "qf_lia": True, "QF_UFBV": False, "UFLRA": False, "QF_FOO": True}
NAMES = ["x", "y", "z", "a", "b", "f", "p"]
QUOTED = ["|x y|", "|a.b|", "|q#1|", "|A|"]


class ScriptGen(object):
    def __init__(self, rnd, strings=True, quantifiers=True, arrays=True, reals=True, bvs=True, uf=True, quoted=True):
        self.r = rnd
        self.opt = dict(strings=strings, quantifiers=quantifiers, arrays=arrays, reals=reals, bvs=bvs, uf=uf, quoted=quoted)

    # ------------------------------------------------------------------ a whole script
    def script(self, size=None):
        r = self.r
        self.logic = r.choice(LOGICS)
        self.real_numerals = not INT_LOGIC[self.logic]
        self.glob = {}        # name -> sort (constants)
        self.funs = {}        # name -> (param sorts, ret)
        self.defs = {}        # name -> (param sorts, ret)
        self.usorts = []
        out = []
        if self.logic is not None:
            out.append("(set-logic %s)" % self.logic)
        if r.random() < 0.3:
            out.append(r.choice(["(set-info :status sat)", "(set-option :produce-models true)", "(set-info :source |gen x|)",
                                 "(set-info :smt-lib-version 2.6)"]))
        sorts = [BOOL, BOOL]
        if self.logic is None or INT_LOGIC[self.logic]:
            sorts += [INT, INT]
        if self.opt["reals"] and (self.logic is None or "R" in (self.logic or "") or self.logic in ("QF_UFLIRA", "AUFLIRA")):
            sorts += [REAL]
        if self.opt["bvs"] and (self.logic is None or "BV" in self.logic):
            sorts += [bv(r.choice([1, 2, 3, 4, 8])), bv(4)]
        if self.opt["strings"] and self.logic in (None, "QF_SLIA"):
            sorts += [STR]
        if r.random() < 0.25:
            u = r.choice(["U", "S", "|My Sort|"])
            out.append("(declare-sort %s 0)" % u)
            self.usorts.append(u)
            sorts.append(u)
        if r.random() < 0.15:
            out.append("(define-sort MyT () %s)" % r.choice(sorts))
        if self.opt["arrays"] and (self.logic is None or "A" in self.logic.upper().replace("QF_", "")[:2]):
            base = [s for s in sorts if s in (INT,) or s.startswith("(_")]
            if base:
                i = r.choice(base)
                sorts.append(arr(i, r.choice([s for s in sorts if not s.startswith("(Array")])))
        self.sorts = sorts
        names = NAMES + (QUOTED if self.opt["quoted"] else [])
        r.shuffle(names)
        nd = r.randint(2, 6)
        for n in names[:nd]:
            s = r.choice(sorts)
            if self.opt["uf"] and r.random() < 0.2 and not s.startswith("(Array"):
                ps = [r.choice([x for x in sorts if not x.startswith("(Array")]) for _ in range(r.randint(1, 2))]
                out.append("(declare-fun %s (%s) %s)" % (n, " ".join(ps), s))
                self.funs[n] = (ps, s)
            elif r.random() < 0.3:
                out.append("(declare-const %s %s)" % (n, s))
                self.glob[n] = s
            else:
                out.append("(declare-fun %s () %s)" % (n, s))
                self.glob[n] = s
        ncmd = size or r.randint(2, 6)
        depth_push = 0
        for _ in range(ncmd):
            k = r.random()
            if k < 0.55:
                out.append("(assert %s)" % self.term(BOOL, r.randint(1, 4), dict(self.glob)))
            elif k < 0.72:
                out.append(self.define_fun(names))
            elif k < 0.78:
                out.append("(push %s)" % r.choice(["", "1", "2"]))
                depth_push += 1
            elif k < 0.82 and depth_push:
                out.append("(pop 1)")
                depth_push -= 1
            elif k < 0.88:
                out.append("(check-sat)")
            elif k < 0.93:
                ts = [self.term(r.choice(self.value_sorts()), 2, dict(self.glob)) for _ in range(r.randint(1, 3))]
                out.append("(get-value (%s))" % " ".join(ts))
            elif k < 0.96:
                bs = [n for n, s in self.glob.items() if s == BOOL]
                lits = [r.choice([b, "(not %s)" % b]) for b in bs[:2]]
                out.append("(check-sat-assuming (%s))" % " ".join(lits))
            else:
                out.append(r.choice(["(get-model)", "(get-info :name)", "(get-option :verbosity)", "(echo \"hi\")", "(get-assertions)",
                                     "(get-unsat-core)", "(get-proof)", "(reset-assertions)", "(get-assignment)", "(get-unsat-assumptions)"]))
        if r.random() < 0.5:
            out.append("(check-sat)")
        if r.random() < 0.3:
            out.append("(exit)")
        sep = r.choice(["\n", "\n", " ", "\n; a comment ( with | parens\n", "\t\n"])
        return sep.join(out) + r.choice(["\n", "", " "])

    def value_sorts(self):
        return [s for s in self.sorts if any(v == s for v in self.glob.values())] or [BOOL]

    def define_fun(self, names):
        r = self.r
        n = r.choice(names)
        while n in self.glob or n in self.funs or n in self.defs:
            n = n.rstrip("|") + r.choice("0123456789") + ("|" if n.startswith("|") else "")
        np_ = r.choice([0, 0, 1, 1, 2])
        pnames = r.sample(NAMES, np_)          # may coincide with globals: they shadow them in the body
        psorts = [r.choice([s for s in self.sorts if not s.startswith("(Array")]) for _ in range(np_)]
        ret = r.choice([s for s in self.sorts if not s.startswith("(Array")])
        scope = dict(self.glob)
        scope.update(zip(pnames, psorts))
        body = self.term(ret, r.randint(1, 3), scope)
        self.defs[n] = (psorts, ret)
        return "(define-fun %s (%s) %s %s)" % (n, " ".join("(%s %s)" % p for p in zip(pnames, psorts)), ret, body)

    # ------------------------------------------------------------------ literals
    def literal(self, s):
        r = self.r
        if s == BOOL:
            return r.choice(["true", "false"])
        if s == INT:
            if self.real_numerals:
                return None
            v = r.choice([0, 1, 2, 3, 7, 10, 255, 2 ** 65 + 1, r.randint(0, 30)])
            return r.choice(["%d" % v, "%d" % v, "(- %d)" % v])
        if s == REAL:
            n, d = r.choice([(0, 1), (1, 2), (3, 4), (5, 1), (7, 3), (10 ** 20 + 1, 7), (r.randint(0, 9), r.randint(1, 6))])
            forms = ["(/ %d %d)" % (n, d), "(/ %d.0 %d.0)" % (n, d), "(- (/ %d %d))" % (n, d), "(/ (- %d) %d)" % (n, d),
                     "%d.5" % n, "%d.0" % n, "(- %d.25)" % n, "0.%03d" % n if n < 1000 else "1.0"]
            if self.real_numerals or r.random() < 0.3:
                forms += ["%d" % n, "(- %d)" % n]      # a numeral in a Real position
            return r.choice(forms)
        if s.startswith("(_ BitVec"):
            w = int(s.split()[2].rstrip(")"))
            v = r.choice([0, 1, (1 << w) - 1, 1 << (w - 1), r.randint(0, (1 << w) - 1)])
            forms = ["#b" + format(v, "0%db" % w), "(_ bv%d %d)" % (v, w)]
            if w % 4 == 0:
                forms += ["#x" + format(v, "0%dx" % (w // 4)), "#x" + format(v, "0%dX" % (w // 4))]
            return r.choice(forms)
        if s == STR:
            return r.choice(['""', '"a"', '"ab"', '"a""b"', '"x y"', '"12"', '"(;|"', '"""a"""', '"007"'])
        return None

    def leaf(self, s, scope):
        r = self.r
        cands = [n for n, t in scope.items() if t == s]
        cands += [n for n, (ps, t) in self.defs.items() if not ps and t == s and n not in scope]
        lit = self.literal(s)
        if cands and (lit is None or r.random() < 0.6):
            return r.choice(cands)
        if lit is not None:
            return lit
        if s.startswith("(Array"):
            it, et = split_array(s)
            d = self.leaf(et, scope)
            if d is not None and not et.startswith("(Array"):
                return "((as const %s) %s)" % (s, d)
        return None

    # ------------------------------------------------------------------ terms
    def term(self, s, depth, scope):
        r = self.r
        if depth <= 0:
            t = self.leaf(s, scope)
            if t is None:
                # no leaf of this sort: make one through ite on an existing name, or give up on a fresh let
                t = self.fallback(s, scope)
            return t
        for _ in range(8):
            t = self._op(s, depth, scope)
            if t is not None:
                return t
        return self.term(s, 0, scope)

    def fallback(self, s, scope):
        if s == INT:
            return "0" if not self.real_numerals else "(- 0 0)" if False else self._int_zero(scope)
        if s == REAL:
            return "0.0"
        if s == BOOL:
            return "true"
        if s == STR:
            return '""'
        if s.startswith("(_ BitVec"):
            return self.literal(s)
        if s.startswith("(Array"):
            it, et = split_array(s)
            return "((as const %s) %s)" % (s, self.term(et, 0, scope))
        # uninterpreted sort: needs a declared constant
        for n, t in self.glob.items():
            if t == s and scope.get(n) == s:
                return n
        return "(as %s %s)" % ("u_" + s.strip("|").replace(" ", "_"), s)

    def _int_zero(self, scope):
        for n, t in scope.items():
            if t == INT:
                return "(- %s %s)" % (n, n)
        return "0"

    def fresh_names(self, k):
        r = self.r
        pool = NAMES + ["v", "w", "?v1", "$t"]
        return r.sample(pool, k)

    def _op(self, s, d, scope):
        r = self.r
        g = lambda t, sc=scope: self.term(t, d - 1 - (1 if r.random() < 0.3 else 0), sc)
        generic = ["ite", "let", "let", "annot"]
        apps = [n for n, (ps, t) in list(self.funs.items()) + list(self.defs.items()) if t == s and ps and n not in scope]
        if apps:
            generic += ["app", "app"]
        arrs = [x for x in self.sorts if x.startswith("(Array") and split_array(x)[1] == s]
        if arrs:
            generic.append("select")
        k = r.choice(generic + self.ops_for(s) * 2)
        if k == "ite":
            return "(ite %s %s %s)" % (g(BOOL), g(s), g(s))
        if k == "annot":
            return r.choice(["(! %s :named n%d)" % (g(s), r.randint(0, 999)), "(! %s :pattern (%s))" % (g(s), "x"),
                             "(! %s :weight 3 :flag)" % g(s), "(! %s :k1 v1 :k2 (a (b c)))" % g(s)])
        if k == "let":
            nb = r.choice([1, 1, 2, 3])
            vs = self.fresh_names(nb)
            ss = [r.choice([x for x in self.sorts if not x.startswith("(Array")] + [s]) for _ in vs]
            binds = " ".join("(%s %s)" % (v, g(t)) for v, t in zip(vs, ss))
            inner = dict(scope)
            inner.update(zip(vs, ss))
            return "(let (%s) %s)" % (binds, self.term(s, d - 1, inner))
        if k == "app":
            n = r.choice(apps)
            ps = (self.funs.get(n) or self.defs.get(n))[0]
            return "(%s %s)" % (n, " ".join(g(p) for p in ps))
        if k == "select":
            a = r.choice(arrs)
            return "(select %s %s)" % (g(a), g(split_array(a)[0]))
        if k in ("forall", "exists"):
            nv = r.choice([1, 1, 2])
            vs = self.fresh_names(nv)
            ss = [r.choice([x for x in self.sorts if not x.startswith("(Array") and x != STR]) for _ in vs]
            inner = dict(scope)
            inner.update(zip(vs, ss))
            return "(%s (%s) %s)" % (k, " ".join("(%s %s)" % p for p in zip(vs, ss)), self.term(BOOL, d - 1, inner))
        n = r.randint(2, 3)
        if s == BOOL:
            if k in ("and", "or"):
                return "(%s %s)" % (k, " ".join(g(BOOL) for _ in range(n)))
            if k == "not":
                return "(not %s)" % g(BOOL)
            if k in ("=>", "xor"):
                return "(%s %s %s)" % (k, g(BOOL), g(BOOL))
            if k == "=":
                t = r.choice([x for x in self.sorts])
                return "(= %s %s)" % (g(t), g(t))
            if k == "distinct":
                t = r.choice([x for x in self.sorts if not x.startswith("(Array")])
                return "(distinct %s)" % " ".join(g(t) for _ in range(n))
            if k in ("<", "<=", ">", ">="):
                t = r.choice([x for x in (INT, REAL) if x in self.sorts])
                return "(%s %s %s)" % (k, g(t), g(t))
            if k.startswith("bv"):
                t = r.choice([x for x in self.sorts if x.startswith("(_ BitVec")])
                return "(%s %s %s)" % (k, g(t), g(t))
            if k.startswith("str."):
                return "(%s %s %s)" % (k, g(STR), g(STR))
        if s in (INT, REAL):
            if k in ("+", "*"):
                if k == "*" and r.random() < 0.7:
                    return "(* %s %s)" % (self.literal(s) or g(s), g(s))
                return "(%s %s)" % (k, " ".join(g(s) for _ in range(n)))
            if k == "-":
                return "(- %s %s)" % (g(s), g(s)) if r.random() < 0.7 else "(- %s)" % g(s)
            if k == "/":
                return "(/ %s %s)" % (g(REAL), self.literal(REAL))
            if k == "div":
                return "(div %s %s)" % (g(INT), r.choice([self.literal(INT) or g(INT), g(INT)]))
            if k == "to_real":
                return "(to_real %s)" % g(INT)
            if k == "bv2nat":
                return "(bv2nat %s)" % g(r.choice([x for x in self.sorts if x.startswith("(_ BitVec")]))
            if k == "str.len":
                return "(str.len %s)" % g(STR)
            if k == "str.indexof":
                return "(str.indexof %s %s %s)" % (g(STR), g(STR), g(INT))
            if k in ("str.to.int", "str.to_int"):
                return "(%s %s)" % (k, g(STR))
        if s == STR:
            if k == "str.++":
                return "(str.++ %s)" % " ".join(g(STR) for _ in range(n))
            if k == "str.at":
                return "(str.at %s %s)" % (g(STR), g(INT))
            if k == "str.substr":
                return "(str.substr %s %s %s)" % (g(STR), g(INT), g(INT))
            if k == "str.replace":
                return "(str.replace %s %s %s)" % (g(STR), g(STR), g(STR))
            if k in ("int.to.str", "str.from_int"):
                return "(%s %s)" % (k, g(INT))
        if s.startswith("(_ BitVec"):
            w = int(s.split()[2].rstrip(")"))
            if k in ("bvnot", "bvneg"):
                return "(%s %s)" % (k, g(s))
            if k in ("bvand", "bvor", "bvadd", "bvmul"):
                return "(%s %s)" % (k, " ".join(g(s) for _ in range(r.choice([2, 2, 3]))))
            if k in ("bvxor", "bvsub", "bvudiv", "bvurem", "bvshl", "bvlshr", "bvashr", "bvsdiv", "bvsrem", "bvsmod", "bvnand", "bvnor", "bvxnor"):
                return "(%s %s %s)" % (k, g(s), g(s))
            if k == "bvcomp" and w == 1:
                t = r.choice([x for x in self.sorts if x.startswith("(_ BitVec")])
                return "(bvcomp %s %s)" % (g(t), g(t))
            if k == "extract":
                src = [x for x in self.sorts if x.startswith("(_ BitVec") and int(x.split()[2].rstrip(")")) >= w]
                t = r.choice(src)
                sw = int(t.split()[2].rstrip(")"))
                lo = r.randint(0, sw - w)
                return "((_ extract %d %d) %s)" % (lo + w - 1, lo, g(t))
            if k == "concat":
                src = [x for x in self.sorts if x.startswith("(_ BitVec") and int(x.split()[2].rstrip(")")) < w]
                for t in src:
                    a = int(t.split()[2].rstrip(")"))
                    if bv(w - a) in self.sorts:
                        return "(concat %s %s)" % (g(t), g(bv(w - a)))
                return None
            if k in ("zero_extend", "sign_extend"):
                src = [x for x in self.sorts if x.startswith("(_ BitVec") and int(x.split()[2].rstrip(")")) <= w]
                t = r.choice(src)
                return "((_ %s %d) %s)" % (k, w - int(t.split()[2].rstrip(")")), g(t))
            if k in ("rotate_left", "rotate_right"):
                return "((_ %s %d) %s)" % (k, r.randint(0, w), g(s))
            if k == "repeat":
                for t in self.sorts:
                    if t.startswith("(_ BitVec"):
                        a = int(t.split()[2].rstrip(")"))
                        if w % a == 0:
                            return "((_ repeat %d) %s)" % (w // a, g(t))
                return None
        if s.startswith("(Array") and k == "store":
            it, et = split_array(s)
            return "(store %s %s %s)" % (g(s), g(it), g(et))
        return None

    def ops_for(self, s):
        has = lambda p: any(p(x) for x in self.sorts)
        isbv = lambda x: x.startswith("(_ BitVec")
        if s == BOOL:
            ops = ["and", "or", "not", "=>", "xor", "=", "=", "distinct"]
            if has(lambda x: x in (INT, REAL)):
                ops += ["<", "<=", ">", ">="]
            if has(isbv):
                ops += ["bvult", "bvule", "bvugt", "bvuge", "bvslt", "bvsle", "bvsgt", "bvsge"]
            if STR in self.sorts:
                ops += ["str.contains", "str.prefixof", "str.suffixof"]
            if self.opt["quantifiers"]:
                ops += ["forall", "exists"]
            return ops
        if s == INT:
            ops = ["+", "-", "*", "+", "-", "div"]
            if has(isbv):
                ops.append("bv2nat")
            if STR in self.sorts:
                ops += ["str.len", "str.indexof", "str.to.int", "str.to_int"]
            return ops
        if s == REAL:
            ops = ["+", "-", "*", "/"]
            if INT in self.sorts:
                ops.append("to_real")
            return ops
        if s == STR:
            return ["str.++", "str.at", "str.substr", "str.replace", "int.to.str", "str.from_int"]
        if isbv(s):
            return ["bvnot", "bvneg", "bvand", "bvor", "bvadd", "bvmul", "bvxor", "bvsub", "bvudiv", "bvurem", "bvshl", "bvlshr",
                    "bvashr", "bvsdiv", "bvsrem", "bvsmod", "bvnand", "bvnor", "bvxnor", "bvcomp", "extract", "concat",
                    "zero_extend", "sign_extend", "rotate_left", "rotate_right", "repeat"]
        if s.startswith("(Array"):
            return ["store", "store"]
        return []


def split_array(s):
    """'(Array I E)' -> (I, E) for the sorts this generator writes."""
    body = s[len("(Array "):-1]
    depth = 0
    for i, c in enumerate(body):
        if c == "(":
            depth += 1
        elif c == ")":
            depth -= 1
        elif c == " " and depth == 0:
            return body[:i], body[i + 1:]
    raise ValueError(s)


# ---------------------------------------------------------------------- directed shapes
# (tag, text): scripts on which the SMT-LIB reading and a plausible mis-reading differ.
def directed(rnd):
    r = rnd
    v1, v2 = r.sample(["x", "y", "z", "a", "b"], 2)
    c1, c2 = r.sample([0, 1, 2, 3, 5, 7], 2)
    w = r.choice([2, 3, 4])
    out = []
    D = "(declare-fun %s () Int)(declare-fun %s () Int)" % (v1, v2)
    out.append(("let-parallel-swap", D + "(assert (let ((%s %s) (%s %s)) (< %s %s)))" % (v1, v2, v2, v1, v1, v2)))
    out.append(("let-parallel-nested", D + "(assert (let ((%s %d)) (let ((%s %d) (%s %s)) (= %s %d))))" % (v1, c1, v1, c2, v2, v1, v2, c1)))
    out.append(("let-parallel-3", D + "(assert (let ((%s (+ %s 1)) (%s (+ %s 1))) (= %s %s)))" % (v1, v2, v2, v1, v1, v2)))
    out.append(("let-shadows-global", D + "(assert (let ((%s (+ %s %d))) (> %s %s)))" % (v1, v1, c1, v1, v2)))
    out.append(("definefun-vs-quantifier", "(define-fun %s () Int %d)(assert (forall ((%s Int)) (> %s %d)))" % (v1, c1, v1, v1, c1 - 1)))
    out.append(("definefun-vs-quantifier2", "(define-fun %s () Int %d)(assert (exists ((%s Int)) (= %s %d)))" % (v1, c1, v1, v1, c1 + 1)))
    out.append(("definefun-vs-let", "(define-fun %s () Int %d)(assert (let ((%s %d)) (= %s %d)))" % (v1, c1, v1, c2, v1, c2)))
    out.append(("definefun-vs-param", "(define-fun %s () Int %d)(define-fun g ((%s Int)) Int (+ %s 1))(assert (= (g %d) %d))" % (v1, c1, v1, v1, c2, c2 + 1)))
    out.append(("definefun-capture-exists", "(define-fun f ((%s Int)) Bool (exists ((%s Int)) (> %s %s)))(declare-fun %s () Int)(assert (f %s))" % (v1, v2, v2, v1, v2, v2)))
    out.append(("definefun-capture-forall", "(declare-fun %s () Int)(define-fun f ((%s Int)) Bool (forall ((%s Int)) (= %s %s)))(assert (not (f %s)))" % (v2, v1, v2, v2, v1, v2)))
    out.append(("definefun-capture-bv", "(declare-fun %s () (_ BitVec %d))(define-fun f ((%s (_ BitVec %d))) Bool (exists ((%s (_ BitVec %d))) (bvult %s %s)))(assert (f %s))" % (v2, w, v1, w, v2, w, v1, v2, v2)))
    out.append(("definefun-nocapture-difftype", "(declare-fun %s () Int)(define-fun f ((%s Int)) Bool (exists ((%s Bool)) (and %s (> %s 0))))(assert (f %s))" % (v2, v1, v2, v2, v1, v2)))
    out.append(("definefun-global-shadowed-by-param", D + "(define-fun f ((%s Int)) Int (+ %s %s))(assert (= (f %d) (+ %d %s)))" % (v1, v1, v2, c1, c1, v2)))
    out.append(("undeclared-identifier", "(declare-fun s () String)(assert (= s %s))" % r.choice(["t", "undeclared", "abc"])))
    out.append(("undeclared-in-distinct", "(assert (distinct foo bar))"))
    out.append(("named-term-used", "(declare-fun %s () Int)(assert (! (> %s %d) :named a1))(assert (= \"a1\" \"a1\"))" % (v1, v1, c1)))
    out.append(("quoted-paren", "(declare-fun |(| () Bool)(assert |(|)"))
    out.append(("quoted-numeral", "(declare-fun |%d| () Int)(assert (= |%d| %d))" % (c1, c1, c1)))
    out.append(("quoted-true", "(declare-fun |5x| () Bool)(assert |5x|)"))
    out.append(("quoted-string-like", "(declare-fun |\"a\"| () String)(assert (= |\"a\"| \"a\"))"))
    out.append(("quoted-operator-name", "(declare-fun |and| (Bool Bool) Bool)(assert (|and| true false))"))
    out.append(("string-unicode-escape", "(declare-fun s () String)(assert (= (str.len \"\\u{41}\") 1))"))
    out.append(("string-unicode-escape2", "(declare-fun s () String)(assert (= s \"a\\u0042\"))(assert (= (str.len s) 2))"))
    out.append(("cr-whitespace", "(declare-fun s () String)(declare-fun t () String)(assert (= s\r\n t))"))
    out.append(("cr-whitespace2", "(declare-fun p () Bool)\r\n(assert p)\r\n"))
    out.append(("pop-scoping", "(push 1)(declare-fun %s () Int)(pop 1)(declare-fun %s () Int)(assert (> %s 0))" % (v1, v1, v1)))
    out.append(("pop-scoping-redeclare", "(push 1)(declare-fun %s () Int)(pop 1)(declare-fun %s () Bool)(assert %s)" % (v1, v1, v1)))
    out.append(("literal-cached-across-logic", "(declare-fun r () Real)(assert (> r 1))(set-logic QF_LRA)(assert (> r 1))"))
    out.append(("numeral-real-logic", "(set-logic QF_LRA)(declare-fun r () Real)(assert (= r 3))(assert (= (+ r 1) 4))"))
    out.append(("numeral-int-logic", "(set-logic QF_LIA)(declare-fun i () Int)(assert (= i 3))(assert (= (- i) (- 3)))"))
    out.append(("numeral-mixed-logic", "(set-logic QF_UFLIRA)(declare-fun i () Int)(declare-fun r () Real)(assert (= (to_real i) r))(assert (< r 2.5))(assert (< i 2))"))
    out.append(("decimal-in-int-logic", "(set-logic QF_UFLIRA)(declare-fun r () Real)(assert (= r 2.0))(assert (= r (/ 4 2)))"))
    out.append(("as-const", "(declare-fun a () (Array Int Int))(assert (= a ((as const (Array Int Int)) %d)))(assert (= (select a %d) %d))" % (c1, c2, c1)))
    out.append(("as-const-bv", "(declare-fun a () (Array (_ BitVec 2) Bool))(assert (= (store a #b01 true) ((as const (Array (_ BitVec 2) Bool)) true)))"))
    out.append(("bv-indexed", "(declare-fun b () (_ BitVec 8))(assert (= ((_ extract 7 4) b) ((_ extract 3 0) (bvnot b))))(assert (= ((_ zero_extend 2) #b11) #b0011))(assert (= ((_ sign_extend 2) #b10) #b1110))(assert (= ((_ rotate_left 1) #b100) #b001))(assert (= ((_ rotate_right 1) #b001) #b100))(assert (= ((_ repeat 2) #b10) #b1010))"))
    out.append(("bv-ops", "(declare-fun b () (_ BitVec %d))(declare-fun c () (_ BitVec %d))(assert (= (bvsub b c) (bvadd b (bvneg c))))(assert (= (bvsmod b c) (bvsrem b c)))(assert (bvsge b c))(assert (= (bvcomp b c) #b1))" % (w, w)))
    out.append(("nested-binders", "(declare-fun %s () Int)(assert (forall ((%s Int)) (exists ((%s Int)) (let ((%s (+ %s 1))) (> %s %s)))))" % (v1, v1, v2, v1, v2, v1, v2)))
    out.append(("quantifier-type-clash", "(declare-fun %s () Int)(assert (and (> %s 0) (forall ((%s Bool)) (or %s (not %s)))))" % (v1, v1, v1, v1, v1)))
    out.append(("quantifier-shadow-same-type", "(declare-fun %s () Int)(assert (and (> %s 0) (exists ((%s Int)) (< %s 0))))" % (v1, v1, v1, v1)))
    out.append(("let-bound-function-object", "(declare-fun b () (_ BitVec 4))(assert (= ((_ extract 1 0) b) #b01))"))
    out.append(("minus-forms", "(declare-fun i () Int)(declare-fun r () Real)(assert (= (- i) (* (- 1) i)))(assert (= (- r) (- 0.0 r)))(assert (= (- 5) (- 0 5)))(assert (= (/ 1 3) (/ 2 6)))"))
    out.append(("division-forms", "(declare-fun r () Real)(assert (= (/ r 2) (* r 0.5)))(assert (= (/ r 2.0) (* 0.5 r)))(assert (> (/ 1 r) 0.0))"))
    out.append(("chain-eq-bool", "(declare-fun p () Bool)(declare-fun q () Bool)(assert (= p q))(assert (distinct p q true))"))
    out.append(("define-sort", "(define-sort Word () (_ BitVec 4))(declare-fun w () Word)(assert (= w #xF))"))
    out.append(("declare-sort-param", "(declare-sort Pair 2)(declare-fun pr () (Pair Int Bool))(declare-fun q () (Pair Int Bool))(assert (= pr q))"))
    out.append(("uf-apps", "(declare-sort U 0)(declare-fun f (U Int) U)(declare-fun u () U)(assert (= (f (f u 1) 2) u))"))
    out.append(("strings", "(declare-fun s () String)(assert (= (str.++ s \"a\"\"b\") \"x\"))(assert (str.prefixof \"a\" s))(assert (= (str.at s 0) (str.substr s 0 1)))(assert (= (int.to.str (str.to.int s)) s))"))
    out.append(("get-value-terms", "(declare-fun %s () Int)(declare-fun %s () Int)(get-value (%s (+ %s %s) (let ((%s %s)) %s)))" % (v1, v2, v1, v1, v2, v1, v2, v1)))
    out.append(("to_bv", "(assert (= ((_ to_bv 8) 5) #x05))"))
    out.append(("let-extension-issue159", "(declare-fun %s () Int)(assert (let ((a %s) (b (+ a %s))) (> b a)))" % (v1, v1, v1)))
    out.append(("let-parallel-duplicate", "(declare-fun %s () Int)(assert (let ((a 1) (a 2)) (= a %s)))(assert (= a 1))" % (v1, v1)))
    out.append(("let-shadows-define", "(define-fun %s () Int %d)(assert (let ((%s %d) (%s %s)) (= %s %d)))" % (v1, c1, v1, c2, v2, v1, v2, c1)))
    out.append(("define-after-declare-pop", "(push 1)(declare-fun %s () Int)(pop 1)(define-fun %s () Int %d)(assert (= %s %d))" % (v1, v1, c1, v1, c1)))
    out.append(("declare-after-define", "(define-fun %s () Int %d)(declare-fun %s () Int)(assert (= %s %d))" % (v1, c1, v2, v1, c1)))
    out.append(("multi-var-quantifier", "(declare-fun p (Int Bool (_ BitVec 2)) Bool)(assert (forall ((%s Int) (%s Bool) (w (_ BitVec 2))) (exists ((w Int) (%s Int)) (p %s %s #b01))))" % (v1, v2, v1, v1, v2)))
    out.append(("int-div", "(declare-fun i () Int)(assert (= (div i 2) (div 255 (- 10))))(assert (= (div (- 7) 2) (- 4)))"))
    out.append(("string-names-26", "(declare-fun s () String)(assert (= (str.from_int (str.to_int s)) (int.to.str (str.to.int s))))"))
    out.append(("quoted-declarations", "(declare-const |x y| Bool)(declare-fun |f g| (Int) Int)(define-fun |h k| ((|a b| Int) (c Bool)) Int (ite (and c |x y|) (|f g| |a b|) 0))(assert (= (|h k| 1 true) 2))(get-value ((|h k| 0 false)))"))
    out.append(("cr-lf-lines", "(declare-fun p () Bool)\r\n(declare-fun q () Bool)\r\n(assert (and p\r\n q))\r\n(check-sat)\r\n"))
    out.append(("pow", "(declare-fun r () Real)(assert (= (pow r 2) (* r r)))"))
    # Bool-sorted terms headed by operators of other theories, as operands of = / distinct / ite / => / xor
    out.append(("bool-select-eq", "(declare-fun a () (Array Int Bool))(declare-fun %s () Int)(declare-fun p () Bool)(assert (= (select a %s) p))(assert (= p (select a %s)))"
                "(assert (not (= (select a %s) (select a (+ %s 1)))))(assert (xor (select a %d) p))(assert (=> (select a %d) (= (select (store a %d p) %s) p)))" % (v1, v1, v1, v1, v1, c1, c2, c1, v1)))
    out.append(("bool-select-nested", "(declare-fun m () (Array (_ BitVec 4) (Array Int Bool)))(declare-fun p () Bool)(assert (forall ((%s Int)) (and p (= (select (select m #b0011) %s) p))))"
                "(assert (= (select m #x1) (select m #x2)))(assert (ite (select (select m #x0) %d) (= p (select (select m #x0) %d)) (not p)))" % (v1, v1, c1, c2)))
    out.append(("bool-uf-eq", "(declare-fun f (Int) Bool)(declare-fun p () Bool)(assert (= (f %d) p))(assert (= p (f %d)))(assert (distinct (f %d) (f %d)))"
                "(assert (ite (f 1) (= (f 2) p) (=> p (f 3))))(assert (= (ite p (f 1) (f 2)) (not (f 3))))" % (c1, c2, c1, c2)))
    out.append(("bool-relations-eq", "(declare-fun v () (_ BitVec %d))(declare-fun w () (_ BitVec %d))(declare-fun %s () Int)(declare-fun p () Bool)(assert (= (bvult v w) p))"
                "(assert (= (= (bvcomp v w) #b1) (bvule w v)))(assert (= (< %s %d) (= %s %d)))(assert (= (exists ((%s Int)) (> %s %d)) p))" % (w, w, v1, v1, c1, v1, c2, v2, v2, c1)))
    out.append(("ite-nonbool-left-of-eq", "(declare-fun p () Bool)(declare-fun %s () Int)(declare-fun v () (_ BitVec 4))(declare-fun a () (Array Int Int))(declare-fun b () (Array Int Int))"
                "(declare-fun c () (Array Int Bool))(assert (= (ite p %s %d) %d))(assert (= (ite p v #x1) v))(assert (= (ite p a b) (store a %d %d)))(assert (= (ite (select c %s) a b) b))"
                "(assert (= (select (ite p a b) %s) %d))" % (v1, v1, c1, c2, c1, c2, v1, v1, c1)))
    return out


# ---------------------------------------------------------------------- scope stacks of ONE name
# Nested binders of one name to depth 3-5 (let, forall, exists, over a declared constant, a
# define-fun'd name or a define-fun parameter), the let VALUES drawn from a pool of two terms so that
# the same (hash-consed) value recurs at non-adjacent depths (A-B-A, A-B-A-B, A-A-B-A, A-B-B-A ...),
# and a USE of the name at every position: before and after every inner scope inside the enclosing
# one, in the innermost scope, and after everything is closed.  Uses are applications of
# uninterpreted predicates combined by Boolean equality, so that every single use matters to the
# value of the assertion.  The texts are legal SMT-LIB; the reference reader decides what they mean.
SCOPE_PATTERNS = ["ABA", "ABA", "ABAB", "AABA", "ABBA", "ABABA", "BAB", "ABAA", "BABA", "ABBAB", "AAB", "ABC"]
SCOPE_HEAD = "(declare-const a Int)(declare-const b Int)(declare-const c Int)(declare-fun p (Int) Bool)(declare-fun q (Int) Bool)"


class ScopeStackGen(object):
    def __init__(self, rnd):
        self.r = rnd

    def use(self, names):
        r = self.r
        n = r.choice(names)
        k = r.random()
        if k < 0.45:
            return "(%s %s)" % (r.choice("pq"), n)
        if k < 0.7 and len(names) > 1:
            return "(%s (+ %s %s))" % (r.choice("pq"), names[0], names[1])
        if k < 0.85:
            return "(< %s %s)" % (n, r.choice(["b", "c", "1"]))
        return "(p (- %s %s))" % (n, r.choice(["c", "2"]))

    def nest(self, name, other, values, kinds, uses_other):
        """values[i] / kinds[i] for level i (outermost first): the Bool text of the whole nest"""
        names = [name] + ([other] if uses_other else [])
        def level(i):
            if i == len(kinds):
                return self.use(names)
            inner = level(i + 1)
            k, v = kinds[i], values[i]
            if k == "let":
                b = "(let ((%s %s)) %s)" % (name, v, inner)
            elif k == "let2":           # parallel let: the other name gets the other value of the pool
                pair = [(name, v), (other, values[i - 1] if i else v)]
                if self.r.random() < 0.5:
                    pair.reverse()
                b = "(let (%s) %s)" % (" ".join("(%s %s)" % nv for nv in pair), inner)
            else:
                b = "(%s ((%s Int)) %s)" % (k, name, inner)
            if i == 0:
                return b
            form = self.r.random()
            if form < 0.6:
                return "(= %s (= %s %s))" % (self.use(names), b, self.use(names))     # a use on both sides
            if form < 0.8:
                return "(= %s %s)" % (b, self.use(names))                              # only after
            return "(= %s %s)" % (self.use(names), b)                                  # only before
        return level(0)

    def script(self):
        r = self.r
        pat = r.choice(SCOPE_PATTERNS)
        bottom = r.choice(["let", "let", "let", "global", "defined", "param", "let2"])
        name = "a" if bottom == "global" else "x"
        other = "z"
        pool = [v for v in ["a", "b", "(+ a b)", "3", "(* 2 b)", "c", "(- b)"] if bottom != "global" or "a" not in v]
        A, B, C = r.sample(pool, 3)
        val = {"A": A, "B": B, "C": C}
        values = [val[ch] for ch in pat]
        kinds = []
        for i, ch in enumerate(pat):
            k = r.random()
            kinds.append("let" if k < 0.62 else "let2" if k < 0.78 else r.choice(["forall", "exists"]))
        kinds[-1] = "let" if r.random() < 0.85 else kinds[-1]        # the innermost scope is usually a let
        uses_other = "let2" in kinds or bottom == "let2"
        head = SCOPE_HEAD
        pre, post = "", ""
        if uses_other:
            head += "(declare-const z Int)"
        if bottom == "global":
            # the declared constant a is the bottom of the stack; y is an alias of it, so that an inner
            # let can give a the very value it has at the bottom
            values = ["y" if v == A else v for v in values]
            kinds[0] = "let"
            body = "(let ((y a)) %s)" % self.nest(name, other, values[1:], kinds[1:], uses_other) if len(pat) > 1 else "(p a)"
            text = head + "(assert %s)" % body
        elif bottom == "defined":
            text = head + "(define-fun x () Int %s)(assert %s)" % (values[0], self.nest(name, other, values[1:], kinds[1:], uses_other))
        elif bottom == "param":
            text = head + "(define-fun f ((x Int)) Bool %s)(assert (f %s))" % (self.nest(name, other, values[1:], kinds[1:], uses_other), values[0])
        else:
            if bottom == "let2":
                kinds[0] = "let2"
            text = head + "(assert %s)" % self.nest(name, other, values, kinds, uses_other)
        if r.random() < 0.5:            # and a use after everything is closed
            text += "(assert (= (p %s) (q c)))" % {"global": "a", "defined": "x"}.get(bottom, "b")
        return text


def scope_directed(rnd):
    """(tag, text): one name re-bound to a value it had at a non-adjacent outer level"""
    r = rnd
    A, B, C = r.sample(["a", "b", "c", "(+ a b)", "7", "(* 2 b)"], 3)
    H = SCOPE_HEAD
    out = []
    out.append(("aba-let", H + "(assert (let ((x %s)) (let ((x %s)) (= (+ (let ((x %s)) x) x) (+ %s %s)))))" % (A, B, A, A, B)))
    out.append(("aba-let-pred", H + "(assert (let ((x %s)) (let ((x %s)) (= (p x) (= (let ((x %s)) (q x)) (q x))))))" % (A, B, A)))
    out.append(("aba-global-alias", H + "(assert (let ((y a)) (let ((a 7)) (= (+ (let ((a y)) a) a) (+ y 7)))))"))
    out.append(("aba-parallel", H + "(declare-const z Int)(assert (let ((x %s) (z %s)) (let ((x %s) (z %s)) (= (- (let ((z %s) (x %s)) (+ x z)) (+ x z)) (- (+ %s %s) (+ %s %s))))))"
                % (A, C, B, A, B, A, A, B, B, A)))
    out.append(("abab-let", H + "(assert (let ((x %s)) (let ((x %s)) (= (p x) (= (let ((x %s)) (= (q x) (= (let ((x %s)) (p x)) (p x)))) (q x))))))" % (A, B, A, B)))
    out.append(("aaba-let", H + "(assert (let ((x %s)) (let ((x %s)) (let ((x %s)) (= (p x) (= (let ((x %s)) (q x)) (q x)))))))" % (A, A, B, A)))
    out.append(("abba-let", H + "(assert (let ((x %s)) (let ((x %s)) (let ((x %s)) (= (p x) (= (let ((x %s)) (q x)) (q x)))))))" % (A, B, B, A)))
    out.append(("aba-quantifier-middle", H + "(assert (let ((x %s)) (forall ((x Int)) (= (p x) (= (let ((x %s)) (q x)) (q x))))))" % (A, A)))
    out.append(("aba-quantifier-middle-exists", H + "(assert (let ((x %s)) (exists ((x Int)) (and (p x) (= (let ((x %s)) (q x)) (q x))))))" % (A, A)))
    out.append(("aba-over-defined", H + "(define-fun x () Int %s)(assert (let ((x %s)) (= (p x) (= (let ((x %s)) (q x)) (q x)))))(assert (p x))" % (A, B, A)))
    out.append(("aba-in-definition-body", H + "(define-fun f ((x Int)) Bool (let ((x %s)) (let ((x %s)) (= (p x) (= (let ((x %s)) (q x)) (q x))))))(assert (f %s))" % (A, B, A, C)))
    out.append(("aba-over-parameter", H + "(define-fun f ((x Int)) Bool (let ((y x)) (let ((x %s)) (= (p x) (= (let ((x y)) (q x)) (q x))))))(assert (f %s))(assert (f %s))" % (B, A, C)))
    out.append(("aba-global-quantified-var", H + "(assert (forall ((x Int)) (let ((y x)) (let ((x %s)) (= (p x) (= (let ((x y)) (q x)) (q x)))))))" % B))
    out.append(("aba-swap-parallel", H + "(declare-const z Int)(assert (let ((x %s) (z %s)) (let ((x z) (z x)) (= (p (+ x (* 2 z))) (= (let ((x z) (z x)) (q (+ x (* 2 z)))) (q (+ x (* 2 z))))))))" % (A, B)))
    out.append(("aba-get-value", H + "(get-value ((let ((x %s)) (let ((x %s)) (+ (let ((x %s)) x) x)))))" % (A, B, A)))
    # (open finding definefun-captures, let path: a let-bound term under a quantifier over one of its symbols)
    out.append(("let-value-captured-by-quantifier", H + "(assert (let ((y a)) (forall ((a Int)) (= (p a) (= (let ((a y)) (q a)) (p a))))))"))
    out.append(("let-value-captured-by-quantifier2", H + "(assert (forall ((a Int)) (let ((y a)) (exists ((a Int)) (and (> a y) (p y))))))"))
    out.append(("ctl-2-level", H + "(assert (let ((x %s)) (= (+ (let ((x %s)) x) x) (+ %s %s))))" % (A, B, B, A)))
    out.append(("ctl-abc", H + "(assert (let ((x %s)) (let ((x %s)) (= (+ (let ((x %s)) x) x) (+ %s %s)))))" % (A, B, C, C, B)))
    return out


# ---------------------------------------------------------------------- malformed stream
BAD_ATOMS = ["#b", "#x", "#b2", "#xZ", "#", "#B1", "1e3", "+3", "007", "1/2", ".5", "5.", "1_0", "||", "|a\\|b|", "|a\\xb|", "|)|", "|(|",
             "|let|", "|5|", "|true|", "|_|", "\"unterminated", "|unterminated", ":kw", "let", "forall", "_", "!", "as", "and", "Int", "1.d", "0x10",
             "#b_1", "--1", "1.5.2", "\\", "'", "a\rb", "\f"]


def malformed(rnd, good):
    """A list of malformed variants of the well-formed script `good`."""
    r = rnd
    out = []
    n = len(good)
    # truncations
    for _ in range(2):
        out.append(good[:r.randint(1, max(1, n - 1))])
    # delete / duplicate / insert a token-ish piece
    toks = good.replace("(", " ( ").replace(")", " ) ").split(" ")
    toks = [t for t in toks if t != ""]
    if len(toks) > 3:
        i = r.randrange(len(toks))
        out.append(" ".join(toks[:i] + toks[i + 1:]))
        i = r.randrange(len(toks))
        out.append(" ".join(toks[:i] + [toks[i]] + toks[i:]))
        i = r.randrange(len(toks))
        out.append(" ".join(toks[:i] + [r.choice(BAD_ATOMS)] + toks[i:]))
        i = r.randrange(len(toks))
        out.append(" ".join(toks[:i] + [r.choice(BAD_ATOMS)] + toks[i + 1:]))
        i = r.randrange(len(toks))
        out.append(" ".join(toks[:i] + [r.choice(["(", ")", "()", "(()"])] + toks[i:]))
        # an undeclared name instead of a token
        i = r.randrange(len(toks))
        out.append(" ".join(toks[:i] + [r.choice(["undeclared", "foo", "div", "mod", "abs", "str.to_int", "bvfoo"])] + toks[i + 1:]))
    return out


FIXED_MALFORMED = [
    "(check-sat 1)", "(push 1 2)", "(push x)", "(pop -1)", "(declare-fun f Int)", "(declare-fun f (Int) )", "(declare-fun f () Foo)",
    "(declare-const c)", "(declare-sort S x)", "(declare-sort S 1)(declare-sort S 2)", "(declare-sort S 1)(declare-fun s () S)",
    "(declare-sort S 1)(declare-fun s () (S Int Int))", "(declare-sort S 1)(declare-fun s () (S Int))(assert (= s s))",
    "(define-fun f ((x Int)) Bool x)", "(define-fun f ((x Int)) Int)", "(define-fun f (x Int) Int x)", "(define-fun f () Real 1)",
    "(define-fun f () Real (+ 1 2))(assert (> f 0.5))", "(define-fun f () Int 1.5)", "(define-sort T (X) (Array Int X))", "(define-sort T (X) X)",
    "(define-sort T () Int)(declare-fun t () T)(assert (> t 0))", "(define-sort T () Int)(assert T)", "(define-sort T () Int)(assert (T 1))",
    "(define-fun-rec f ((x Int)) Int x)", "(define-funs-rec ((f ((x Int)) Int)) (x))", "(foo)", "(assert)", "(assert true true)", "(assert true",
    "assert true)", "(assert (let ((x 1) (x 2)) (= x 2)))(assert (= x 1))", "(assert (let () true))", "(assert (let (x 1) x))", "(assert (let ((x)) x))",
    "(assert (forall () true))", "(assert (forall ((x Int) (x Int)) (> x 0)))", "(assert (forall ((x Int)) x))", "(assert (forall ((x Foo)) true))",
    "(assert (exists (x Int) true))", "(assert (! true))", "(assert (! true :named))", "(assert (! true named x))", "(assert (! true :a (b ))",
    "(assert (_ bv5 3))", "(assert (= (_ bv5 3) #b101))", "(assert (= (_ bv9 3) #b101))", "(assert (= (_ bvx 3) #b101))", "(assert (= (_ bv5) #b101))",
    "(assert (_ extract 1 0))", "(assert ((_ extract 0 1) #b11))", "(assert (= ((_ extract 5 0) #b11) #b11))", "(assert (= ((_ extract a 0) #b11) #b1))",
    "(assert (= ((_ foo 1) #b11) #b1))", "(assert (= ((_ repeat 0) #b1) #b1))",
    "(declare-fun i () Int)(assert (= ((_ repeat 1) i) i))", "(assert (= ((_ repeat 1) (+ 1 2)) 3))",
    "(declare-fun p () Bool)(assert ((_ repeat 1) p))", "(declare-fun i () Int)(assert (= ((_ repeat 2) i) i))",
    "(assert (= ((_ repeat 1) #b10) #b10))", "(assert (= ((_ rotate_left 5) #b101) #b101))",
    "(assert (= ((_ zero_extend -1) #b101) #b101))", "(assert (= ((_ to_bv 4) 3) #x3))", "(assert (= ((_ to_bv 4) (- 3)) #xD))", "(assert (= ((_ to_bv 4) x) #x3))",
    "(assert (= ((_ to_bv 2) 9) #b01))", "(assert ((as const (Array Int Int)) true))", "(assert (= ((as const Int) 1) 1))", "(assert (as x Bool))",
    "(declare-fun x () Int)(assert (as x Bool))", "(assert (and))", "(assert (or))", "(assert (and true))", "(assert (not))", "(assert (not true false))",
    "(assert (=> true))", "(assert (=> true false true))", "(assert (= 1 1 1))", "(assert (= 1))", "(assert (< 1 2 3))", "(assert (- 1 2 3))", "(assert (> (-) 0))",
    "(assert (> (+) 0))", "(assert (> (+ 1) 0))", "(assert (+ true))", "(assert (bvand true))", "(assert (= (bvadd) #b1))", "(assert (= (bvadd #b1 #b10) #b1))",
    "(assert (= (concat #b1) #b1))", "(assert (= (concat #b1 #b0 #b1) #b101))", "(assert (= (str.++ \"a\") \"a\"))", "(assert (distinct))", "(assert (distinct 1))",
    "(assert (ite true 1 2))", "(assert (> (ite true 1 2.5) 0))", "(assert (= 1 1.0))", "(assert (= (+ 1 1.5) 2.5))", "(assert (> (/ 1 0) 0))", "(assert (> (/ 1 2 3) 0))",
    "(assert (> (/ true 2) 0.2))", "(assert (> (/ #b11 2) 1.0))", "(assert (> (/ \"5\" \"2\") 2.0))", "(assert (> (/ a b) 2.0))", "(assert (> (pow 2 3) 7.0))", "(assert (> (pow 2 x) 7.0))",
    "(declare-fun f (Int) Int)(assert (= (f) (f)))", "(declare-fun f (Int) Int)(assert (= (f 1 2) 1))", "(declare-fun f (Int) Int)(assert (= (f true) 1))",
    "(declare-fun f (Int) Int)(assert (= f f))", "(declare-fun x () Int)(assert (x 1))", "(declare-fun x () Int)(declare-fun x () Bool)", "(declare-fun x () Int)(declare-fun x () Int)",
    "(declare-fun || () Int)", "(define-fun f ((x Int)) Int (+ x 1))(assert (= (f) 1))", "(define-fun f ((x Int)) Int (+ x 1))(assert (= (f 1 2) 1))",
    "(define-fun f ((x Int)) Int (+ x 1))(assert (= f 1))", "(set-logic)", "(set-logic A B)", "(set-info :a)", "(set-info :a b c)", "(set-option :a (b))", "(get-info)",
    "(echo)", "(echo \"a\" \"b\")", "(get-value)", "(get-value ())", "(get-value (1 2", "(get-value x)", "(check-sat-assuming (p))", "(exit 1)", "(", ")", "()", "", "x", "(assert ())",
    "(assert (()))", "(assert ((and true) true))", "(assert (let ((f (_ extract 0 0))) (= (f #b1) #b1)))", "(assert (5 x))", "(assert (\"s\" x))", "(assert (true))",
    "(assert |a\\|b|)", "(assert |a\\xb|)", "(assert \"abc\")", "(assert \"abc)", "(assert |abc)", "(assert x) ; trailing", "(assert true);c\n(check-sat)", "(assert true)(check-sat",
    "(declare-fun x () (_ BitVec 0))", "(declare-fun x () (_ BitVec a))", "(declare-fun x () (_ FloatingPoint 8 24))", "(declare-fun x () (Array Int))",
    "(declare-fun x () (Array Int Int Int))", "(declare-fun x () (Int))", "(declare-fun x (", "(maximize x)", "(assert-soft true)",
]


# ---------------------------------------------------------------------- stateful command sequences
# A tiny pool of identifiers reused for everything (declarations inside push/pop levels, 0-ary and
# unary definitions, let and quantifier binders), so that the per-name binding stacks of the reader
# get deep and every transition declare / pop / re-declare / define / use is taken.  The sequences
# are LEGAL under SMT-LIB scoping (a name is declared or defined only when it is not visible; only
# visible names are used): the strict reference reader decides what they mean.
ST_SORT = {"c": INT, "y": INT, "p": BOOL, "d": INT}          # d is always a unary Int function


class StatefulGen(object):
    def __init__(self, rnd):
        self.r = rnd

    def visible(self):
        out = {}
        for lvl in self.levels:
            out.update(lvl)
        return out

    def int_term(self, depth=2, local=()):
        r, vis = self.r, self.visible()
        leaves = [n for n in ("c", "y") if n in vis or n in local] + [str(r.randint(0, 5))]
        if depth <= 0:
            return r.choice(leaves)
        k = r.random()
        if k < 0.25:
            return r.choice(leaves)
        if k < 0.5:
            return "(+ %s %s)" % (self.int_term(depth - 1, local), self.int_term(depth - 1, local))
        if k < 0.6 and "d" in vis:
            return "(d %s)" % self.int_term(depth - 1, local)
        if k < 0.75:
            v = r.choice(["c", "y", "d"])            # a let variable named like a global
            return "(let ((%s %s)) %s)" % (v, self.int_term(depth - 1, local), self.int_term(depth - 1, tuple(local) + ((v,) if v != "d" else ())))
        if k < 0.85:
            return "(ite %s %s %s)" % (self.bool_term(depth - 1, local), self.int_term(depth - 1, local), self.int_term(depth - 1, local))
        return "(* 2 %s)" % self.int_term(depth - 1, local)

    def bool_term(self, depth=2, local=()):
        r, vis = self.r, self.visible()
        if depth <= 0 or r.random() < 0.2:
            return "p" if "p" in vis and r.random() < 0.6 else r.choice(["true", "false"])
        k = r.random()
        if k < 0.45:
            return "(%s %s %s)" % (r.choice(["=", "<", "<=", ">"]), self.int_term(depth - 1, local), self.int_term(depth - 1, local))
        if k < 0.6:
            return "(and %s %s)" % (self.bool_term(depth - 1, local), self.bool_term(depth - 1, local))
        if k < 0.7:
            return "(not %s)" % self.bool_term(depth - 1, local)
        if k < 0.85:
            v = r.choice(["c", "y"])                 # a quantified variable named like a global
            return "(%s ((%s Int)) %s)" % (r.choice(["forall", "exists"]), v, self.bool_term(depth - 1, tuple(local) + (v,)))
        return "(=> %s %s)" % (self.bool_term(depth - 1, local), self.bool_term(depth - 1, local))

    def use(self):
        r = self.r
        if r.random() < 0.8:
            return "(assert %s)" % self.bool_term(2)
        return "(get-value (%s))" % self.int_term(1)

    def introduce(self, name, how):
        """declare or define `name` in the current level; returns the command text"""
        r = self.r
        top = self.levels[-1]
        if name == "d":
            if how == "declare":
                top[name] = "fun"
                return "(declare-fun d (Int) Int)"
            par = r.choice(["c", "y", "x"])           # a parameter named like a global
            body = self.int_term(1, (par,))
            top[name] = "fun"
            return "(define-fun d ((%s Int)) Int %s)" % (par, body)
        s = ST_SORT[name]
        if how == "declare":
            top[name] = "const"
            return r.choice(["(declare-const %s %s)", "(declare-fun %s () %s)"]) % (name, s)
        body = self.bool_term(1) if s == BOOL else self.int_term(1)
        top[name] = "const"
        return "(define-fun %s () %s %s)" % (name, s, body)

    def script(self, maxlen=12):
        r = self.r
        self.levels = [{}]
        out = []
        n = r.randint(5, maxlen)
        while len(out) < n:
            vis = self.visible()
            k = r.random()
            free = [x for x in ST_SORT if x not in vis]
            if k < 0.16 and len(self.levels) < 4:
                m = r.choice([1, 1, 2])
                out.append("(push %d)" % m if r.random() < 0.8 or m > 1 else "(push)")
                self.levels += [{} for _ in range(m)]
            elif k < 0.34 and len(self.levels) > 1:
                m = r.randint(1, len(self.levels) - 1)
                out.append("(pop %d)" % m)
                del self.levels[-m:]
            elif k < 0.62 and free:
                out.append(self.introduce(r.choice(free), r.choice(["declare", "declare", "define"])))
            elif k < 0.72 and free:
                out.append(self.introduce(r.choice(free), "define"))
            else:
                out.append(self.use())
        out.append(self.use())
        return " ".join(out)


def stateful_directed(rnd):
    """The transitions named in DESIGN: (tag, text)."""
    r = rnd
    a, b = r.sample([1, 2, 3, 5, 7], 2)
    out = []
    decl = lambda n: "(declare-const %s Int)" % n
    lvl = lambda n: "(push 1)%s(assert (> %s %d))(pop 1)" % (decl(n), n, a)
    use = "(declare-const y Int)(assert (= y (+ c 1)))(assert (let ((y c)) (> y %d)))(get-value (c))" % a
    for depth in (1, 2, 3):
        out.append(("declare-pop-x%d-define-use" % depth, lvl("c") * depth + "(define-fun c () Int %d)" % b + use))
        out.append(("declare-pop-x%d-define-unary-use" % depth,
                    "".join("(push 1)(declare-fun d (Int) Int)(assert (> (d %d) 0))(pop 1)" % a for _ in range(depth))
                    + "(define-fun d ((c Int)) Int (+ c %d))(declare-const y Int)(assert (= y (d %d)))" % (b, a)))
        out.append(("declare-pop-x%d-redeclare-use" % depth, lvl("c") * depth + decl("c") + "(assert (> c %d))" % b))
    out.append(("declare-two-levels-pop2-define-use",
                "(push 1)" + decl("c") + "(push 1)(declare-fun d (Int) Int)(assert (> (d c) 0))(pop 2)"
                "(define-fun c () Int %d)(define-fun d ((y Int)) Int (* y c))(assert (= (d %d) %d))" % (a, b, a * b)))
    out.append(("push2-declare-pop2-twice-define-use",
                "(push 2)" + decl("c") + "(pop 2)(push 2)" + decl("c") + "(pop 1)(pop 1)(define-fun c () Int %d)(assert (= c %d))" % (a, a)))
    out.append(("define-push-declare-other-pop-use",
                "(define-fun c () Int %d)(push 1)(declare-const y Int)(assert (= y c))(pop 1)(assert (= c %d))" % (a, a)))
    out.append(("define-in-level-pop-declare-use",
                "(push 1)(define-fun c () Int %d)(assert (= c %d))(pop 1)" % (a, a) + decl("c") + "(assert (= c %d))" % b))
    out.append(("define-in-level-pop-x2-declare-use",
                ("(push 1)(define-fun c () Int %d)(pop 1)" % a) * 2 + decl("c") + "(assert (= c %d))" % b))
    out.append(("define-body-mentions-later-redeclared",
                "(push 1)" + decl("c") + "(define-fun d ((y Int)) Int (+ y c))(assert (= (d 1) %d))(pop 1)" % a
                + "(define-fun c () Int %d)(define-fun d ((y Int)) Int (* y c))(assert (= (d 2) %d))" % (b, 2 * b)))
    out.append(("declare-pop-define-pop-define-use",
                lvl("c") + "(push 1)(define-fun c () Int %d)(pop 1)" % a + lvl("c") + "(define-fun c () Int %d)(assert (= c %d))" % (b, b)))
    out.append(("define-sort-after-popped-declarations",
                "(push 1)(declare-sort S 0)(declare-const c S)(pop 1)(push 1)(declare-sort S 0)(pop 1)"
                "(define-sort S () Int)(declare-const c S)(assert (> c %d))" % a))
    out.append(("binders-over-stale-names",
                lvl("c") * 2 + "(define-fun c () Int %d)(assert (forall ((c Int)) (exists ((y Int)) (= y (+ c 1)))))"
                "(assert (let ((c (+ c 1))) (= c %d)))" % (a, a + 1)))
    return out
