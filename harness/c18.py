"""C18 - optimisation returns the true optimum and restores the solver.

Proof: coq/props/C18.v (models/Optimizer.v, proofs/Optimizer_proofs.v).
Correspondence (trace based): the real SUAOptimizerMixin / IncrementalOptimizerMixin of the
repository under test run over a brute-force IncrementalTrackingSolver defined here; every
push / pop / add_assertion / solve (with the full query and the answer) and the final result are
recorded, the recorded oracle answers are given to the Coq model as its `solve`, and the model's
trace, final stack and result are compared inside Coq (vm_compute).
Property-level oracle (independent of the model): optimum / lexicographic optimum / Pareto
front by enumeration of the finite domain with the evaluator below; stack before = after.
Three input families: GENERAL (random small systems), CONST (MinMax/MaxMin lists with literal
constants at every position), BOX (one variable of any magnitude over an interval-set solver,
with a budget on solver calls: an overrun is reported with the call trace), ALIAS (goal lists with
equal-looking but distinct goals, also built from scripts; keys of the boxed mapping by identity).
"""
import itertools
import json
import os
import random
import traceback

from . import lib

TRUSTED = [
    "Coq 8.16.1 kernel; vm_compute only to evaluate the model on recorded traces and for the closed Examples of the Witness module",
    "oracle hypotheses of Section Optimizer (Variable solve): solve_sound (an answer `Some m` satisfies every constraint of the query) and solve_complete (an answer `None` means no model satisfies the query); the brute-force solver of the harness satisfies both by construction",
    "hypotheses on the objective values: tval_range (a BV objective term of width w has an unsigned value in [0, 2^w)), width >= 1, MaxSMT goals have an integer term (integer weights)",
    "hand model models/Optimizer.v of optimizer.py (OptSearchInterval, _optimize, boxed/lexicographic/pareto drivers, SUA and incremental mixins) over IncrementalTrackingSolver's stack, tied by the trace correspondence of this run (counts in the evidence)",
    "harness evaluator of finite-domain formulas (Bool / range-bounded Int / small BV) used by the brute-force solver and by the enumeration oracle",
    "harness interval-set solver for one-variable box problems (Boolean combinations of signed/unsigned comparisons with constants, any magnitude), cross-checked against the evaluator on small domains in every run",
]
ASSUMPTIONS = [
    "objectives: Int, signed/unsigned BV terms, MaxSMT with integer weights, MinMax/MaxMin; bisection over Real objectives is not claimed",
    "termination is proved for every oracle once an optimum is attained (exists N, every fuel >= N); Pareto termination additionally assumes the fuel suffices (finite front), stated in the theorem",
    "Solver.solve returning unknown / raising is not modelled; strategies other than 'linear'/'binary' raise and are not modelled",
    "goal lists of lexicographic/pareto are non-empty (the code raises UnboundLocalError / IndexError otherwise)",
]
RULE = ("GENERAL: systems of <=3 variables out of Int (explicit bounds asserted), BV width 2-3, Bool; 1-4 random assertions, optional user push levels; "
        "objectives Int / BV signed+unsigned / MaxSMT integer weights / MinMax / MaxMin (term lists and Ite branches also draw literal constants: 0, 1, -1, min/max signed, max unsigned, mid range); "
        "drivers single, boxed, lexicographic, pareto x linear, binary x SUA, incremental; the solver enumerates assignments in a per-case random order. "
        "CONST: MinMax/MaxMin lists of length 2..6 with constants at every pair of positions, every single position and random triples, symbols elsewhere, BV signed/unsigned and Int, all drivers. "
        "BOX: one variable optimised under bounds and holes over the interval-set reference solver (no enumeration): BV widths 8, 54, 64, 65, 128 signed and unsigned, "
        "Int around 0, +-2**53, 2**53-7, +-2**64, +-10**30; binary search at any distance with a budget of 2*bits+16 solver calls per goal, linear search over <=10 feasible values; single, boxed, lexicographic, one-goal pareto. "
        "ALIAS: multi-goal calls (boxed, lexicographic, pareto) with equal-looking but distinct goals: the same term in two goal objects, other direction / signedness, one object passed twice, "
        "MaxSMT goals over one clause set with other multiplicities / order / weights / one more clause / equal copy, weights as int, Int or Real constants and real_weights flag, built through the API and from scripts (assert-soft, one :id per goal, interleaved); single goals with repeated soft clauses; the boxed mapping must have exactly the passed goal objects as keys. "
        "distinct = distinct (system, goals, driver, strategy, mode, order/policy)")

SOLVE_BUDGET = 400          # solve calls per optimisation: a diverging loop is reported, not waited for
LEX_KEY = "lexicographic_optimize:success:setup-level-not-popped"
MIXED_KEY = "goal-logic:mixed-theory-term:KeyError"


# ----------------------------------------------------------------------------
# formula specs (JSON-able) -> FNode, and the harness evaluator over FNodes
# ----------------------------------------------------------------------------

def build(spec, env, vars_):
    mgr = env.formula_manager
    k = spec[0]
    if k == "v":
        return vars_[spec[1]]
    if k == "i":
        return mgr.Int(spec[1])
    if k == "bv":
        return mgr.BV(spec[1], spec[2])
    if k == "b":
        return mgr.Bool(spec[1])
    a = [build(s, env, vars_) for s in spec[1:]]
    table = {"+": mgr.Plus, "-": mgr.Minus, "*": mgr.Times, "le": mgr.LE, "lt": mgr.LT, "ge": mgr.GE, "gt": mgr.GT,
             "eq": mgr.Equals, "and": mgr.And, "or": mgr.Or, "not": mgr.Not, "ite": mgr.Ite, "iff": mgr.Iff,
             "bvadd": mgr.BVAdd, "bvsub": mgr.BVSub, "bvmul": mgr.BVMul, "bvxor": mgr.BVXor, "bvand": mgr.BVAnd,
             "bvor": mgr.BVOr, "bvneg": mgr.BVNeg, "bvnot": mgr.BVNot, "ult": mgr.BVULT, "ule": mgr.BVULE,
             "slt": mgr.BVSLT, "sle": mgr.BVSLE}
    return table[k](*a)


def _signed(v, w):
    return v - (1 << w) if v >= (1 << (w - 1)) else v


def ev(f, a, op):
    """Value of FNode f under assignment a (symbol -> python value; BV unsigned ints)."""
    t = f.node_type()
    if t == op.SYMBOL:
        return a[f]
    if t in (op.BOOL_CONSTANT, op.INT_CONSTANT, op.REAL_CONSTANT):
        return f.constant_value()
    if t == op.BV_CONSTANT:
        return f.bv_unsigned_value()
    args = f.args()
    if t == op.AND:
        return all(ev(x, a, op) for x in args)
    if t == op.OR:
        return any(ev(x, a, op) for x in args)
    if t == op.NOT:
        return not ev(args[0], a, op)
    if t == op.IFF:
        return bool(ev(args[0], a, op)) == bool(ev(args[1], a, op))
    if t == op.IMPLIES:
        return (not ev(args[0], a, op)) or ev(args[1], a, op)
    if t == op.ITE:
        return ev(args[1], a, op) if ev(args[0], a, op) else ev(args[2], a, op)
    v = [ev(x, a, op) for x in args]
    if t == op.PLUS:
        return sum(v)
    if t == op.MINUS:
        return v[0] - v[1]
    if t == op.TIMES:
        r = 1
        for x in v:
            r *= x
        return r
    if t == op.LE:
        return v[0] <= v[1]
    if t == op.LT:
        return v[0] < v[1]
    if t == op.EQUALS:
        return v[0] == v[1]
    w = args[0].bv_width()
    m = (1 << w) - 1
    if t == op.BV_ADD:
        return (v[0] + v[1]) & m
    if t == op.BV_SUB:
        return (v[0] - v[1]) & m
    if t == op.BV_MUL:
        return (v[0] * v[1]) & m
    if t == op.BV_XOR:
        return v[0] ^ v[1]
    if t == op.BV_AND:
        return v[0] & v[1]
    if t == op.BV_OR:
        return v[0] | v[1]
    if t == op.BV_NEG:
        return (-v[0]) & m
    if t == op.BV_NOT:
        return (~v[0]) & m
    if t == op.BV_ULT:
        return v[0] < v[1]
    if t == op.BV_ULE:
        return v[0] <= v[1]
    if t == op.BV_SLT:
        return _signed(v[0], w) < _signed(v[1], w)
    if t == op.BV_SLE:
        return _signed(v[0], w) <= _signed(v[1], w)
    raise ValueError("harness evaluator: unsupported node %s" % f)


class DivergenceError(Exception):
    pass


# ----------------------------------------------------------------------------
# interval sets: the reference solver for one-variable box problems of any magnitude
# ----------------------------------------------------------------------------
NEG, POS = float("-inf"), float("inf")     # sentinels only: never mixed into arithmetic on values


def iset_norm(ivs):
    """sorted, disjoint, non-adjacent list of inclusive (lo, hi)"""
    out = []
    for lo, hi in sorted((a, b) for a, b in ivs if a <= b):
        if out and (out[-1][1] == POS or lo <= out[-1][1] + 1):
            if hi > out[-1][1]:
                out[-1] = (out[-1][0], hi)
        else:
            out.append((lo, hi))
    return out


def iset_and(a, b):
    out = []
    for lo, hi in a:
        for lo2, hi2 in b:
            l, h = max(lo, lo2), min(hi, hi2)
            if l <= h:
                out.append((l, h))
    return iset_norm(out)


def iset_not(a, uni):
    out, cur = [], uni[0]
    for lo, hi in a:
        if lo > cur:
            out.append((cur, lo - 1))
        if hi == POS:
            return iset_norm(out)
        cur = hi + 1
    if cur <= uni[1]:
        out.append((cur, uni[1]))
    return iset_norm(out)


def iset_of(f, x, op):
    """Set of the values of the single variable x (BV: unsigned value) that satisfy f; f is a
    Boolean combination of comparisons between x and constants. O(size of f)."""
    ty = x.symbol_type()
    w = ty.width if ty.is_bv_type() else None
    uni = (0, (1 << w) - 1) if w else (NEG, POS)
    t = f.node_type()
    if t == op.BOOL_CONSTANT:
        return [uni] if f.constant_value() else []
    if t == op.AND:
        r = [uni]
        for g in f.args():
            r = iset_and(r, iset_of(g, x, op))
        return r
    if t == op.OR:
        r = []
        for g in f.args():
            r = r + iset_of(g, x, op)
        return iset_norm(r)
    if t == op.NOT:
        return iset_not(iset_of(f.arg(0), x, op), uni)
    a, b = f.args()
    signed = t in (op.BV_SLT, op.BV_SLE)
    strict = t in (op.LT, op.BV_ULT, op.BV_SLT)
    if t not in (op.LT, op.LE, op.EQUALS, op.BV_ULT, op.BV_ULE, op.BV_SLT, op.BV_SLE):
        raise ValueError("interval solver: unsupported formula %s" % f)

    def cv(c):
        if c.is_bv_constant():
            return c.bv_signed_value() if signed else c.bv_unsigned_value()
        return c.constant_value()
    if a is x and b.is_constant():
        k = cv(b)
        lo, hi = (k, k) if t == op.EQUALS else (NEG, k - 1 if strict else k)
    elif b is x and a.is_constant():
        k = cv(a)
        lo, hi = (k, k) if t == op.EQUALS else (k + 1 if strict else k, POS)
    else:
        raise ValueError("interval solver: unsupported atom %s" % f)
    if not signed:
        return iset_and([(lo, hi)], [uni])
    h, m = 1 << (w - 1), 1 << w
    lo, hi = max(lo, -h), min(hi, h - 1)
    neg = (max(lo, -h) + m, min(hi, -1) + m)
    pos = (max(lo, 0), min(hi, h - 1))
    return iset_norm([neg, pos])


def iset_pick(sset, policy, salt):
    """deterministic element of a non-empty set"""
    if policy == "alt":
        policy = ("min", "max", "mid")[salt % 3]
    if policy == "min":
        return sset[0][0] if sset[0][0] != NEG else sset[0][1]
    if policy == "max":
        return sset[-1][1] if sset[-1][1] != POS else sset[-1][0]
    lo, hi = sset[len(sset) // 2]
    if lo == NEG:
        return hi
    if hi == POS:
        return lo
    return (lo + hi) // 2


_CLASSES = {}


def optimizer_classes():
    """BruteSolver + the two optimizer classes (built lazily: pysmt must be importable)."""
    if _CLASSES:
        return _CLASSES
    import pysmt.operators as op
    from pysmt.logics import QF_AUFBVLIRA
    from pysmt.optimization.optimizer import IncrementalOptimizerMixin, SUAOptimizerMixin
    from pysmt.solvers.eager import EagerModel
    from pysmt.solvers.options import SolverOptions
    from pysmt.solvers.solver import IncrementalTrackingSolver

    class BruteSolver(IncrementalTrackingSolver):
        """Exhaustive solver over finite domains; the answer is the first satisfying assignment
        in `order`. sound and complete for the query (assertion stack + assumptions)."""
        LOGICS = [QF_AUFBVLIRA]
        OptionsClass = SolverOptions

        def __init__(self, environment, logic, symbols=None, domains=None, order=None, **options):
            IncrementalTrackingSolver.__init__(self, environment, logic, **options)
            self.symbols = symbols
            mgr = environment.formula_manager
            self.assignments = []
            for vals in itertools.product(*domains):
                self.assignments.append(dict(zip(symbols, vals)))
            self.order = order if order is not None else list(range(len(self.assignments)))
            self.cache = {}
            self.events = []
            self.nsolve = 0
            self._model = None
            self._mgr = mgr

        def truth(self, f):
            r = self.cache.get(f)
            if r is None:
                r = [bool(ev(f, a, op)) for a in self.assignments]
                self.cache[f] = r
            return r

        def _add_assertion(self, formula, named=None):
            self.events.append(("add", formula))
            return formula

        def _push(self, levels=1):
            for _ in range(levels):
                self.events.append(("push",))

        def _pop(self, levels=1):
            for _ in range(levels):
                self.events.append(("pop",))

        def _reset_assertions(self):
            self.events.append(("reset",))

        def _exit(self):
            pass

        def fnode_model(self, idx):
            a = self.assignments[idx]
            d = {}
            for s, v in a.items():
                ty = s.symbol_type()
                if ty.is_bool_type():
                    d[s] = self._mgr.Bool(v)
                elif ty.is_int_type():
                    d[s] = self._mgr.Int(v)
                else:
                    d[s] = self._mgr.BV(v, ty.width)
            return EagerModel(d, self.environment)

        def _solve(self, assumptions=None):
            self.nsolve += 1
            if self.nsolve > SOLVE_BUDGET:
                raise DivergenceError("more than %d solve calls in one optimisation" % SOLVE_BUDGET)
            assumptions = list(assumptions) if assumptions is not None else []
            fs = list(self._assertion_stack) + assumptions
            tr = [self.truth(f) for f in fs]
            found = None
            for i in self.order:
                if all(t[i] for t in tr):
                    found = i
                    break
            self._model = self.fnode_model(found) if found is not None else None
            self.events.append(("solve", list(self._assertion_stack), assumptions, found))
            return found is not None

        def get_model(self):
            return self._model

        def get_value(self, formula):
            return self._model.get_value(formula)

        def term_values(self, found, terms):
            return [ev(t, self.assignments[found], op) for t in terms]

    class IntervalSolver(BruteSolver):
        """Sound and complete solver for Boolean combinations of comparisons between ONE Int / BV
        variable and constants (signed and unsigned), by interval-set algebra: any magnitude,
        O(#constraints) per call. `budget` = admissible number of solve calls."""

        def __init__(self, environment, logic, symbol=None, policy="mid", budget=SOLVE_BUDGET, **options):
            BruteSolver.__init__(self, environment, logic, symbols=[symbol], domains=[[]], **options)
            self.x = symbol
            self.policy = policy
            self.budget = budget

        def feasible(self, fs):
            ty = self.x.symbol_type()
            r = [(0, (1 << ty.width) - 1)] if ty.is_bv_type() else [(NEG, POS)]
            for f in fs:
                r = iset_and(r, iset_of(f, self.x, op))
            return r

        def fnode_model(self, v):
            ty = self.x.symbol_type()
            c = self._mgr.BV(v, ty.width) if ty.is_bv_type() else self._mgr.Int(v)
            return EagerModel({self.x: c}, self.environment)

        def _solve(self, assumptions=None):
            self.nsolve += 1
            if self.nsolve > self.budget:
                tail = []
                for e in self.events[-12:]:
                    if e[0] == "solve":
                        tail.append("solve(%s) -> %s" % (", ".join(str(f) for f in (e[1][self.nbase:] + e[2])), e[3]))
                    else:
                        tail.append(" ".join(str(z) for z in e))
                raise DivergenceError("more than %d solve calls (budget of this case: 2*bits+16 per goal for binary search, "
                                      "#feasible values+3 for linear); last calls: %s" % (self.budget, " | ".join(tail)))
            assumptions = list(assumptions) if assumptions is not None else []
            sset = self.feasible(list(self._assertion_stack) + assumptions)
            # the answer is a function of the query (of its feasible set) only
            salt = (len(sset) + sum(int(v) for iv in sset for v in iv if v not in (NEG, POS))) if sset else 0
            found = iset_pick(sset, self.policy, salt) if sset else None
            self._model = self.fnode_model(found) if found is not None else None
            self.events.append(("solve", list(self._assertion_stack), assumptions, found))
            return found is not None

        def term_values(self, found, terms):
            assert all(t is self.x for t in terms)
            return [found for _ in terms]

    class BruteSUAOptimizer(BruteSolver, SUAOptimizerMixin):
        pass

    class IntervalSUAOptimizer(IntervalSolver, SUAOptimizerMixin):
        pass

    class IntervalIncrementalOptimizer(IntervalSolver, IncrementalOptimizerMixin):
        pass

    class BruteIncrementalOptimizer(BruteSolver, IncrementalOptimizerMixin):
        pass

    _CLASSES.update({"solver": BruteSolver, "sua": BruteSUAOptimizer, "incr": BruteIncrementalOptimizer, "op": op,
                     "isua": IntervalSUAOptimizer, "iincr": IntervalIncrementalOptimizer})
    return _CLASSES


# ----------------------------------------------------------------------------
# case generation (specs)
# ----------------------------------------------------------------------------

def gen_vars(rnd):
    shape = rnd.choice(["ii", "ii", "iib", "bb", "bb", "bvb", "ib", "ibv", "i", "bv", "iibool", "ibvb"])
    vs = {}
    if shape in ("ii", "iib", "iibool"):
        names = [("x", "int"), ("y", "int")] + ([("p", "bool")] if shape != "ii" else [])
    elif shape == "bb":
        names = [("a", "bv"), ("b", "bv")]
    elif shape == "bvb":
        names = [("a", "bv"), ("b", "bv"), ("p", "bool")]
    elif shape == "ib":
        names = [("x", "int"), ("p", "bool"), ("q", "bool")]
    elif shape == "ibv":
        names = [("x", "int"), ("a", "bv")]
    elif shape == "ibvb":
        names = [("x", "int"), ("a", "bv"), ("p", "bool")]
    elif shape == "i":
        names = [("x", "int")]
    else:
        names = [("a", "bv")]
    w = rnd.choice([2, 3, 3])
    for n, k in names:
        if k == "int":
            lo = rnd.randint(-5, 2)
            vs[n] = ["int", lo, lo + rnd.randint(0, 6)]
        elif k == "bv":
            vs[n] = ["bv", w]
        else:
            vs[n] = ["bool"]
    return vs


def _names(vs, kind):
    return [n for n, d in sorted(vs.items()) if d[0] == kind]


def gen_int_term(rnd, vs, depth=0):
    ints = _names(vs, "int")
    bools = _names(vs, "bool")
    r = rnd.random()
    if not ints:
        return None
    x = ["v", rnd.choice(ints)]
    if r < 0.3 or depth > 1:
        return x
    y = ["v", rnd.choice(ints)]
    if r < 0.45:
        return ["+", x, y] if y != x else ["+", x, ["i", rnd.randint(-3, 3)]]
    if r < 0.6:
        return ["-", ["i", rnd.randint(-2, 2)], x] if y == x else ["-", x, y]
    if r < 0.75:
        return ["+", ["*", ["i", rnd.choice([-2, -1, 2, 3])], x], y]
    if r < 0.9 and bools:
        return ["ite", ["v", rnd.choice(bools)], x, ["-", ["i", rnd.randint(-2, 2)], y]]
    if r < 0.95:
        return ["ite", ["le", x, ["i", rnd.randint(-2, 2)]], ["-", ["i", 0], x], y]
    return ["ite", ["le", x, ["i", rnd.randint(-2, 2)]], ["i", rnd.choice(INT_CONSTS)], y]


def gen_bv_term(rnd, vs):
    bvs = _names(vs, "bv")
    if not bvs:
        return None
    w = vs[bvs[0]][1]
    a = ["v", rnd.choice(bvs)]
    b = ["v", rnd.choice(bvs)]
    r = rnd.random()
    if r < 0.3:
        return a
    if r < 0.45:
        return ["bvadd", a, b if b != a else ["bv", rnd.randrange(1 << w), w]]
    if r < 0.6:
        return ["bvxor", a, ["bv", rnd.randrange(1 << w), w]]
    if r < 0.7:
        return ["bvneg", a]
    if r < 0.8:
        return ["bvmul", a, ["bv", rnd.randrange(1 << w), w]] if a == b else ["bvsub", a, b]
    if r < 0.9:
        return ["bvnot", a]
    bools = _names(vs, "bool")
    if r < 0.95 and bools:
        return ["ite", ["v", rnd.choice(bools)], a, ["bvneg", b]]
    if r >= 0.95:
        return ["ite", ["ult", a, ["bv", rnd.randrange(1 << w), w]], ["bv", rnd.choice(bv_consts(w)), w], b]
    return ["bvand", a, ["bvnot", b]] if a != b else a


def gen_atom(rnd, vs):
    ints, bvs, bools = _names(vs, "int"), _names(vs, "bv"), _names(vs, "bool")
    kinds = (["int"] * 3 if ints else []) + (["bv"] * 3 if bvs else []) + (["bool"] if bools else [])
    k = rnd.choice(kinds)
    if k == "int":
        t = gen_int_term(rnd, vs, 1)
        return [rnd.choice(["le", "lt", "ge", "gt", "eq", "le", "ge"]), t, ["i", rnd.randint(-4, 6)]]
    if k == "bv":
        w = vs[bvs[0]][1]
        t = gen_bv_term(rnd, vs)
        c = ["bv", rnd.randrange(1 << w), w]
        o = rnd.choice(["ult", "ule", "slt", "sle", "eq"])
        return [o, t, c] if rnd.random() < 0.6 else [o, c, t]
    return ["v", rnd.choice(bools)]


def gen_assertion(rnd, vs):
    r = rnd.random()
    a = gen_atom(rnd, vs)
    if r < 0.45:
        return a
    b = gen_atom(rnd, vs)
    if r < 0.7:
        return ["or", a, b]
    if r < 0.8:
        return ["not", a]
    if r < 0.9:
        return ["or", ["not", a], b]
    return ["iff", a, b]


INT_CONSTS = [0, 1, -1, 3, -4, 6]


def bv_consts(w):
    """0, 1, -1 = max unsigned, min signed, max signed, their neighbours, mid range"""
    m, h = 1 << w, 1 << (w - 1)
    return sorted(set([0, 1, m - 1, h, h - 1, (h + 1) % m, m - 2, h >> 1, (h + (h >> 1)) % m]))


def with_constants(rnd, ts, consts, p):
    """replace terms of the list by literal constants with probability p (one term stays)"""
    keep = rnd.randrange(len(ts))
    return [t if (i == keep or rnd.random() >= p) else rnd.choice(consts) for i, t in enumerate(ts)]


def gen_goal(rnd, vs, allow_maxsmt=True):
    ints, bvs = _names(vs, "int"), _names(vs, "bv")
    kinds = []
    if ints:
        kinds += ["int"] * 3 + ["minmax_int"]
    if bvs:
        kinds += ["bvu"] * 2 + ["bvs"] * 3 + ["minmax_bv"]
    if allow_maxsmt and not bvs:
        kinds += ["maxsmt"] * 2
    k = rnd.choice(kinds)
    d = rnd.choice(["min", "max"])
    if k == "int":
        return [d, gen_int_term(rnd, vs), rnd.random() < 0.1]
    if k == "bvu":
        return [d, gen_bv_term(rnd, vs), False]
    if k == "bvs":
        return [d, gen_bv_term(rnd, vs), True]
    if k == "minmax_int":
        ts = [gen_int_term(rnd, vs) for _ in range(rnd.choice([2, 2, 3, 4]))]
        ts = with_constants(rnd, ts, [["i", c] for c in INT_CONSTS], rnd.choice([0, 0.3, 0.6]))
        return [rnd.choice(["minmax", "maxmin"]), ts, False]
    if k == "minmax_bv":
        ts = [gen_bv_term(rnd, vs) for _ in range(rnd.choice([2, 3, 4]))]
        w = vs[bvs[0]][1]
        ts = with_constants(rnd, ts, [["bv", c, w] for c in bv_consts(w)], rnd.choice([0, 0.3, 0.6]))
        return [rnd.choice(["minmax", "maxmin"]), ts, rnd.random() < 0.5]
    soft = [[gen_assertion(rnd, vs), rnd.randint(1, 5)] for _ in range(rnd.choice([1, 2, 3, 4]))]
    return ["maxsmt", soft]


def gen_case(rnd, driver, strategy, mode):
    vs = gen_vars(rnd)
    n = rnd.choice([0, 1, 1, 2, 2, 3, 4])
    asserts = []
    for name, d in sorted(vs.items()):
        if d[0] == "int":
            asserts.append(["le", ["i", d[1]], ["v", name]])
            asserts.append(["le", ["v", name], ["i", d[2]]])
    asserts += [gen_assertion(rnd, vs) for _ in range(n)]
    if rnd.random() < 0.06:
        asserts.append(["b", False])
    rnd.shuffle(asserts)
    pushes = sorted(rnd.sample(range(len(asserts) + 1), min(len(asserts) + 1, rnd.choice([0, 0, 1, 2]))))
    if driver == "single":
        goals = [gen_goal(rnd, vs)]
    elif driver == "boxed":
        goals = [gen_goal(rnd, vs) for _ in range(rnd.choice([1, 2, 3]))]
    else:
        goals = [gen_goal(rnd, vs, allow_maxsmt=False) for _ in range(rnd.choice([1, 2, 2, 3] if driver == "lex" else [1, 2, 2, 2, 3]))]
    return {"vars": vs, "assertions": asserts, "pushes": pushes, "goals": goals, "driver": driver,
            "strategy": strategy, "mode": mode, "order_seed": rnd.randrange(1 << 30)}


# ----------------------------------------------------------------------------
# running one case on the implementation
# ----------------------------------------------------------------------------

class Built(object):
    pass


def make_goal(gs, env, vars_):
    from pysmt.optimization.goal import MaximizationGoal, MaxMinGoal, MaxSMTGoal, MinimizationGoal, MinMaxGoal
    k = gs[0]
    if k == "min":
        return MinimizationGoal(build(gs[1], env, vars_), gs[2])
    if k == "max":
        return MaximizationGoal(build(gs[1], env, vars_), gs[2])
    if k == "minmax":
        return MinMaxGoal([build(t, env, vars_) for t in gs[1]], gs[2])
    if k == "maxmin":
        return MaxMinGoal([build(t, env, vars_) for t in gs[1]], gs[2])
    real = len(gs) > 2 and bool(gs[2])
    g = MaxSMTGoal(real_weights=real)
    mgr = env.formula_manager
    for i, (c, w) in enumerate(gs[1]):
        # the same weight as a python int, an Int constant or (real goals) a Real constant
        form = (i + len(gs[1])) % 3
        wt = w if form == 0 else (mgr.Real(w) if (real and form == 1) else mgr.Int(w))
        g.add_soft_clause(build(c, env, vars_), wt)
    return g


def resolved_goals(spec):
    """goal specs with ["same", i] (the i-th goal OBJECT passed again) replaced by the i-th spec"""
    return [spec["goals"][g[1]] if g[0] == "same" else g for g in spec["goals"]]


def smt_text(f):
    """SMT-LIB text of an Int/Bool formula spec (for the script-built goals)"""
    k = f[0]
    if k == "v":
        return ("c18_" if f[1] in ("x", "y") else "c18_b_") + f[1]
    if k == "i":
        return str(f[1]) if f[1] >= 0 else "(- %d)" % -f[1]
    if k == "b":
        return "true" if f[1] else "false"
    names = {"le": "<=", "lt": "<", "ge": ">=", "gt": ">", "eq": "=", "iff": "="}
    return "(%s %s)" % (names.get(k, k), " ".join(smt_text(a) for a in f[1:]))


def script_goals(spec, env):
    """The goals as pysmt builds them from a script: one assert-soft per soft clause, one :id per
    MaxSMT goal, the groups interleaved; minimize / maximize for the other goals."""
    from io import StringIO
    from pysmt.smtlib.parser import SmtLibParser
    rnd = random.Random(spec["order_seed"])
    lines = []
    for name, d in sorted(spec["vars"].items()):
        lines.append("(declare-fun %s () %s)" % (smt_text(["v", name]), "Int" if d[0] == "int" else "Bool"))
    for a in spec["assertions"]:
        lines.append("(assert %s)" % smt_text(a))
    queues = []
    for i, g in enumerate(spec["goals"]):
        if g[0] == "maxsmt":
            queues.append(["(assert-soft %s :id goal%d :weight %d)" % (smt_text(c), i, w) if rnd.random() < 0.5 else
                           "(assert-soft %s :weight %d :id goal%d)" % (smt_text(c), w, i) for c, w in g[1]])
        else:
            queues.append(["(%s %s)" % ("minimize" if g[0] == "min" else "maximize", smt_text(g[1]))])
    # first occurrences in goal order, the rest interleaved at random (order inside a goal kept)
    started = 0
    while any(queues):
        cands = [i for i, q in enumerate(queues) if q and i <= started]
        i = rnd.choice(cands)
        lines.append(queues[i].pop(0))
        if i == started:
            started += 1
    text = "\n".join(lines) + "\n"
    script = SmtLibParser(env).get_script(StringIO(text))
    _, goals = script.get_last_formula(env.formula_manager, return_optimizations=True)
    return list(goals), text


def build_case(spec):
    from pysmt.environment import get_env
    from pysmt.logics import QF_AUFBVLIRA
    from pysmt.typing import BOOL, INT, BVType
    cl = optimizer_classes()
    env = get_env()
    mgr = env.formula_manager
    b = Built()
    b.spec = spec
    b.env = env
    b.vars = {}
    if spec.get("solver") == "interval":
        d = spec["vars"]["x"]
        x = mgr.Symbol("c18_big_x", INT) if d[0] == "int" else mgr.Symbol("c18_big_x_w%d" % d[1], BVType(d[1]))
        b.vars["x"] = x
        b.opt = cl["i" + spec["mode"]](env, QF_AUFBVLIRA, symbol=x, policy=spec["policy"], budget=spec["budget"])
        b.assertions = [build(a, env, b.vars) for a in spec["assertions"]]
        for i, a in enumerate(b.assertions):
            for p in spec["pushes"]:
                if p == i:
                    b.opt.push()
            b.opt.add_assertion(a)
        b.opt.nbase = len(b.assertions)
        b.goals = [make_goal(g, env, b.vars) for g in spec["goals"]]
        return b
    symbols, domains = [], []
    for name, d in sorted(spec["vars"].items()):
        if d[0] == "int":
            s = mgr.Symbol("c18_" + name, INT)
            dom = list(range(d[1], d[2] + 1))
        elif d[0] == "bv":
            s = mgr.Symbol("c18_%s_w%d" % (name, d[1]), BVType(d[1]))
            dom = list(range(1 << d[1]))
        else:
            s = mgr.Symbol("c18_b_" + name, BOOL)
            dom = [False, True]
        b.vars[name] = s
        symbols.append(s)
        domains.append(dom)
    n = 1
    for d in domains:
        n *= len(d)
    order = list(range(n))
    random.Random(spec["order_seed"]).shuffle(order)
    b.opt = cl[spec["mode"]](env, QF_AUFBVLIRA, symbols=symbols, domains=domains, order=order)
    b.assertions = [build(a, env, b.vars) for a in spec["assertions"]]
    for i, a in enumerate(b.assertions):
        for p in spec["pushes"]:
            if p == i:
                b.opt.push()
        b.opt.add_assertion(a)
    for p in spec["pushes"]:
        if p == len(b.assertions):
            b.opt.push()
    if spec.get("script"):
        b.goals, b.script_text = script_goals(spec, env)
    else:
        b.goals = []
        for g in spec["goals"]:
            b.goals.append(b.goals[g[1]] if g[0] == "same" else make_goal(g, env, b.vars))
    return b


COVERED = set()
MODELLED = ("OptComparationFunctions", "OptSearchInterval", "OptPareto", "ExternalOptimizerMixin",
            "SUAOptimizerMixin", "IncrementalOptimizerMixin")


def _tracer(frame, event, arg):
    if frame.f_code.co_filename.endswith("optimization/optimizer.py"):
        if event == "line":
            COVERED.add(frame.f_lineno)
        return _tracer
    return None


def modelled_lines():
    """line numbers of the statements inside the modelled classes of optimizer.py"""
    import ast
    src = open(os.path.join(lib.REPO, "pysmt", "optimization", "optimizer.py")).read()
    lines = {}
    for node in ast.parse(src).body:
        if isinstance(node, ast.ClassDef) and node.name in MODELLED:
            for fn in node.body:
                if isinstance(fn, ast.FunctionDef):
                    for st in ast.walk(fn):
                        if isinstance(st, ast.stmt) and not isinstance(st, ast.FunctionDef):
                            if isinstance(st, ast.Expr) and isinstance(st.value, ast.Constant):
                                continue        # docstring
                            lines[st.lineno] = "%s.%s" % (node.name, fn.name)
    return lines


def run_impl(b):
    """Runs the driver of the case on the implementation. Returns dict with result / exception,
    events, stack before and after."""
    import sys
    import warnings
    old = sys.gettrace()
    sys.settrace(_tracer)
    try:
        with warnings.catch_warnings():
            warnings.simplefilter("ignore")
            return _run_impl(b)
    finally:
        sys.settrace(old)


def _run_impl(b):
    spec, opt = b.spec, b.opt
    opt.events = []
    opt.nsolve = 0
    before = (list(opt._assertion_stack), list(opt._backtrack_points))
    out = {"before": before, "exc": None, "result": None}
    try:
        d = spec["driver"]
        if d == "single":
            out["result"] = opt.optimize(b.goals[0], strategy=spec["strategy"])
        elif d == "boxed":
            out["result"] = opt.boxed_optimize(b.goals, strategy=spec["strategy"])
        elif d == "lex":
            out["result"] = opt.lexicographic_optimize(b.goals, strategy=spec["strategy"])
        else:
            out["result"] = list(opt.pareto_optimize(b.goals))
    except Exception as ex:  # reported by the oracle
        out["exc"] = "%s: %s" % (type(ex).__name__, ex)
        out["tb"] = traceback.format_exc()[-1500:]
    out["after"] = (list(opt._assertion_stack), list(opt._backtrack_points))
    out["events"] = list(opt.events)
    return out


# ----------------------------------------------------------------------------
# the property itself, on the implementation (independent of the Coq model)
# ----------------------------------------------------------------------------

def goal_value_fn(b, gspec):
    """objective value (the one being optimised: signed reading for signed BV goals) and
    direction, computed from the goal's *spec* (Max/Min of the component terms directly)."""
    op = optimizer_classes()["op"]
    k = gspec[0]
    if k == "maxsmt":
        cl = [(build(c, b.env, b.vars), w) for c, w in gspec[1]]
        return (lambda a: sum(w for c, w in cl if ev(c, a, op))), True
    signed = gspec[2]
    terms = [build(t, b.env, b.vars) for t in (gspec[1] if k in ("minmax", "maxmin") else [gspec[1]])]
    ty = terms[0].get_type()
    w = ty.width if ty.is_bv_type() else None

    def val(t, a):
        v = ev(t, a, op)
        return _signed(v, w) if (w is not None and signed) else v
    if k == "min":
        return (lambda a: val(terms[0], a)), False
    if k == "max":
        return (lambda a: val(terms[0], a)), True
    if k == "minmax":
        return (lambda a: max(val(t, a) for t in terms)), False
    return (lambda a: min(val(t, a) for t in terms)), True


def model_assignment(b, model):
    a = {}
    for s in b.opt.symbols:
        v = model.get_value(s)
        a[s] = v.bv_unsigned_value() if v.is_bv_constant() else v.constant_value()
    return a


def const_value(b, gspec, fn):
    """python value of the cost constant returned for the goal (signed reading if signed BV)."""
    if fn.is_bv_constant():
        signed = gspec[0] != "maxsmt" and gspec[2]
        return fn.bv_signed_value() if signed else fn.bv_unsigned_value()
    return fn.constant_value()


def check_property(b, out):
    """Returns a list of (key, message) violations of C18 on this run of the implementation."""
    op = optimizer_classes()["op"]
    spec = b.spec
    bad = []
    if out["exc"] is not None:
        return [("exception", "the optimisation raised %s" % out["exc"])]
    feas = [a for a in b.opt.assignments if all(ev(f, a, op) for f in out["before"][0])]
    G = resolved_goals(spec)
    if len(b.goals) != len(G) or any(go.is_maxsmt_goal() and len(go.soft) != len(gs[1]) for go, gs in zip(b.goals, G) if gs[0] == "maxsmt"):
        return [("script-goals", "the script yields goals %s, expected %d goals with %s soft clauses"
                 % ([repr(x) for x in b.goals], len(G), [len(g[1]) for g in G if g[0] == "maxsmt"]))]
    fns = [goal_value_fn(b, g) for g in G]
    res = out["result"]
    d = spec["driver"]

    def check_model(model, what):
        a = model_assignment(b, model)
        if not all(ev(f, a, op) for f in out["before"][0]):
            bad.append(("model", "%s: the returned model does not satisfy the assertions" % what))
        return a

    def better(i, x, y):       # x at least as good as y for goal i
        return x >= y if fns[i][1] else x <= y

    if d in ("single", "boxed"):
        if not feas:
            if res is not None:
                bad.append(("none", "assertions are unsatisfiable but a result was returned"))
        elif res is None:
            bad.append(("none", "assertions are satisfiable but 'no solution' was reported"))
        else:
            items = [res] if d == "single" else [res.get(g) for g in b.goals]
            if d == "boxed":
                want = set(id(g) for g in b.goals)
                have = [id(k) for k in res]
                if len(have) != len(want) or set(have) != want:
                    bad.append(("keys", "boxed: %d distinct goal objects were passed, the returned mapping has %d entries (%d of them are the passed objects): %s"
                                % (len(want), len(have), len(set(have) & want), [repr(k) for k in res])))
            for i, it in enumerate(items):
                if it is None:
                    bad.append(("missing", "boxed: goal %d has no entry" % i))
                    continue
                model, cost = it
                a = check_model(model, "goal %d" % i)
                best = (max if fns[i][1] else min)(fns[i][0](x) for x in feas)
                mv = fns[i][0](a)
                cv = const_value(b, G[i], cost)
                if mv != best:
                    bad.append(("optimum", "goal %d: objective value of the returned model is %s, the optimum is %s" % (i, mv, best)))
                if cv != mv:
                    bad.append(("cost", "goal %d: returned cost %s differs from the objective value %s of the returned model" % (i, cv, mv)))
    elif d == "lex":
        if not feas:
            if res is not None:
                bad.append(("none", "assertions are unsatisfiable but a result was returned"))
        elif res is None:
            bad.append(("none", "assertions are satisfiable but 'no solution' was reported"))
        else:
            model, costs = res
            a = check_model(model, "lexicographic")
            cur = feas
            exp = []
            for i in range(len(fns)):
                best = (max if fns[i][1] else min)(fns[i][0](x) for x in cur)
                exp.append(best)
                cur = [x for x in cur if fns[i][0](x) == best]
            got = [const_value(b, G[i], c) for i, c in enumerate(costs)]
            if got != exp:
                bad.append(("optimum", "lexicographic optimum is %s, returned %s" % (exp, got)))
            if [fns[i][0](a) for i in range(len(fns))] != got:
                bad.append(("cost", "returned costs differ from the objective values of the returned model"))
    else:
        pts = set(tuple(f(x) for f, _ in fns) for x in feas)

        def dominates(p, q):
            return p != q and all(better(i, p[i], q[i]) for i in range(len(fns)))
        front = set(p for p in pts if not any(dominates(q, p) for q in pts))
        got = []
        for model, costs in res:
            a = check_model(model, "pareto")
            p = tuple(const_value(b, G[i], c) for i, c in enumerate(costs))
            if tuple(f(a) for f, _ in fns) != p:
                bad.append(("cost", "pareto: returned costs differ from the objective values of the returned model"))
            got.append(p)
        if len(set(got)) != len(got):
            bad.append(("front", "pareto: duplicate points %s" % got))
        if set(got) != front:
            bad.append(("front", "pareto front is %s, returned %s" % (sorted(front), sorted(set(got)))))
    if out["after"] != out["before"]:
        ab, bb = out["after"], out["before"]
        if (d == "lex" and res is not None and ab[0] == bb[0] and ab[1] == bb[1] + [len(bb[0])]):
            bad.append((LEX_KEY, "lexicographic_optimize returned a solution and left one extra backtrack level: _backtrack_points %s -> %s" % (bb[1], ab[1])))
        else:
            bad.append(("stack", "assertion stack / backtrack points changed: %d assertions, points %s -> %d assertions, points %s"
                        % (len(bb[0]), bb[1], len(ab[0]), ab[1])))
    return bad


# ----------------------------------------------------------------------------
# trace -> Gallina
# ----------------------------------------------------------------------------

class Decoder(object):
    def __init__(self, b):
        self.b = b
        self.op = optimizer_classes()["op"]
        self.terms = []
        for g in b.goals:
            t = g.term()
            if t not in self.terms:
                self.terms.append(t)
        self.nbase = len(b.opt._assertion_stack)
        self.undecodable = 0

    def goal_lit(self, g):
        t = g.term()
        ty = t.get_type()
        tys = "(TBV %d)" % ty.width if ty.is_bv_type() else "TInt"
        return "(mkG %d %s %s %s %s)" % (self.terms.index(t), tys, lib.coq_bool(bool(g.signed)),
                                         lib.coq_bool(g.is_maximization_goal()), lib.coq_bool(g.is_maxsmt_goal()))

    def catom(self, f):
        op = self.op
        t = f.node_type()
        names = {op.LT: ("OLt", "OGt", False), op.LE: ("OLe", "OGe", False), op.EQUALS: ("OEq", "OEq", False),
                 op.BV_ULT: ("OLt", "OGt", False), op.BV_ULE: ("OLe", "OGe", False),
                 op.BV_SLT: ("OLt", "OGt", True), op.BV_SLE: ("OLe", "OGe", True)}
        if t not in names:
            return None
        l, r = f.args()
        direct, flipped, signed = names[t]
        if r.is_constant() and l in self.terms:
            term, c, o = l, r, direct
        elif l.is_constant() and r in self.terms:
            term, c, o = r, l, flipped
        else:
            return None
        if c.is_bv_constant():
            k = c.bv_signed_value() if signed else c.bv_unsigned_value()
            vw = "(VSigned %d)" % c.bv_width() if signed else "VRaw"
        else:
            k = c.constant_value()
            vw = "VRaw"
        return "(mkC %d %s %s %s)" % (self.terms.index(term), vw, o, lib.coq_z(k))

    def atom(self, f):
        c = self.catom(f)
        if c is not None:
            return "(ACmp %s)" % c
        if f.node_type() == self.op.OR:
            cs = [self.catom(x) for x in f.args()]
            if all(x is not None for x in cs):
                return "(AOr %s)" % lib.coq_list(cs)
        self.undecodable += 1
        return "(ABase 999999)"

    def stack(self, fs):
        out = []
        for i, f in enumerate(fs):
            out.append("(ABase %d)" % i if i < self.nbase else self.atom(f))
        return out

    def model(self, idx):
        if idx is None:
            return "None"
        return "(Some %s)" % lib.coq_list([lib.coq_z(v) for v in self.b.opt.term_values(idx, self.terms)])

    def fmodel(self, model):
        vals = []
        for t in self.terms:
            v = model.get_value(t)
            vals.append(v.bv_unsigned_value() if v.is_bv_constant() else v.constant_value())
        return lib.coq_list([lib.coq_z(v) for v in vals])

    def cost(self, c):
        return lib.coq_z(c.bv_unsigned_value() if c.is_bv_constant() else c.constant_value())


def case_literal(b, out):
    """Gallina literal of one case, or None if the run is not comparable (exception)."""
    if out["exc"] is not None:
        return None
    if any(g.is_maxsmt_goal() and g.real_weights() for g in b.goals):
        return None
    dec = Decoder(b)
    spec = b.spec
    table, events = [], []
    for e in out["events"]:
        if e[0] == "push":
            events.append("EPush")
        elif e[0] == "pop":
            events.append("EPop")
        elif e[0] == "add":
            events.append("(EAdd %s)" % dec.atom(e[1]))
        elif e[0] == "solve":
            q = lib.coq_list(dec.stack(e[1]) + [dec.atom(f) for f in e[2]])
            r = dec.model(e[3])
            table.append("(%s, %s)" % (q, r))
            events.append("(ESolve %s %s)" % (q, r))
        else:
            events.append("EPopEmpty")
    res = out["result"]
    d = spec["driver"]
    if res is None:
        rl = "None"
    elif d == "single":
        rl = "(Some [(%s, [%s])])" % (dec.fmodel(res[0]), dec.cost(res[1]))
    elif d == "boxed":
        rl = "(Some %s)" % lib.coq_list(["(%s, [%s])" % (dec.fmodel(res[g][0]), dec.cost(res[g][1])) for g in b.goals])
    elif d == "lex":
        rl = "(Some [(%s, %s)])" % (dec.fmodel(res[0]), lib.coq_list([dec.cost(c) for c in res[1]]))
    else:
        rl = "(Some %s)" % lib.coq_list(["(%s, %s)" % (dec.fmodel(m), lib.coq_list([dec.cost(c) for c in cs])) for m, cs in res])
    kind = {"single": 0, "boxed": 1, "lex": 2, "pareto": 3}[d]
    lit = ("(%d%%nat, %s, %s, %s,\n   %s, %s,\n   %s,\n   %s,\n   %s, %s,\n   %s)"
           % (kind, "Linear" if spec["strategy"] == "linear" else "Binary", "SUA" if spec["mode"] == "sua" else "Incr",
              lib.coq_list([dec.goal_lit(g) for g in b.goals]),
              lib.coq_list(dec.stack(out["before"][0])), lib.coq_list(["%d%%nat" % p for p in reversed(out["before"][1])]),
              lib.coq_list(table), rl,
              lib.coq_list(dec.stack(out["after"][0])), lib.coq_list(["%d%%nat" % p for p in reversed(out["after"][1])]),
              lib.coq_list(events)))
    return lit, dec.undecodable


CASE_HDR = """From Coq Require Import List ZArith Bool.
From PySMT.core Require Import CaseUtil.
From PySMT.models Require Import Optimizer.
Import ListNotations.
Open Scope Z_scope.

Definition mdl := list Z.
Definition tv (t : nat) (m : mdl) : Z := nth t m 0.
Definition bh (i : nat) (m : mdl) : bool := true.
Fixpoint list_eqb {A} (e : A -> A -> bool) (l l' : list A) : bool :=
  match l, l' with [], [] => true | a :: r, b :: r' => e a b && list_eqb e r r' | _, _ => false end.
Definition opt_eqb {A} (e : A -> A -> bool) (a b : option A) : bool :=
  match a, b with None, None => true | Some x, Some y => e x y | _, _ => false end.
Definition op_eqb (a b : cmpop) : bool :=
  match a, b with OLt, OLt | OLe, OLe | OGt, OGt | OGe, OGe | OEq, OEq => true | _, _ => false end.
Definition view_eqb (a b : view) : bool :=
  match a, b with VRaw, VRaw => true | VSigned w, VSigned w' => Z.eqb w w' | _, _ => false end.
Definition catom_eqb (a b : catom) : bool :=
  Nat.eqb (c_term a) (c_term b) && view_eqb (c_view a) (c_view b) && op_eqb (c_op a) (c_op b) && Z.eqb (c_k a) (c_k b).
Definition atom_eqb (a b : atom) : bool :=
  match a, b with
  | ABase i, ABase j => Nat.eqb i j
  | ACmp c, ACmp c' => catom_eqb c c'
  | AOr l, AOr l' => list_eqb catom_eqb l l'
  | _, _ => false
  end.
Definition mdl_eqb := list_eqb Z.eqb.
Definition event_eqb (a b : event mdl) : bool :=
  match a, b with
  | EPush, EPush => true | EPop, EPop => true | EPopEmpty, EPopEmpty => true
  | EAdd x, EAdd y => atom_eqb x y
  | ESolve q r, ESolve q' r' => list_eqb atom_eqb q q' && opt_eqb mdl_eqb r r'
  | _, _ => false
  end.
Definition table := list (list atom * option mdl).
Definition solve_tab (tb : table) (q : list atom) : option mdl :=
  match find (fun e => list_eqb atom_eqb (fst e) q) tb with Some e => snd e | None => None end.
Definition outcome := option (list (mdl * list Z)).
Definition out_eqb : outcome -> outcome -> bool :=
  opt_eqb (list_eqb (fun a b => mdl_eqb (fst a) (fst b) && list_eqb Z.eqb (snd a) (snd b))).
Definition case := (nat * strategy * mode * list goal * list atom * list nat * table * outcome
                    * list atom * list nat * list (event mdl))%type.
Definition FUEL := 2000%nat.
Definition run_model (kind : nat) (st : strategy) (md : mode) (gs : list goal) (tb : table)
           (s : solver mdl) : option outcome * solver mdl :=
  let sv := solve_tab tb in
  match kind with
  | 0%nat => match gs with
             | [g] => match optimize mdl tv sv FUEL g st md s with
                      | (ROk (Some (m, v)), s') => (Some (Some [(m, [v])]), s')
                      | (ROk None, s') => (Some None, s')
                      | (_, s') => (None, s') end
             | _ => (None, s) end
  | 1%nat => match boxed mdl tv sv FUEL gs st md s with
             | (ROk (Some l), s') => (Some (Some (map (fun e => (fst (snd e), [snd (snd e)])) l)), s')
             | (ROk None, s') => (Some None, s')
             | (_, s') => (None, s') end
  | 2%nat => match lexicographic mdl tv sv FUEL gs st md s with
             | (ROk (Some (m, vs)), s') => (Some (Some [(m, vs)]), s')
             | (ROk None, s') => (Some None, s')
             | (_, s') => (None, s') end
  | _ => match pareto mdl tv sv FUEL gs md s with
         | (ROk l, s') => (Some (Some l), s')
         | (_, s') => (None, s') end
  end.
Definition ok (c : case) : bool :=
  let '(kind, st, md, gs, a0, bt0, tb, eres, a1, bt1, elog) := c in
  let '(r, s') := run_model kind st md gs tb (mkS mdl a0 bt0 []) in
  match r with
  | Some o => out_eqb o eres && list_eqb atom_eqb (s_asserts mdl s') a1 && list_eqb Nat.eqb (s_bt mdl s') bt1
              && list_eqb event_eqb (rev (s_log mdl s')) elog
  | None => false
  end.
"""


def write_case_files(chk, lits, per_file=40, max_bytes=120000):
    """<= per_file cases and <= max_bytes of literals per file; returns [(path, index of first case)]"""
    files, k = [], 0
    while k < len(lits):
        n, size = 0, 0
        while k + n < len(lits) and n < per_file and (n == 0 or size + len(lits[k + n]) <= max_bytes):
            size += len(lits[k + n])
            n += 1
        body = CASE_HDR + "Definition cases : list case := [\n %s ].\n" % ";\n ".join(lits[k:k + n])
        body += "Eval vm_compute in mismatches ok cases.\n"
        p = os.path.join(chk.dir, "cases_%d.v" % len(files))
        with open(p, "w") as f:
            f.write(body)
        files.append((p, k))
        k += n
    return files


WRAP_HDR = """From Coq Require Import List ZArith Bool.
From PySMT.core Require Import CaseUtil.
From PySMT.models Require Import Optimizer.
Import ListNotations.
Open Scope Z_scope.
(* (is_max, signed width or 0, values of the component terms, value of the encoded term) *)
Definition ok (c : bool * Z * list Z * Z) : bool :=
  let '(mx, w, vals, v) := c in
  let f := fun x => if w =? 0 then x else sview w x in
  let le := fun a b => f a <=? f b in
  match wrap_fuel (length vals) (if mx then max_pick le else min_pick le) vals with
  | Some r => Z.eqb r v | None => false end.
"""


def wrap_cases(b, rnd, out, viol=None):
    """MinMax / MaxMin goals: value of the term built by pysmt (_MaxWrap/_MinWrap) against the
    values of its component terms, on a few assignments; checked against models' wrap_fuel."""
    op = optimizer_classes()["op"]
    for gs, g in zip(b.spec["goals"], b.goals):
        if gs[0] not in ("minmax", "maxmin"):
            continue
        terms = [build(t, b.env, b.vars) for t in gs[1]]
        ty = terms[0].get_type()
        w = ty.width if (ty.is_bv_type() and gs[2]) else 0
        for a in rnd.sample(b.opt.assignments, min(4, len(b.opt.assignments))):
            vals = [ev(t, a, op) for t in terms]
            got = ev(g.term(), a, op)
            exp = (max if gs[0] == "minmax" else min)(vals, key=lambda v: _signed(v, w) if w else v)
            if viol is not None and (_signed(got, w) if w else got) != (_signed(exp, w) if w else exp):
                viol.append({"what": "%s term over %s (signed=%s) evaluates to %s, the %s of the listed terms is %s"
                             % (gs[0], [str(t) for t in terms], gs[2], got, "max" if gs[0] == "minmax" else "min", exp),
                             "goal": gs, "assignment": {str(k): v for k, v in a.items()}})
            out.append("(%s, %d, %s, %s)" % (lib.coq_bool(gs[0] == "minmax"), w, lib.coq_list([lib.coq_z(v) for v in vals]),
                                             lib.coq_z(got)))


def extra_wrap_specs(rnd, n):
    specs = []
    for _ in range(n):
        k = rnd.randint(1, 7)
        if rnd.random() < 0.5:
            vs = {"x": ["int", -3, 3], "y": ["int", -2, 4]}
            ts = with_constants(rnd, [gen_int_term(rnd, vs) for _ in range(k)], [["i", c] for c in INT_CONSTS], rnd.choice([0, 0.4, 0.8]))
            sg = False
        else:
            vs = {"a": ["bv", 3], "b": ["bv", 3]}
            ts = with_constants(rnd, [gen_bv_term(rnd, vs) for _ in range(k)], [["bv", c, 3] for c in bv_consts(3)], rnd.choice([0, 0.4, 0.8]))
            sg = rnd.random() < 0.5
        specs.append({"vars": vs, "assertions": [], "pushes": [], "goals": [[rnd.choice(["minmax", "maxmin"]), ts, sg]],
                      "driver": "single", "strategy": "linear", "mode": "sua", "order_seed": 0})
    return specs


# ----------------------------------------------------------------------------
# family CONST: MinMax / MaxMin term lists mixing symbols and literal constants
# ----------------------------------------------------------------------------

def const_minmax_specs(rnd, tier):
    """Lists of length 2..6 with constants at every PAIR of positions (the remaining positions are
    symbols or compound terms), plus lists with one and with three constants; BV (signed and
    unsigned, width 3) and Int; minmax and maxmin. The variables are free, so a constant decides
    the optimum; the reference optimum is max / min over the listed terms by enumeration."""
    specs = []
    reps = 1 if tier == "quick" else 3
    confs = [(d, st, md) for d in ("single", "single", "single", "boxed", "lex", "pareto") for st in ("linear", "binary") for md in ("sua", "incr")]
    for _ in range(reps):
        for kind in ("bvs", "bvu", "int"):
            if kind == "int":
                vs = {"x": ["int", -5, 5], "y": ["int", -3, 4]}
                asserts = [["le", ["i", -5], ["v", "x"]], ["le", ["v", "x"], ["i", 5]], ["le", ["i", -3], ["v", "y"]], ["le", ["v", "y"], ["i", 4]]]
                syms = [["v", "x"], ["v", "y"], ["+", ["v", "x"], ["v", "y"]], ["-", ["i", 1], ["v", "x"]]]
                consts = [["i", c] for c in INT_CONSTS]
            else:
                w = 3
                vs = {"a": ["bv", w], "b": ["bv", w]}
                asserts = []
                syms = [["v", "a"], ["v", "b"], ["bvadd", ["v", "a"], ["v", "b"]], ["bvneg", ["v", "a"]]]
                consts = [["bv", c, w] for c in bv_consts(w)]
            for length in range(2, 7):
                layouts = [(i, j) for i in range(length) for j in range(i + 1, length)] + [(i,) for i in range(length)]
                if length >= 4:
                    layouts += [tuple(sorted(rnd.sample(range(length), 3))) for _ in range(2)]
                for pos in layouts:
                    if len(pos) == length:
                        continue
                    for mm in ("minmax", "maxmin"):
                        cs = rnd.sample(consts, len(pos))
                        if kind == "bvs" and len(pos) >= 2 and rnd.random() < 0.7:
                            # opposite sides of the sign boundary
                            cs[0] = ["bv", rnd.choice([0, 1, 2, 3]), 3]
                            cs[1] = ["bv", rnd.choice([4, 5, 6, 7]), 3]
                            rnd.shuffle(cs)
                        ts = [rnd.choice(syms[:2]) if rnd.random() < 0.7 else rnd.choice(syms) for _ in range(length)]
                        for p, c in zip(pos, cs):
                            ts[p] = c
                        d, st, md = rnd.choice(confs)
                        goals = [[mm, ts, kind == "bvs"]]
                        if d in ("boxed", "lex", "pareto"):
                            goals.append([rnd.choice(["min", "max"]), syms[0], kind == "bvs"])
                            rnd.shuffle(goals)
                        specs.append({"vars": vs, "assertions": list(asserts), "pushes": [], "goals": goals, "driver": d,
                                      "strategy": st if d != "pareto" else "linear", "mode": md, "order_seed": rnd.randrange(1 << 30)})
    return specs


def real_wrap_checks(rnd, n, out, viol):
    """Min / Max over Real terms and Real constants (Real objectives are not optimised; only the
    encoding is checked): value of the built term against max / min of the components."""
    op = optimizer_classes()["op"]
    from pysmt.environment import get_env
    from pysmt.typing import REAL
    from fractions import Fraction
    mgr = get_env().formula_manager
    r, q = mgr.Symbol("c18_r", REAL), mgr.Symbol("c18_q", REAL)
    for _ in range(n):
        k = rnd.randint(2, 6)
        ts = [rnd.choice([r, q, mgr.Plus(r, q), mgr.Real(rnd.choice(INT_CONSTS)), mgr.Real(rnd.choice(INT_CONSTS))]) for _ in range(k)]
        mx = rnd.random() < 0.5
        term = mgr.Max(ts) if mx else mgr.Min(ts)
        for _ in range(3):
            a = {r: Fraction(rnd.randint(-6, 6)), q: Fraction(rnd.randint(-6, 6))}
            vals = [ev(t, a, op) for t in ts]
            got = ev(term, a, op)
            if got != (max if mx else min)(vals):
                viol.append({"what": "%s over Real terms %s evaluates to %s under r=%s q=%s, expected %s"
                             % ("Max" if mx else "Min", [str(t) for t in ts], got, a[r], a[q], (max if mx else min)(vals))})
            out.append("(%s, 0, %s, %s)" % (lib.coq_bool(mx), lib.coq_list([lib.coq_z(int(v)) for v in vals]), lib.coq_z(int(got))))


# ----------------------------------------------------------------------------
# family ALIAS: goal lists with equal-looking but distinct goals (and one object passed twice)
# ----------------------------------------------------------------------------

def alias_specs(rnd, tier):
    """Multi-goal calls whose goals could be confused when used as dictionary keys / set members:
    the same term in two goal objects, the same term with another direction / signedness, one
    object passed twice, MaxSMT goals over the same clause SET with different multiplicities,
    orders, weights, weight representations (int / Int / Real constant, real_weights flag),
    repeated soft clauses inside one goal; the MaxSMT lists also as scripts (assert-soft with one
    :id per goal, interleaved). Reference optimum per goal OBJECT by enumeration."""
    specs = []
    reps = 1 if tier == "quick" else 4
    ivs = {"x": ["int", 0, 3], "p": ["bool"], "q": ["bool"]}
    ibase = [["le", ["i", 0], ["v", "x"]], ["le", ["v", "x"], ["i", 3]]]
    bvs = {"a": ["bv", 3], "b": ["bv", 3]}
    X = ["v", "x"]
    pool = [["eq", X, ["i", 0]], ["eq", X, ["i", 1]], ["eq", X, ["i", 2]], ["le", X, ["i", 1]], ["v", "p"], ["not", ["v", "p"]],
            ["v", "q"], ["or", ["v", "p"], ["eq", X, ["i", 3]]], ["iff", ["v", "q"], ["eq", X, ["i", 2]]]]

    def extra_asserts():
        r = rnd.random()
        if r < 0.5:
            return []
        if r < 0.75:
            return [["or", ["not", ["v", "p"]], ["le", X, ["i", 1]]]]
        return [["not", ["eq", X, ["i", rnd.randint(0, 3)]]]]

    def variants(base):
        """goals over the clause set of `base` (list of [clause, weight])"""
        out = []
        dup = [list(e) for e in base] + [list(rnd.choice(base)) for _ in range(rnd.choice([1, 1, 2]))]
        rnd.shuffle(dup)
        out.append(dup)                                       # other multiplicities
        out.append([list(e) for e in reversed(base)])          # other order
        out.append([[c, w + rnd.choice([1, 2])] for c, w in base])      # other weights
        out.append([list(e) for e in base] + [[rnd.choice(pool), rnd.randint(1, 4)]])   # one more clause
        out.append([list(e) for e in base])                    # an equal copy (distinct object)
        return out

    for _ in range(reps):
        # (b) MaxSMT goals over one clause set, API-built, and (c) the same from scripts
        for n in range(44):
            base = [[c, rnd.randint(1, 4)] for c in rnd.sample(pool, rnd.choice([2, 2, 3]))]
            vl = variants(base)
            k = rnd.choice([2, 2, 3, 4])
            soft_lists = [base] + rnd.sample(vl, k - 1)
            if n % 4 == 0:
                soft_lists = [base, vl[0]]                      # exactly: same set, other multiplicities
            rnd.shuffle(soft_lists)
            for script in (False, True):
                real = [True] * len(soft_lists) if script else [rnd.random() < 0.3 for _ in soft_lists]
                goals = [["maxsmt", sl, r] for sl, r in zip(soft_lists, real)]
                if not script and rnd.random() < 0.3:
                    j = rnd.randrange(len(goals))
                    goals.insert(rnd.randrange(j + 1, len(goals) + 1), ["same", j])
                if rnd.random() < 0.3:
                    goals.append([rnd.choice(["min", "max"]), X, False])
                anyreal = any(g[0] == "maxsmt" and g[2] for g in goals)
                sp = {"vars": ivs, "assertions": ibase + extra_asserts(), "pushes": [], "goals": goals, "driver": "boxed",
                      "strategy": "linear" if anyreal else rnd.choice(["linear", "binary"]), "mode": rnd.choice(["sua", "incr"]),
                      "order_seed": rnd.randrange(1 << 30)}
                if script:
                    sp["script"] = True
                specs.append(sp)
        # (a) plain goals
        for vs, base, terms, sgs in ((ivs, ibase, [X, ["+", X, ["i", 1]], ["ite", ["v", "p"], X, ["-", ["i", 2], X]]], [False]),
                                     (bvs, [], [["v", "a"], ["bvadd", ["v", "a"], ["v", "b"]], ["bvxor", ["v", "a"], ["bv", 5, 3]]], [False, True])):
            for t in terms:
                for sg in sgs:
                    lists = [[["min", t, sg], ["min", t, sg]], [["min", t, sg], ["max", t, sg]], [["max", t, sg], ["same", 0]],
                             [["max", t, sg], ["max", t, sg], ["min", t, sg]], [["min", t, sg], ["same", 0], ["max", t, sg], ["same", 2]]]
                    if vs is bvs:
                        lists += [[["min", t, sg], ["min", t, not sg]], [["max", t, not sg], ["max", t, sg], ["same", 0]]]
                    for goals in lists:
                        for d in ("boxed", "boxed", "lex", "pareto"):
                            specs.append({"vars": vs, "assertions": base + (extra_asserts() if vs is ivs else []), "pushes": [],
                                          "goals": goals, "driver": d, "strategy": rnd.choice(["linear", "binary"]) if d != "pareto" else "linear",
                                          "mode": rnd.choice(["sua", "incr"]), "order_seed": rnd.randrange(1 << 30)})
        # (d) one goal with repeated soft clauses
        for n in range(24):
            base = [[c, rnd.randint(1, 4)] for c in rnd.sample(pool, rnd.choice([2, 3]))]
            specs.append({"vars": ivs, "assertions": ibase + extra_asserts(), "pushes": [], "goals": [["maxsmt", variants(base)[0], False]],
                          "driver": "single", "strategy": rnd.choice(["linear", "binary"]), "mode": rnd.choice(["sua", "incr"]),
                          "order_seed": rnd.randrange(1 << 30)})
    return specs


# ----------------------------------------------------------------------------
# family BOX: one Int / BV variable of any magnitude, interval solver (no enumeration)
# ----------------------------------------------------------------------------

def _bvc(v, w):
    return ["bv", v % (1 << w), w]


def box_specs(rnd, tier):
    """Optimisation of x itself under bounds / holes, at BV widths 8, 54, 64, 65, 128 (signed and
    unsigned) and Int values around +-2**53, +-2**64, +-10**30. Binary search at any distance,
    linear search only over small feasible sets. budget = admissible solve calls."""
    specs = []
    reps = 1 if tier == "quick" else 4
    x = ["v", "x"]

    def add(var, asserts, goals, driver, strategy, mode, bits, nfeas=None, pushes=()):
        per_goal = (2 * bits + 16) if strategy == "binary" else (nfeas + 3)
        specs.append({"solver": "interval", "vars": {"x": var}, "assertions": asserts, "pushes": list(pushes),
                      "goals": goals, "driver": driver, "strategy": strategy, "mode": mode,
                      "policy": rnd.choice(["min", "max", "mid", "alt"]), "budget": per_goal * len(goals) + 2,
                      "order_seed": 0})

    for _ in range(reps):
        for w in (8, 54, 64, 65, 128):
            m, h = 1 << w, 1 << (w - 1)
            r1, r2 = rnd.randint(0, 40), rnd.randint(0, 40)
            shapes = {
                "full": [["not", ["eq", x, _bvc(0, w)]], ["not", ["eq", x, _bvc(m - 1, w)]]],
                "top": [["ule", _bvc(m - 1000 - r1, w), x], ["ule", x, _bvc(m - 3 - r2, w)], ["not", ["eq", x, _bvc(m - 3 - r2, w)]],
                        ["not", ["eq", x, _bvc(m - 1000 - r1, w)]]],
                "sign": [["sle", _bvc(-(5 + r1), w), x], ["sle", x, _bvc(7 + r2, w)], ["not", ["eq", x, _bvc(0, w)]]],
                "smax": [["sle", _bvc(h - 1 - 5000 - r1, w), x], ["not", ["eq", x, _bvc(h - 1, w)]]],
                "smin": [["sle", x, _bvc(-h + 5000 + r1, w)], ["not", ["eq", x, _bvc(-h, w)]]],
                "p53": [["ule", _bvc((1 << min(53, w - 1)) - 20 - r1, w), x], ["ult", x, _bvc((1 << min(53, w - 1)) + 20 + r2, w)]],
                "unsat": [["ult", x, _bvc(5, w)], ["ult", _bvc(m - 9, w), x]],
            }
            for sg in (False, True):
                for mx in (False, True):
                    goal = [["max" if mx else "min", x, sg]]
                    for mode in ("sua", "incr"):
                        for name in rnd.sample(sorted(shapes), 3):
                            add(["bv", w], shapes[name], goal, "single", "binary", mode, w, pushes=rnd.choice([(), (0,), (1,)]))
                    # linear: a handful of feasible values far from 0
                    lo = rnd.choice([m - 40, h - 6, h - 3, 3 * (m >> 2)]) - r1
                    small = [["ule", _bvc(lo, w), x], ["ule", x, _bvc(lo + 9, w)], ["not", ["eq", x, _bvc(lo + 4, w)]]]
                    add(["bv", w], small, goal, "single", "linear", rnd.choice(["sua", "incr"]), w, nfeas=10)
            # several goals over the same variable
            for strategy in ("binary", "linear"):
                asserts = shapes["top"] if strategy == "binary" else [["ule", _bvc(h - 4, w), x], ["ule", x, _bvc(h + 4, w)]]
                for mode in ("sua", "incr"):
                    add(["bv", w], asserts, [["min", x, False], ["max", x, True]], "boxed", strategy, mode, w, nfeas=1000 if strategy == "binary" else 9)
                    add(["bv", w], asserts, [["max", x, True], ["min", x, False]], "lex", strategy, mode, w, nfeas=9)
                pz = [["sle", _bvc(-(3 + r1 % 5), w), x], ["sle", x, _bvc(4 + r2 % 5, w)], ["not", ["eq", x, _bvc(0, w)]]]
                add(["bv", w], pz, [[rnd.choice(["min", "max"]), x, True]], "pareto", "linear", rnd.choice(["sua", "incr"]), w, nfeas=20)
        for c in (1 << 53, -(1 << 53), (1 << 53) - 7, 1 << 64, -(1 << 64), 10 ** 30, -(10 ** 30), 0):
            r1, r2 = rnd.randint(0, 3000), rnd.randint(0, 3000)
            bits = max(abs(c), 4096).bit_length() + 2
            wide = [["le", ["i", c - r1], x], ["le", x, ["i", c + r2]], ["not", ["eq", x, ["i", c - r1]]], ["not", ["eq", x, ["i", c + r2]]]]
            huge = [["le", ["i", c - abs(c) // 2 - r1], x], ["lt", x, ["i", c + abs(c) // 3 + r2]]]
            for mx in (False, True):
                goal = [["max" if mx else "min", x, False]]
                for mode in ("sua", "incr"):
                    add(["int"], wide, goal, "single", "binary", mode, bits)
                    add(["int"], huge, goal, "single", "binary", mode, bits)
                small = [["le", ["i", c - 4], x], ["le", x, ["i", c + 4]], ["not", ["eq", x, ["i", c]]]]
                add(["int"], small, goal, "single", "linear", rnd.choice(["sua", "incr"]), bits, nfeas=9)
            for mode in ("sua", "incr"):
                add(["int"], wide, [["min", x, False], ["max", x, False]], "boxed", "binary", mode, bits)
                add(["int"], wide, [["max", x, False], ["min", x, False]], "lex", "binary", mode, bits)
    return specs


def _view(v, signed, w):
    return _signed(v, w) if (signed and w) else v


def _set_opt(sset, mx, signed, w):
    """optimum (value as the goal reads it, raw value) of a non-empty bounded interval set"""
    cands = []
    for lo, hi in sset:
        cands += [lo, hi]
        if signed and w:
            h = 1 << (w - 1)
            cands += [c for c in (h - 1, h) if lo <= c <= hi]
    best = (max if mx else min)(cands, key=lambda r: _view(r, signed, w))
    return _view(best, signed, w), best


def check_property_box(b, out):
    """C18 on a run over the interval solver; the optimum comes from the interval set of the
    assertions (no enumeration)."""
    op = optimizer_classes()["op"]
    spec, res, d = b.spec, out["result"], b.spec["driver"]
    if out["exc"] is not None:
        return [("exception", "the optimisation raised %s" % out["exc"])]
    bad = []
    ty = b.vars["x"].symbol_type()
    w = ty.width if ty.is_bv_type() else None
    sset = b.opt.feasible(out["before"][0])

    def raw(c):
        return c.bv_unsigned_value() if c.is_bv_constant() else c.constant_value()

    def in_set(v, ss):
        return any(lo <= v <= hi for lo, hi in ss)
    goals = spec["goals"]
    if not sset:
        if res not in (None, []):
            bad.append(("none", "assertions are unsatisfiable but a result was returned"))
    elif res is None:
        bad.append(("none", "assertions are satisfiable but 'no solution' was reported"))
    else:
        if d == "single":
            items = [(res[0], res[1], sset)]
        elif d == "boxed":
            items = [res[g] + (sset,) for g in b.goals]
        elif d == "lex":
            items, cur = [], sset
            for i, c in enumerate(res[1]):
                items.append((res[0], c, cur))
                _, rbest = _set_opt(cur, goals[i][0] == "max", goals[i][2], w)
                cur = [(rbest, rbest)]
        else:
            if len(res) != 1:
                bad.append(("front", "pareto over one objective returned %d points" % len(res)))
            items = [(m, cs[0], sset) for m, cs in res[:1]]
        for i, (model, cost, ss) in enumerate(items):
            g = goals[i if d != "single" else 0]
            v = raw(model.get_value(b.vars["x"]))
            if not in_set(v, sset):
                bad.append(("model", "goal %d: the returned model x=%d does not satisfy the assertions" % (i, v)))
            best, _ = _set_opt(ss, g[0] == "max", g[2], w)
            if _view(v, g[2], w) != best:
                bad.append(("optimum", "goal %d: objective value of the returned model is %d, the optimum is %d" % (i, _view(v, g[2], w), best)))
            if (d != "lex" or i == len(items) - 1) and raw(cost) != v:
                bad.append(("cost", "goal %d: returned cost %d differs from the value %d of the returned model" % (i, raw(cost), v)))
            if d == "lex" and _view(raw(cost), g[2], w) != best:
                bad.append(("optimum", "lexicographic: cost %d of goal %d is not the optimum %d" % (_view(raw(cost), g[2], w), i, best)))
    if out["after"] != out["before"]:
        bad.append(("stack", "assertion stack / backtrack points changed: %d assertions, points %s -> %d assertions, points %s"
                    % (len(out["before"][0]), out["before"][1], len(out["after"][0]), out["after"][1])))
    return bad


def interval_selfcheck(rnd, n):
    """the interval solver against plain evaluation on small domains (trust in the reference)"""
    op = optimizer_classes()["op"]
    from pysmt.environment import get_env
    from pysmt.typing import INT, BVType
    env = get_env()
    mgr = env.formula_manager
    errs = []
    for _ in range(n):
        w = rnd.choice([None, 3, 4])
        x = mgr.Symbol("c18_sc_w%s" % w, BVType(w) if w else INT)
        dom = range(1 << w) if w else range(-12, 13)

        def atom():
            if w:
                k = ["bv", rnd.randrange(1 << w), w]
                o = rnd.choice(["ult", "ule", "slt", "sle", "eq"])
            else:
                k = ["i", rnd.randint(-9, 9)]
                o = rnd.choice(["lt", "le", "eq", "ge", "gt"])
            a = [o, ["v", "x"], k] if rnd.random() < 0.5 else [o, k, ["v", "x"]]
            return ["not", a] if rnd.random() < 0.3 else a
        sp = [rnd.choice(["and", "or"])] + [atom() if rnd.random() < 0.7 else [rnd.choice(["and", "or"]), atom(), atom()] for _ in range(rnd.randint(2, 4))]
        f = build(sp, env, {"x": x})
        ss = iset_of(f, x, op)
        for v in dom:
            if bool(ev(f, {x: v}, op)) != any(lo <= v <= hi for lo, hi in ss):
                errs.append("%s at x=%d: interval set %s" % (f, v, ss))
                break
    return errs


# ----------------------------------------------------------------------------
# directed inputs kept from earlier findings
# ----------------------------------------------------------------------------

CORPUS = [
    # regression: lexicographic success used to leave the _setup level on the stack (fixed in c42afb5)
    {"vars": {"x": ["int", 0, 1]}, "assertions": [["le", ["i", 0], ["v", "x"]], ["le", ["v", "x"], ["i", 1]]], "pushes": [],
     "goals": [["min", ["v", "x"], False]], "driver": "lex", "strategy": "linear", "mode": "sua", "order_seed": 1},
    # signed BV: optimum is a negative value
    {"vars": {"a": ["bv", 3]}, "assertions": [], "pushes": [0], "goals": [["min", ["v", "a"], True]], "driver": "single",
     "strategy": "binary", "mode": "incr", "order_seed": 2},
    {"vars": {"a": ["bv", 3]}, "assertions": [], "pushes": [], "goals": [["max", ["v", "a"], False]], "driver": "single",
     "strategy": "binary", "mode": "sua", "order_seed": 3},
]
# an objective whose term mixes theories: Goal.get_logic() is outside the comparison table
MIXED = {"vars": {"a": ["bv", 2], "p": ["bool"]}, "assertions": [], "pushes": [],
         "goals": [["maxsmt", [[["ult", ["v", "a"], ["bv", 2, 2]], 2], [["v", "p"], 1]]]], "driver": "single",
         "strategy": "linear", "mode": "sua", "order_seed": 4}


def describe(spec):
    return ("harness.c18: b = build_case(spec); run_impl(b)  # spec is the 'spec' field; "
            "%s %s/%s over vars %s" % (spec["driver"], spec["strategy"], spec["mode"], spec["vars"]))


def report(chk, spec, b, out, bad):
    n = 0
    for key, msg in bad:
        stable = key if key in (LEX_KEY, MIXED_KEY) else "%s:%s" % (key, json.dumps(spec, sort_keys=True))
        n += bool(chk.violation({"kind": "input", "what": msg, "spec": spec, "repro": describe(spec),
                                 "assertions": [str(a) for a in b.assertions], "goals": [repr(g) for g in b.goals],
                                 "observed": str(out.get("result"))[:600], "exception": out.get("exc"),
                                 "stack_before": [len(out["before"][0]), out["before"][1]],
                                 "stack_after": [len(out["after"][0]), out["after"][1]],
                                 "oracle": ("interval-set reference solver (one variable, any magnitude)" if spec.get("solver") == "interval"
                                            else "enumeration of the finite domain with the harness evaluator")}, key=stable))
    return n


def run_one(chk, spec, lits, meta, counts):
    b = build_case(spec)
    out = run_impl(b)
    bad = check_property_box(b, out) if spec.get("solver") == "interval" else check_property(b, out)
    if spec is MIXED and out["exc"] is not None and out["exc"].startswith("KeyError"):
        bad = [(MIXED_KEY, "optimize raises %s for a MaxSMT goal whose soft clause is a bit-vector comparison "
                "(Goal.get_logic() returns a logic that is not a key of the comparison table)" % out["exc"])]
    report(chk, spec, b, out, bad)
    key = (spec["driver"], spec["strategy"], spec["mode"])
    counts[key] = counts.get(key, 0) + 1
    chk.count(json.dumps(spec, sort_keys=True), nontrivial=bool(out["events"]))
    lit = case_literal(b, out)
    if lit is not None:
        lits.append(lit[0])
        meta.append((spec, lit[1]))
    return b, out, bad


def run(tier, only_specs=None):
    chk = lib.Check("C18", tier)
    rnd = random.Random(chk.seed)
    ok = chk.prove()
    chk.note("proof closure built: %s" % ok)
    lib.clean_cases(chk.dir)
    lits, meta, counts = [], [], {}
    gk = {}
    wraps, wviol = [], []
    specs = list(only_specs) if only_specs is not None else list(CORPUS) + [MIXED]
    if only_specs is None:
        per = 32 if tier == "quick" else 400
        for driver in ("single", "boxed", "lex", "pareto"):
            for strategy in ("linear", "binary"):
                if driver == "pareto" and strategy == "binary":
                    continue        # pareto_optimize has no strategy
                for mode in ("sua", "incr"):
                    k = per * (3 if driver == "single" else 1) * (2 if driver == "pareto" else 1)
                    for _ in range(k):
                        specs.append(gen_case(rnd, driver, strategy, mode))
        fam = {"CONST": const_minmax_specs(rnd, tier), "BOX": box_specs(rnd, tier), "ALIAS": alias_specs(rnd, tier)}
        for name, l in fam.items():
            specs += l
        chk.cov["families"] = {"GENERAL": len(specs) - sum(len(l) for l in fam.values()), "CONST": len(fam["CONST"]), "BOX": len(fam["BOX"]), "ALIAS": len(fam["ALIAS"])}
        errs = interval_selfcheck(rnd, 60 if tier == "quick" else 400)
        for e in errs[:3]:
            chk.violation({"kind": "input", "what": "harness: the interval reference solver disagrees with plain evaluation: " + e}, key="harness:interval")
    for spec in specs:
        try:
            b, out, bad = run_one(chk, spec, lits, meta, counts)
        except Exception as ex:
            chk.violation({"kind": "input", "what": "harness could not run the case: %r" % ex, "spec": spec,
                           "trace": traceback.format_exc()[-1200:]}, key="harness:" + json.dumps(spec, sort_keys=True))
            continue
        wrap_cases(b, rnd, wraps, wviol)
        for g in spec["goals"]:
            t = g[0] if g[0] in ("maxsmt", "minmax", "maxmin", "same") else ("%s-%s" % (("bv-signed" if g[2] else "bv-unsigned") if ("bv" in json.dumps(g[1]) or spec["vars"].get("x", [""])[0] == "bv" and spec.get("solver") == "interval") else "int", g[0]))
            gk[t] = gk.get(t, 0) + 1
        if len(chk.cov["samples"]) < 4 and out["events"] and out["result"] is not None:
            chk.sample({"spec": spec, "result": str(out["result"])[:300], "solve_calls": sum(1 for e in out["events"] if e[0] == "solve")})
    if only_specs is None:
        for spec in extra_wrap_specs(rnd, 60 if tier == "quick" else 600):
            wrap_cases(build_case(spec), rnd, wraps, wviol)
        real_wrap_checks(rnd, 40 if tier == "quick" else 400, wraps, wviol)
    for v in wviol[:4]:
        chk.violation(dict(v, kind="input", oracle="max / min of the component values, harness evaluator",
                           repro="MinMaxGoal / MaxMinGoal (formula_manager.Max/Min/MaxBV/MinBV) over the listed terms"),
                      key="wrap:" + v["what"][:200])
    chk.cov["cases_by_driver_strategy_mode"] = {"/".join(k): v for k, v in sorted(counts.items())}
    chk.cov["goal_kinds"] = gk
    ml = modelled_lines()
    unc = sorted(l for l in ml if l not in COVERED)
    chk.cov["modelled_lines"] = {"total": len(ml), "executed": len(ml) - len(unc),
                                 "not_executed": ["%d (%s)" % (l, ml[l]) for l in unc]}
    # ---------------- correspondence: the model replays the recorded oracle ----------
    chk.note("implementation runs + property oracle done: %d cases" % len(specs))
    corr_bad = []
    if os.path.exists(os.path.join(lib.COQ, "models", "Optimizer.vo")):
        files = write_case_files(chk, lits)
        res = lib.run_case_files([p for p, _ in files])
        for p, first in files:
            rc, outp = res[p]
            mm = lib.parse_nat_list(outp) if rc == 0 else None
            if mm is None:
                corr_bad.append({"file": p, "error": outp[-600:]})
            else:
                for i in mm:
                    spec, und = meta[first + i]
                    corr_bad.append({"file": p, "index": i, "spec": spec, "undecodable_formulas": und})
        wfiles = []
        for k in range(0, len(wraps), 400):
            p = os.path.join(chk.dir, "cases_wrap_%d.v" % (k // 400))
            with open(p, "w") as f:
                f.write(WRAP_HDR + "Definition cases := [\n %s ].\nEval vm_compute in mismatches ok cases.\n" % ";\n ".join(wraps[k:k + 400]))
            wfiles.append(p)
        res = lib.run_case_files(wfiles)
        for p in wfiles:
            rc, outp = res[p]
            mm = lib.parse_nat_list(outp) if rc == 0 else None
            if mm is None:
                corr_bad.append({"file": p, "error": outp[-600:]})
            else:
                for i in mm:
                    corr_bad.append({"file": p, "index": i, "kind": "MinMax/MaxMin term encoding", "case": wraps[int(p.rsplit("_", 1)[1][:-2]) * 400 + i]})
        chk.cov["wrap_cases"] = len(wraps)
        chk.note("model evaluated in Coq on %d traces, %d encoding cases" % (len(lits), len(wraps)))
    else:
        corr_bad.append({"error": "models/Optimizer.v does not compile"})
    chk.cov["correspondence"] = {"traces_compared": len(lits), "disagreements": len(corr_bad),
                                 "compared": "result (model values of every objective term, costs), final assertion stack, final backtrack points, full event trace (push/pop/add/solve with query and answer)"}
    if (not ok or corr_bad) and not chk.violations:
        # SEARCH: the failing cases were already run through the property oracle above (no violation found
        # on them); try more inputs around the disagreeing configurations before giving up.
        found = 0
        extra = random.Random(chk.seed + 1)
        confs = [(c["spec"]["driver"], c["spec"]["strategy"], c["spec"]["mode"]) for c in corr_bad if "spec" in c][:20]
        confs += [(d, s, m) for d in ("single", "boxed", "lex", "pareto") for s in ("linear", "binary") for m in ("sua", "incr")]
        for (d, s, m) in confs:
            for _ in range(25):
                spec = gen_case(extra, d, s, m)
                try:
                    b = build_case(spec)
                    out = run_impl(b)
                    bad = [x for x in check_property(b, out) if x[0] != LEX_KEY]
                except Exception:
                    continue
                if bad:
                    found += report(chk, spec, b, out, bad)
                    break
            if found:
                break
        if not found:
            what = []
            if not ok:
                what.append("proof obligations no longer check: " + lib.proof_failure_summary(chk))
            if corr_bad:
                what.append("trace correspondence model<->implementation differs: %s" % json.dumps(corr_bad[:2], default=str)[:1500])
            chk.violation({"kind": "obligation", "theorem_or_correspondence": what}, found_input=False)
    return chk.finish(TRUSTED, ASSUMPTIONS, RULE)


def replay(path):
    r = json.load(open(path))
    print(json.dumps({k: r[k] for k in r if k != "spec"}, indent=1, default=str))
    if "spec" not in r:
        return run("quick")
    b = build_case(r["spec"])
    out = run_impl(b)
    bad = check_property_box(b, out) if r["spec"].get("solver") == "interval" else check_property(b, out)
    for key, msg in bad:
        print("REPLAY %s: %s" % (key, msg))
    print("result:", str(out["result"])[:400], "exception:", out["exc"])
    return 1 if bad else 0
