"""Random formulas with shared sub-DAGs as environment-independent recipes (C14, C15).

A recipe is a list of rows; row i is ('sym', name, sort) | ('int', v) | ('bv', v) | ('real', n, d)
| (op, [indexes of earlier rows]).  `build(env, recipe)` creates the nodes in any Environment, so
the same formula can be built in the environment under test and in its untouched twin.
"""
import re


SORTS = ("bool", "int", "bv", "real", "str")

OPS = {
    # name: (result sort, argument sorts)  -- '*' = 2..3 arguments of that sort
    "And": ("bool", "bool*"), "Or": ("bool", "bool*"), "Not": ("bool", ["bool"]),
    "Implies": ("bool", ["bool", "bool"]), "Iff": ("bool", ["bool", "bool"]),
    "IteB": ("bool", ["bool", "bool", "bool"]),
    "LT": ("bool", ["int", "int"]), "LE": ("bool", ["int", "int"]), "EqI": ("bool", ["int", "int"]),
    "EqV": ("bool", ["bv", "bv"]), "BVULT": ("bool", ["bv", "bv"]), "LTr": ("bool", ["real", "real"]),
    "Plus": ("int", "int*"), "Minus": ("int", ["int", "int"]), "Times3": ("int", ["int"]),
    "TimesNL": ("int", ["int", "int"]), "IteI": ("int", ["bool", "int", "int"]),
    "BVAdd": ("bv", ["bv", "bv"]), "BVAnd": ("bv", ["bv", "bv"]), "BVNot": ("bv", ["bv"]),
    "BVXor": ("bv", ["bv", "bv"]), "IteV": ("bv", ["bool", "bv", "bv"]),
    "PlusR": ("real", "real*"), "ToReal": ("real", ["int"]), "DivR": ("real", ["real"]),
    "StrLength": ("int", ["str"]), "StrConcat": ("str", ["str", "str"]), "EqS": ("bool", ["str", "str"]),
    "BVToNatural": ("int", ["bv"]), "Fapp": ("int", ["int"]),
}


def gen_recipe(rnd, size, sorts=("bool", "int", "bv"), quant=False):
    rows = []
    pools = {s: [] for s in SORTS}
    for s in sorts:
        for k in range(3):
            rows.append(("sym", "%s%d" % ({"bool": "p", "int": "i", "bv": "v", "real": "r", "str": "s"}[s], k), s))
            pools[s].append(len(rows) - 1)
    if "int" in sorts:
        rows.append(("int", rnd.randrange(-3, 9)))
        pools["int"].append(len(rows) - 1)
    if "bv" in sorts:
        rows.append(("bv", rnd.randrange(256)))
        pools["bv"].append(len(rows) - 1)
    if "real" in sorts:
        rows.append(("real", rnd.randrange(1, 7), rnd.randrange(1, 5)))
        pools["real"].append(len(rows) - 1)
    names = sorted(n for n, (r, a) in OPS.items()
                   if r in sorts and all(x in sorts for x in ([a[:-1]] if isinstance(a, str) else a)))
    for _ in range(size):
        op = rnd.choice(names)
        rs, asorts = OPS[op]
        if isinstance(asorts, str):
            asorts = [asorts[:-1]] * rnd.choice([2, 2, 3])
        args = []
        for s in asorts:
            pool = pools[s]
            # prefer recent rows: deeper formulas, and sharing through repeated picks
            k = pool[-1 - min(len(pool) - 1, int(rnd.expovariate(0.45)))]
            args.append(k)
        rows.append((op, args))
        pools[rs].append(len(rows) - 1)
    if quant and "int" in sorts:
        body = pools["bool"][-1]
        rows.append(("Exists", [pools["int"][0], body]))
        pools["bool"].append(len(rows) - 1)
    return rows


def build(env, rows):
    """Returns the list of FNodes, one per row."""
    from pysmt.typing import BOOL, INT, REAL, STRING
    from fractions import Fraction
    m = env.formula_manager
    tm = env.type_manager
    ty = {"bool": BOOL, "int": INT, "real": REAL, "bv": tm.BVType(8), "str": STRING}
    out = []
    for r in rows:
        k = r[0]
        if r[1] is None:
            out.append(None)
        elif k == "sym":
            out.append(m.Symbol(r[1], ty[r[2]]))
        elif k == "int":
            out.append(m.Int(r[1]))
        elif k == "bv":
            out.append(m.BV(r[1], 8))
        elif k == "real":
            out.append(m.Real(Fraction(r[1], r[2])))
        else:
            a = [out[i] for i in r[1]]
            if k in ("And", "Or", "Plus"):
                out.append(getattr(m, k)(*a))
            elif k == "PlusR":
                out.append(m.Plus(*a))
            elif k in ("IteB", "IteI", "IteV"):
                out.append(m.Ite(*a))
            elif k == "Fapp":
                out.append(m.Function(m.Symbol("ff", tm.FunctionType(INT, [INT])), a))
            elif k in ("EqI", "EqV", "EqS"):
                out.append(m.Equals(*a))
            elif k == "LTr":
                out.append(m.LT(*a))
            elif k == "Times3":
                out.append(m.Times(a[0], m.Int(3)))
            elif k == "TimesNL":
                out.append(m.Times(*a))
            elif k == "DivR":
                out.append(m.Div(a[0], m.Real(2)))
            elif k == "Exists":
                out.append(m.Exists([a[0]], a[1]))
            else:
                out.append(getattr(m, k)(*a))
    return out


def last_of_sort(env, nodes, sort="bool"):
    for f in reversed(nodes):
        t = env.stc.get_type(f)
        if (sort == "bool" and t.is_bool_type()) or (sort == "int" and t.is_int_type()) or (sort == "bv" and t.is_bv_type()):
            return f
    return nodes[-1]


COMMUTATIVE = None


def canon(f, rename=None):
    """Environment-independent structural key of a formula, up to the order of commutative
    arguments (And/Or/Plus/Times/Iff/Equals/BV commutative ops) and, if `rename` is given, the
    names it maps (fresh symbols)."""
    import pysmt.operators as op
    global COMMUTATIVE
    if COMMUTATIVE is None:
        COMMUTATIVE = set([op.AND, op.OR, op.PLUS, op.TIMES, op.IFF, op.EQUALS, op.BV_ADD, op.BV_AND, op.BV_OR,
                           op.BV_XOR, op.BV_MUL, op.BV_COMP])
    memo = {}
    stack = [(f, False)]
    while stack:
        x, done = stack.pop()
        if x in memo:
            continue
        if not done:
            stack.append((x, True))
            for a in x.args():
                if a not in memo:
                    stack.append((a, False))
            continue
        nt = x.node_type()
        if x.is_symbol():
            nm = x.symbol_name()
            if rename is not None:
                nm = rename(nm)
            memo[x] = "%s:%s" % (nm, x.symbol_type())
        elif x.is_constant() and not x.args():
            memo[x] = "c(%s:%s)" % (x.constant_value(), x.constant_type())
        else:
            a = [memo[c] for c in x.args()]
            if nt in COMMUTATIVE:
                a = sorted(a)
            extra = ""
            if x.is_quantifier():
                extra = "[" + ",".join(sorted("%s:%s" % (rename(v.symbol_name()) if rename is not None else v.symbol_name(), v.symbol_type())
                                                     for v in x.quantifier_vars())) + "]"
            elif x.is_function_application():
                extra = "[" + x.function_name().symbol_name() + "]"
            elif x._content.payload is not None:
                extra = "[%s]" % (x._content.payload,)
            memo[x] = "%s%s(%s)" % (op.op_to_str(nt), extra, ",".join(a))
    return memo[f]


def canon_value(v, rename=None):
    """Canonical key of any result of the probed API calls."""
    if hasattr(v, "node_id"):
        return canon(v, rename)
    if isinstance(v, (set, frozenset)):
        return "{" + ",".join(sorted(canon_value(x, rename) for x in v)) + "}"
    if isinstance(v, (list, tuple)):
        return "[" + ",".join(canon_value(x, rename) for x in v) + "]"
    if isinstance(v, dict):
        return "{" + ",".join(sorted("%s=>%s" % (canon_value(k, rename), canon_value(x, rename)) for k, x in v.items())) + "}"
    return "%s" % (v,)


FRESH_RE = re.compile(r"(?<![A-Za-z0-9_])(?:__x|FV|\.def_|ack)\d+")
_FRESH_FULL = re.compile(r"^(?:__x|FV|\.def_|ack)\d+$")


def fresh_token(name):
    """Every fresh-symbol name (FV%d, __x%d, .def_%d, ack%d) becomes ONE token.  Used as the
    `rename` of canon(): it is applied to the leaves BEFORE commutative arguments are sorted, so
    two results that are equal up to a consistent renaming of fresh names and AC order always get
    the same key (by induction on the term).  The abstraction may identify results that wire
    their fresh names differently; exact names are the business of the cnf/prenex models."""
    return "<fresh>" if _FRESH_FULL.match(name) else name


def mask_fresh(text):
    """The same abstraction on a plain text (printed formulas, command arguments)."""
    return FRESH_RE.sub("<fresh>", text)


def canon_key(v):
    """THE comparison key of all twin / fresh-environment comparisons (C14, C15, C20)."""
    return mask_fresh(canon_value(v, fresh_token))


def rename_fresh(text):
    """Kept for callers that only have a text: masks fresh names (no numbering by occurrence)."""
    return mask_fresh(text)


def restrict(rows, idx):
    """The recipe with every row that row `idx` does not need blanked out (built as None)."""
    need, stack = set(), [idx]
    while stack:
        i = stack.pop()
        if i in need:
            continue
        need.add(i)
        if rows[i][0] not in ("sym", "int", "bv", "real"):
            stack.extend(rows[i][1])
    return [r if i in need else (r[0], None) for i, r in enumerate(rows)]
