"""SORT-SHAPE families shared by C12 (reported sorts) and C13 (logic detection).

A leaf sort is wrapped by a chain of sort constructors (written from the inside out):
  "idx"  Array(t, filler)         the sort so far becomes the INDEX sort
  "elt"  Array(filler, t)         the sort so far becomes the ELEMENT sort
  "par"  P(t)                     argument of a user-declared parametric sort
and the resulting sort reaches the formula through exactly one kind of carrier.  The formulas never
select / store at an inner level and use no term of a component sort, so that a component sort is
implied by nothing but the sort tree itself (the filler is Bool where no other theory may show up).
"""
import itertools

from pysmt.typing import BOOL, ArrayType, FunctionType

WRAPS = ("idx", "elt", "par")
CARRIERS = ("sym", "funparam", "funres", "binder", "avidx", "avelt", "ite", "outersel")


def chains(wraps, dmin, dmax):
    for d in range(dmin, dmax + 1):
        for ch in itertools.product(wraps, repeat=d):
            yield ch


def build_sort(env, leaf, chain, filler):
    tm = env.type_manager
    t = leaf
    for w in chain:
        if w == "idx":
            t = tm.ArrayType(t, filler)
        elif w == "elt":
            t = tm.ArrayType(filler, t)
        elif w == "par":
            t = tm.get_type_instance(tm.Type("P", 1), t)
        else:
            raise ValueError(w)
    return t


def carrier_formula(env, t, carrier):
    """A Boolean formula in which sort t occurs through `carrier` (None if the carrier does not apply)."""
    m = env.formula_manager
    if carrier == "sym":
        return m.EqualsOrIff(m.Symbol("x", t), m.Symbol("y", t))
    if carrier == "funparam":
        f = m.Symbol("f", FunctionType(BOOL, [BOOL, t]))
        return m.Function(f, [m.TRUE(), m.Symbol("x", t)])
    if carrier == "funres":
        g = m.Symbol("g", FunctionType(t, [BOOL]))
        return m.EqualsOrIff(m.Function(g, [m.TRUE()]), m.Function(g, [m.FALSE()]))
    if carrier == "binder":
        x, y = m.Symbol("x", t), m.Symbol("y", t)
        return m.ForAll([x], m.Exists([y], m.EqualsOrIff(x, y)))
    if carrier == "avidx":
        return m.Equals(m.Array(t, m.TRUE()), m.Array(t, m.Symbol("p", BOOL)))
    if carrier == "avelt":
        return m.Equals(m.Array(BOOL, m.Symbol("x", t)), m.Array(BOOL, m.Symbol("y", t)))
    if carrier == "ite":
        x, y = m.Symbol("x", t), m.Symbol("y", t)
        return m.EqualsOrIff(m.Ite(m.Symbol("p", BOOL), x, y), x)
    if carrier == "outersel":
        # rows compared / copied: a[i] = b[j], store(a, i, b[j]) = a; the inner dimensions are never indexed
        if not t.is_array_type():
            return None
        a, b = m.Symbol("a", t), m.Symbol("b", t)
        i, j = m.Symbol("i", t.index_type), m.Symbol("j", t.index_type)
        return m.And(m.EqualsOrIff(m.Select(a, i), m.Select(b, j)), m.Equals(m.Store(a, i, m.Select(b, j)), a))
    raise ValueError(carrier)


def sort_tree(t, out=None):
    """Every sort occurring anywhere in the sort tree of t (t included), by structural recursion."""
    out = [] if out is None else out
    if t not in out:
        out.append(t)
    if t.is_array_type():
        sort_tree(t.index_type, out)
        sort_tree(t.elem_type, out)
    elif t.is_function_type():
        pass            # function types are not sorts: their components are collected by the caller
    elif t.is_custom_type():
        for a in t.args:
            sort_tree(a, out)
    return out
