"""C09 - printing then parsing gives the formula back (SMT-LIB tree/DAG printers, scripts, HR format)."""
import hashlib
import io
import json
import os
import random
import re
import sys
import warnings

import pysmt.operators as op
import pysmt.smtlib.commands as smtcmd
from pysmt.environment import Environment
from pysmt.fnode import FNode
from pysmt.parsing import HRParser
from pysmt.smtlib.parser import SmtLibParser
from pysmt.smtlib.script import SmtLibScript

from . import c08, gen_all, lib, tocoq
from . import refeval as R
from .gen import scripts as G
from .gen.formulas import Config, FormulaGen

TRUSTED = [
    "Coq 8.16.1 kernel (coqc); no native_compute",
    "models/SmtPrinter.v (builder C07) and models/SmtParser.v / SmtLex.v (C08), each tied to the implementation by its own correspondence; here their COMPOSITION is compared with the implementation's parse(print(f)) on every generated formula",
    "models/HrPrinter.v (HRPrinter) tied by exact string comparison with FNode.serialize(); the Pratt parser pysmt/parsing.py is not modelled",
    "harness/refeval.py (meaning and type of formulas), harness/tocoq.py",
]
ASSUME = [
    "symbol names as in C07 (printable, no bar / backslash); ASCII",
    "array values come back as store chains: compared by meaning (refeval) and by the model's own prediction of the chain",
    "hr_roundtrip is stated only (labelled _partial): carried by the correspondence of HrPrinter.v and the oracle on HRParser output",
]
RULE = ("formulas of gen/formulas.py (all theories, sharing, names needing quotes) x {tree, DAG} printer; scripts of gen/scripts.py "
        "re-serialised (both printers) and re-parsed in a fresh environment; HRParser on HRSerializer output; distinct = distinct structural keys / texts")


def script_text(env, f, dag):
    sc = SmtLibScript()
    for t in env.typeso.get_types(f, custom_only=True):
        sc.add(name=smtcmd.DECLARE_SORT, args=[t.decl])
    for s in sorted(env.fvo.get_free_variables(f), key=lambda x: x.node_id()):
        sc.add(name=smtcmd.DECLARE_FUN, args=[s])
    sc.add(name=smtcmd.ASSERT, args=[f])
    buf = io.StringIO()
    sc.serialize(buf, daggify=dag)
    return buf.getvalue()


def parse_in(env, text):
    with warnings.catch_warnings():
        warnings.simplefilter("ignore")
        return SmtLibParser(env).get_script(io.StringIO(text))


def has_array_value(f):
    return any(n.is_array_value() for n in tocoq.topo([f]))


def same_meaning(f, g, seed, n=4):
    """None if equal on n interpretations, else a description."""
    for k in range(n):
        I = R.Interp(seed=(seed, k), div0="function", int_range=(-4, 4))
        try:
            a, _ = R.evaluate_ex(f, I)
            b, _ = R.evaluate_ex(g, I)
        except (R.Unsupported, R.DivisionByZeroEvaluated, RecursionError):
            continue
        except R.IllTyped as ex:
            return "ill-typed: %s" % ex
        if not (type(a) is type(b) and a == b):
            return "values differ: %r vs %r under %s" % (a, b, json.dumps(I.describe())[:300])
    return None


# ----------------------------------------------------------------------------- string constants
SPECIAL_STRINGS = [
    "two\nlines", "tab\there", "\r", "a\r\nb", "\x00", "\x01\x1f", "\x7f", "\x0c\x0b",            # control characters
    "\u00e9", "\u00df", "\u6f22", "mix\u00e9\u6f22\u00df", "\u00a0", "\u2028", "\ufeff", "\u0085",  # non-ASCII, BMP
    "\U0001F600", "\U00020000x", "\U0002FFFF",                                                    # outside the BMP
    "back\\slash", "\\", "\\\\", "\\\"", "end\\",                                                 # backslashes
    "\\u{61}", "\\u0061", "\\u{a}", "a\\u{61}b", "\\u{1F600}", "\\x41", "\\n", "\\t", "\\u{", "\\u{zz}",   # text that looks like an escape
    '"', 'q"uo"te', '""', '"""', "|bar|", "(paren) ; semi", " lead", "trail ", "", "#b01", "12", "true",
]


def string_constants(f):
    return set(n.constant_value() for n in tocoq.topo([f]) if n.node_type() == op.STR_CONSTANT)


def string_formulas(env):
    """Formulas around every special string constant: an equality, str.++ with sharing, nested
    under quantifiers, several constants at once."""
    from pysmt.typing import STRING, INT
    m = env.formula_manager
    s, t, i = m.Symbol("s", STRING), m.Symbol("t", STRING), m.Symbol("i", INT)
    out = []
    prev = m.String("a")
    for v in SPECIAL_STRINGS:
        c = m.String(v)
        out.append(m.Equals(s, c))
        out.append(m.Equals(m.StrConcat(s, c, t), m.StrConcat(c, prev, c)))
        out.append(m.ForAll([s], m.Exists([t], m.Or(m.Equals(s, c), m.Not(m.StrContains(t, c)), m.StrPrefixOf(c, s)))))
        out.append(m.And(m.Equals(m.StrLength(c), i), m.Equals(m.StrReplace(s, c, prev), m.StrCharAt(c, i)),
                         m.Implies(m.StrSuffixOf(prev, c), m.Equals(m.StrIndexOf(c, prev, i), m.StrToInt(c)))))
        prev = c
    return out


# ----------------------------------------------------------------------------- sorts against operator positions
def sorted_atom_formulas(env):
    """Bool-sorted terms headed by operators of OTHER theories (select on arrays with Bool elements,
    also nested; applications of Bool-valued functions; ite over such terms; bit-vector and
    arithmetic relations; quantified formulas) at EVERY argument position of the Boolean-level
    operators whose reading depends on the sorts of the operands (= read as Iff or Equals, ite, xor,
    =>, and, or - both sides, also under not); and the dual: non-Bool terms headed by a
    Boolean-looking operator (ite with a Bool condition over Int / BV / array branches) on either
    side of =."""
    from pysmt.typing import BOOL, INT, BVType, ArrayType, FunctionType
    m = env.formula_manager
    p, q = m.Symbol("p", BOOL), m.Symbol("q", BOOL)
    i, j = m.Symbol("i", INT), m.Symbol("j", INT)
    v, w = m.Symbol("v", BVType(4)), m.Symbol("w", BVType(4))
    a = m.Symbol("ab", ArrayType(INT, BOOL))
    mm = m.Symbol("mb", ArrayType(BVType(4), ArrayType(INT, BOOL)))
    ai, bi = m.Symbol("ai", ArrayType(INT, INT)), m.Symbol("bi", ArrayType(INT, INT))
    fb = m.Symbol("fb", FunctionType(BOOL, [INT]))
    atoms = [m.Select(a, i),
             m.Select(m.Select(mm, m.BV(3, 4)), i),
             m.Select(m.Store(a, j, p), i),
             m.Function(fb, [i]),
             m.Ite(p, m.Select(a, i), m.Function(fb, [j])),
             m.BVULT(v, w),
             m.Equals(m.BVComp(v, w), m.BV(1, 1)),
             m.Equals(i, j),
             m.LE(i, m.Plus(j, m.Int(1))),
             m.ForAll([i], m.Select(a, i)),
             m.Exists([j], m.Function(fb, [j]))]
    out = []
    for k, x in enumerate(atoms):
        others = [p, atoms[(k + 3) % len(atoms)]]
        for y in others:
            out += [m.Iff(x, y), m.Iff(y, x), m.Not(m.Iff(x, y)), m.Iff(m.Not(x), y), m.Iff(y, m.Not(x)),
                    m.Implies(x, y), m.Implies(y, x), m.Xor(x, y), m.Xor(y, x),
                    m.And(q, m.Iff(x, y)), m.Or(m.Iff(y, x), q),
                    m.Ite(x, y, q), m.Ite(q, x, y), m.Ite(q, y, x),
                    m.Iff(m.Iff(x, y), q), m.Iff(q, m.Iff(y, x))]
        # the dual: a non-Bool ite whose condition is such a term, on either side of =
        out += [m.Equals(m.Ite(x, i, j), m.Int(2)), m.Equals(m.Int(2), m.Ite(x, i, j)),
                m.Equals(m.Ite(x, v, w), v), m.Equals(m.Ite(x, ai, bi), m.Store(ai, i, j)),
                m.Equals(m.Select(m.Ite(x, ai, bi), i), j),
                m.ForAll([i], m.And(p, m.Iff(x, p)))]
    # arrays of Bool compared as a whole, and a select of one compared with a select of another
    out += [m.Equals(a, m.Store(a, i, q)), m.Iff(m.Select(a, i), m.Select(a, j)),
            m.Iff(m.Select(a, i), m.Select(m.Select(mm, v), j)), m.Equals(m.Select(mm, v), a)]
    seen, uniq = set(), []
    for f in out:
        if f not in seen:
            seen.add(f)
            uniq.append(f)
    return uniq


# ----------------------------------------------------------------------------- indexed operators
IDX_WIDTHS = (8, 64, 102, 128, 257, 1000)


def colliding_extracts(w, limit=6):
    """Groups of valid (hi, lo) pairs for width w whose decimal texts coincide when concatenated
    without a separator, e.g. (101, 0) and (10, 10)."""
    groups = {}
    for hi in range(w):
        shi = str(hi)
        for lo in ([0, 1, 2, 3, 10, 11, 12, 23, hi] + [x for x in (100, 101, 110, 111) if x <= hi]):
            if lo <= hi:
                groups.setdefault(shi + str(lo), set()).add((hi, lo))
    out = [sorted(g) for g in groups.values() if len(g) >= 2]
    out.sort(key=lambda g: (-len(g), g))
    return out[:limit]


def indexed_formulas(env, rnd):
    """Formulas with 2-4 DIFFERENT indexed operators of the same kind in one text, at small and
    large widths, with index tuples chosen so that sloppy keys (digits concatenated, sums, swapped
    indices) coincide.  Every formula must be read back as the same object."""
    from pysmt.typing import BVType
    m = env.formula_manager
    out = []
    for w in IDX_WIDTHS:
        x, y = m.Symbol("x%d" % w, BVType(w)), m.Symbol("y%d" % w, BVType(w))
        # extract: colliding digit strings, swapped / shifted pairs, equal sums
        groups = colliding_extracts(w)
        pairs_sets = [g[:4] for g in groups]
        pairs_sets.append([(3, 1), (1, 1), (3, 3), (2, 2)])
        pairs_sets.append([(w - 1, 0), (w - 1, 1), (w - 2, 0), (w - 1, w - 1)])
        if w > 30:
            pairs_sets.append([(21, 3), (12, 3), (23, 1), (13, 2)])           # permuted digits / equal digit sums
            pairs_sets.append([(20, 10), (10, 0), (30, 20), (15, 5)])         # equal sizes, equal differences
        for ps in pairs_sets:
            ps = [p for p in ps if p[0] < w]
            if len(ps) < 2:
                continue
            parts = [m.BVExtract(x, lo, hi) for hi, lo in ps]
            # one Boolean formula mentioning all of them: pairwise size-compatible comparisons via zero-extension to w
            atoms = [m.Equals(m.BVZExt(p, w - p.bv_width()), y) for p in parts]
            out.append(m.And(atoms))
            same = {}
            for p in parts:
                same.setdefault(p.bv_width(), []).append(p)
            for lst in same.values():
                if len(lst) >= 2:
                    out.append(m.Not(m.Equals(lst[0], lst[1])))
                    out.append(m.ForAll([x], m.Or([m.BVULT(lst[0], q) for q in lst[1:]])))
        # single-index operators: several different indices of the same operator in one formula
        ks = [1, 10, 11, 101, 110, 2, 12, 21] if w > 8 else [1, 2, 3, 7]
        ks = [k for k in ks if k < w]
        sel = rnd.sample(ks, min(4, len(ks)))
        out.append(m.And([m.Equals(m.BVRol(x, k), m.BVRor(y, k2)) for k, k2 in zip(sel, reversed(sel))]))
        out.append(m.Or([m.BVULT(m.BVRol(x, k), m.BVRol(y, k + 1 if k + 1 < w else 0)) for k in sel]))
        z = m.Symbol("z%d" % w, BVType(8))
        exts = [1, 10, 11, 101, 2, 12]
        big = m.Symbol("b%d" % w, BVType(8 + max(exts)))
        out.append(m.And([m.Equals(m.BVZExt(m.BVZExt(z, k), max(exts) - k), big) for k in exts[:4]]))
        out.append(m.And([m.Equals(m.BVSExt(m.BVZExt(z, max(exts) - k), k), big) for k in exts[2:]]))
        out.append(m.Exists([z], m.Or([m.BVSLT(m.BVSExt(z, k), m.BVZExt(z, k)) for k in (1, 11, 10, 101)])))
        # repeat is printed through concat: widths 8k
        out.append(m.Equals(m.BVRepeat(z, 3), m.BVConcat(m.BVRepeat(z, 2), z)))
        # sorts (_ BitVec w) of several widths in one binder list, constants of those widths
        xs = [m.Symbol("q%d_%d" % (w, v), BVType(v)) for v in (1, 10, 11, 101, 110) if v <= w + 9]
        out.append(m.ForAll(xs, m.Or([m.Equals(q, m.BV(1 if q.bv_width() > 1 else 0, q.bv_width())) for q in xs])))
    return out


# ----------------------------------------------------------------------------- scripts with state across commands
def shared_term(m, leaves, sk, depth):
    """A Boolean term with enough sharing for depth+1 let-definitions that uses the symbol sk at every
    level (inside the scope of each let of the DAG printer)."""
    t = sk
    for j in range(depth + 1):
        a = leaves[j % len(leaves)]
        inner = m.Or(t, a)
        t = m.And(inner, m.Or(sk, leaves[(j + 1) % len(leaves)]), m.Implies(inner, sk))
    return t


def script_objects(env, rnd, count):
    """SmtLibScript objects whose commands have DIFFERENT free-symbol sets, sorts and definitions, so
    that whatever a printer or a parser keeps from command i is wrong for command i+1."""
    from pysmt.typing import BOOL, INT, BVType, FunctionType
    m = env.formula_manager
    a, b, c = [m.Symbol(n, BOOL) for n in ("a", "b", "c")]
    i, j = m.Symbol("i", INT), m.Symbol("j", INT)
    defs = [m.Symbol(".def_%d" % k, BOOL) for k in range(6)]
    idefs = [m.Symbol(".def_%d" % k, INT) for k in range(6, 9)]
    bv = [m.Symbol("v%d" % w, BVType(w)) for w in (8, 102)]
    out = []

    def mk(cmds):
        sc = SmtLibScript()
        declared = set()
        for kind, arg in cmds:
            if kind == "assert":
                for t in env.typeso.get_types(arg, custom_only=True):
                    pass
                for s in sorted(env.fvo.get_free_variables(arg), key=lambda x: x.node_id()):
                    if s not in declared:
                        declared.add(s)
                        sc.add(name=smtcmd.DECLARE_FUN, args=[s])
                sc.add(name=smtcmd.ASSERT, args=[arg])
            elif kind == "get-value":
                sc.add(name=smtcmd.GET_VALUE, args=list(arg))
            else:
                sc.add(name=kind, args=list(arg))
        return sc

    first_terms = [m.And(m.Or(a, b), m.Implies(m.Or(a, b), c), m.Iff(m.Or(a, b), a)),
                   m.Or(m.And(a, b), m.Not(m.And(a, b))),
                   m.LE(m.Plus(i, j), m.Times(m.Int(2), m.Plus(i, j)))]
    # directed: the symbol .def_k appears first in the 2nd / 3rd command and is used inside the k-th let
    for k in range(6):
        for t1 in first_terms[:2]:
            t2 = shared_term(m, [a, b, c], defs[k], k)
            out.append(("dag-let-name-k%d" % k, mk([("assert", t1), ("assert", t2), ("check-sat", [])])))
            out.append(("dag-let-name-k%d-third" % k, mk([("assert", t1), ("push", [1]), ("assert", m.Or(a, c)),
                                                          ("assert", m.And(m.Or(defs[k], a), m.Or(defs[k], b))),
                                                          ("pop", [1]), ("assert", t2)])))
    out.append(("dag-int-let-names", mk([("assert", first_terms[2]),
                                         ("assert", m.Equals(m.Plus(m.Times(idefs[0], m.Plus(i, idefs[1])), m.Plus(i, idefs[1])),
                                                             m.Minus(m.Times(idefs[0], m.Plus(i, idefs[1])), idefs[2])))])))
    out.append(("indexed-across-commands", mk([("assert", m.Equals(m.BVExtract(bv[1], 10, 10), m.BV(1, 1))),
                                                ("assert", m.Equals(m.BVExtract(bv[1], 0, 101), bv[1])),
                                                ("assert", m.Equals(m.BVZExt(bv[0], 94), m.BVRol(bv[1], 10))),
                                                ("get-value", [m.BVExtract(bv[1], 1, 11), m.BVExtract(bv[1], 11, 11)])])))
    # random: every command draws its symbols from a different subset
    pool = [a, b, c] + defs
    for n in range(count):
        cmds = []
        for _ in range(rnd.randint(2, 5)):
            syms = rnd.sample(pool, rnd.randint(2, 4))
            sk = rnd.choice(syms)
            t = shared_term(m, [s for s in syms if s is not sk] or [a], sk, rnd.randint(0, 3))
            if rnd.random() < 0.3:
                t = m.Not(t)
            r = rnd.random()
            if r < 0.15:
                cmds.append(("push", [1]))
            cmds.append(("assert", t))
            if r > 0.85:
                cmds.append(("get-value", syms[:2]))
        out.append(("random-multi-command", mk(cmds)))
    return out


def object_script_roundtrip(chk, env, tag, sc, dag, stats):
    """serialize(script) with ONE printer for all commands, parse it back in the same environment and
    compare command by command: identity of the terms, then meaning."""
    try:
        buf = io.StringIO()
        with warnings.catch_warnings():
            warnings.simplefilter("ignore")
            sc.serialize(buf, daggify=dag)
        text = buf.getvalue()
    except Exception as ex:  # noqa
        chk.violation({"kind": "input", "what": "serialising a script failed: %r" % (ex,), "shape": tag}, key="script-object:serialize-error:" + type(ex).__name__)
        return
    stats["object_scripts"] = stats.get("object_scripts", 0) + 1
    try:
        sc2 = parse_in(env, text)
    except Exception as ex:  # noqa
        chk.violation({"kind": "input", "what": "the serialisation of a script is rejected by the parser: %s: %s" % (type(ex).__name__, str(ex)[:200]),
                       "serialised": text[:4000], "shape": tag, "daggify": dag}, key="script-object:reparse-error:%s:%s" % (tag.split("-k")[0], type(ex).__name__))
        return
    c1, c2 = list(sc.commands), list(sc2.commands)
    if len(c1) != len(c2) or any(x.name != y.name for x, y in zip(c1, c2)):
        chk.violation({"kind": "input", "what": "parse(serialize(script)) has different commands", "serialised": text[:4000], "shape": tag,
                       "daggify": dag}, key="script-object:commands:" + tag.split("-k")[0])
        return
    for n, (x, y) in enumerate(zip(c1, c2)):
        fx = [t for t in x.args if isinstance(t, FNode)]
        fy = [t for t in y.args if isinstance(t, FNode)]
        if len(fx) != len(fy):
            continue
        for p, q in zip(fx, fy):
            if p is q:
                continue
            why = same_meaning(p, q, chk.seed, n=6)
            stats["object_script_failures"] = stats.get("object_script_failures", 0) + 1
            chk.violation({"kind": "input", "what": "command %d (%s) of parse(serialize(script)) is not the term that was serialised%s"
                                                     % (n, x.name, "; the MEANING differs: " + why if why else " (same meaning on the sampled interpretations)"),
                           "term": p.serialize()[:1500], "parsed_back": q.serialize()[:1500], "serialised": text[:4000], "shape": tag, "daggify": dag},
                          key="script-object:%s:%s" % ("meaning" if why else "identity", tag.split("-k")[0]))
            return


# ----------------------------------------------------------------------------- layout sweep on printed formulas
def layout_formula(env, kind, Ls):
    """A formula with one long String constant (filler, length Ls[k]) in front of each of the eight
    copies of a structured token; returns (formula, markers)."""
    from pysmt.typing import BOOL, INT, REAL, STRING, BVType
    from fractions import Fraction
    m = env.formula_manager
    s, t = m.Symbol("s", STRING), m.Symbol("t", STRING)
    parts, marks = [], []
    for k, L in enumerate(Ls):
        parts.append(m.Equals(s, m.String(chr(97 + k) * L)))
        if kind == "string-escaped-quotes":
            parts.append(m.Equals(t, m.String('%dhe said "hi"' % k)))
            marks.append('"%dhe said' % k)
        elif kind == "string-only-quotes":
            parts.append(m.Equals(t, m.String('"' * (k + 1))))
            marks.append(' "' + '""' * (k + 1) + '")')
        elif kind == "quoted-symbol":
            parts.append(m.Symbol("p q\nr%d" % k, BOOL))
            marks.append("|p q\nr%d|" % k)
        elif kind == "binary":
            parts.append(m.Equals(m.Symbol("v", BVType(16)), m.BV(0b1011000011110000 + k, 16)))
            marks.append("#b1011000011110" + format(k, "03b"))
        elif kind == "numeral":
            parts.append(m.LE(m.Symbol("i", INT), m.Int(12345678901234567890 * 10 + k)))
            marks.append("12345678901234567890%d" % k)
        elif kind == "decimal":
            parts.append(m.LE(m.Symbol("r", REAL), m.Real(Fraction(12345670 + k))))
            marks.append("1234567%d.0" % k)
        else:
            raise ValueError(kind)
    return m.And(parts), marks


FORMULA_KINDS = ("string-escaped-quotes", "string-only-quotes", "quoted-symbol", "binary", "numeral", "decimal")


def run_formula_sweep(chk, tier, stats):
    """parse(print(f)) is f whatever the offsets at which the tokens of print(f) fall: f contains long
    String constants that slide each structured token across the offsets B-24 .. B+24 of every edge B."""
    from . import layout
    n = bad = unplaced = 0
    for kind in FORMULA_KINDS:
        for dag in (False, True):
            offsets = layout.OFFSETS if not dag else ((-2, -1, 0, 1) if tier == "quick" else layout.OFFSETS)
            if tier == "quick" and kind in ("binary", "numeral", "decimal") and not dag:
                offsets = tuple(range(-12, 13))
            # positions of the markers and of the fillers in the text printed with fillers of length 1
            # (the DAG printer writes the conjuncts in reverse order: what precedes what is read off the text)
            nb = len(layout.BOUNDS)
            env0 = Environment()
            f0, marks = layout_formula(env0, kind, [1] * nb)
            t0 = script_text(env0, f0, dag)
            start = t0.find("(assert")
            mpos = [t0.find(mk, start) for mk in marks]
            fpos = [t0.find('(= s "%s")' % chr(97 + k), start) for k in range(nb)]
            if min(mpos) < 0 or min(fpos) < 0:
                unplaced += len(offsets)
                continue
            order = sorted(range(nb), key=lambda j: mpos[j])
            for d in offsets:
                Ls, fixed, want, bi = [1] * nb, set(), {}, 0
                for j in order:
                    before = [i for i in range(nb) if fpos[i] < mpos[j]]
                    free = [i for i in before if i not in fixed]
                    if not free:
                        continue
                    shift = sum(Ls[i] - 1 for i in before)
                    i = max(free, key=lambda x: fpos[x])
                    L = layout.BOUNDS[bi] + d - mpos[j] - shift + 1
                    if L < 1:
                        continue
                    Ls[i] = L
                    fixed.update(free)
                    want[j] = layout.BOUNDS[bi] + d
                    bi += 1
                env = Environment()
                f, marks = layout_formula(env, kind, Ls)
                text = script_text(env, f, dag)
                start = text.find("(assert")
                pos = [text.find(mk, start) for mk in marks]
                if len(want) < nb - 1 or any(pos[j] != want[j] for j in want):
                    unplaced += 1
                    continue
                n += 1
                try:
                    h = parse_in(env, text).commands[-1].args[0]
                    why = None if h is f else "parse(print(f)) is not f"
                except Exception as ex:  # noqa
                    h, why = None, "parse(print(f)) raises %s: %s" % (type(ex).__name__, str(ex)[:200])
                if why:
                    bad += 1
                    diff = None
                    if isinstance(h, FNode):
                        a, b2 = list(f.args()), list(h.args())
                        for j, (x, y) in enumerate(zip(a, b2)):
                            if x is not y:
                                diff = (j, x.serialize()[:120], y.serialize()[:120])
                                break
                        if diff is None and len(a) != len(b2):
                            diff = ("number of conjuncts", len(a), len(b2))
                    chk.violation({"kind": "input", "what": why + " when a token of the printed text straddles a power-of-two offset",
                                   "token_kind": kind, "daggify": dag, "offset_of_token_start_relative_to_each_edge": d,
                                   "edges": list(layout.BOUNDS), "token_positions": sorted(pos), "filler_lengths": Ls,
                                   "first_difference(conjunct, printed, parsed back)": diff,
                                   "repro": "harness.c09.layout_formula(Environment(), %r, %r) printed with daggify=%r" % (kind, Ls, dag),
                                   "text_around_edges": [text[max(0, p - 30):p + 40] for p in sorted(pos)[:5]]},
                                  key="layout:formula:%s" % kind)
    stats["layout_formula_roundtrips"] = n
    stats["layout_formula_failures"] = bad
    stats["layout_formula_unplaced"] = unplaced


# ----------------------------------------------------------------------------- scripts
def cmd_key(c, rename):
    def k(a):
        if isinstance(a, FNode):
            return ("T", str(tocoq.skey(a)) if not rename else rename_key(tocoq.skey(a), rename))
        if isinstance(a, (list, tuple)):
            return ("L",) + tuple(k(x) for x in a)
        if hasattr(a, "name") and not isinstance(a, str):
            return ("N", str(a))
        return ("V", str(a))
    return (c.name,) + tuple(k(a) for a in c.args)


def rename_key(key, ren):
    s = str(key)
    for a, b in ren.items():
        s = s.replace("'%s'" % a, "'%s'" % b)
    return s


def annotated_binder(text):
    """The serialised text has an annotated term where a quantifier expects a variable name."""
    for m in re.finditer(r"\((?:exists|forall) \(", text):
        i, depth = m.end(), 1
        while i < len(text) and depth > 0:
            if depth == 1 and text.startswith("((! ", i):
                return True
            depth += (text[i] == "(") - (text[i] == ")")
            i += 1
    return False


def script_roundtrip(chk, text, dag, stats):
    r1 = c08.run_impl(text)
    if r1[0] != "ok":
        return
    sc1 = r1[1]
    if any(not all(isinstance(x, (FNode, str, int, list, tuple)) or x is None or hasattr(x, "name") or hasattr(x, "is_bool_type") for x in c.args) for c in sc1.commands):
        return
    names = [c.name for c in sc1.commands]
    if "define-sort" in names or any(c.name == "set-logic" and c.args[0] is None for c in sc1.commands):
        stats["skipped_not_serialisable"] += 1
        return
    try:
        buf = io.StringIO()
        with warnings.catch_warnings():
            warnings.simplefilter("ignore")
            sc1.serialize(buf, daggify=dag)
        text2 = buf.getvalue()
    except Exception as ex:  # noqa
        stats["serialize_errors"] += 1
        stats.setdefault("serialize_error_examples", []).append(("%s: %s" % (type(ex).__name__, ex))[:120])
        return
    r2 = c08.run_impl(text2)
    stats["scripts"] += 1
    if r2[0] != "ok":
        key = "script-reparse-fails:" + r2[1] + ":" + re.sub(r"[0-9]+", "N", str(r2[2]))[:60]
        if "declare-const" in str(r2[2]):
            key = "script:declare-const-serialised-with-parameter-list"
        elif "declare-sort" in str(r2[2]):
            key = "script:sort-name-not-quoted"
        elif "define-fun" in str(r2[2]):
            key = "script:define-fun-name-not-quoted"
        elif "Annotations keyword should start with colon" in str(r2[2]):
            key = "script:annotation-values-merged"
        elif annotated_binder(text2):
            key = "script:annotated-bound-variable"
        chk.violation({"kind": "input", "what": "the serialisation of a parsed script is rejected by the parser: %r" % (r2[2],),
                       "repro": text, "serialised": text2[:3000], "daggify": dag}, key=key)
        stats["script_failures"] += 1
        return
    sc2 = r2[1]
    c1 = [c for c in sc1.commands]
    c2 = [c for c in sc2.commands]
    ok = len(c1) == len(c2)
    if ok:
        for a, b in zip(c1, c2):
            ren = {}
            if a.name == "define-fun" and b.name == "define-fun" and len(a.args[1]) == len(b.args[1]):
                ren = {x.symbol_name(): y.symbol_name() for x, y in zip(a.args[1], b.args[1])}
            if cmd_key(a, ren) != cmd_key(b, {}):
                # array values are re-read as store chains: fall back to meaning
                fa = [x for x in a.args if isinstance(x, FNode)]
                fb = [x for x in b.args if isinstance(x, FNode)]
                if a.name == b.name and len(fa) == len(fb) and fa and all(has_array_value(x) for x in fa) \
                        and all(same_meaning(x, y, chk.seed) is None for x, y in zip(fa, fb)):
                    continue
                ok = False
                bad = (a, b)
                break
    if not ok:
        stats["script_failures"] += 1
        chk.violation({"kind": "input", "what": "parse(serialize(parse(text))) differs from parse(text)",
                       "repro": text, "serialised": text2[:3000], "daggify": dag,
                       "first_difference": [str(bad[0])[:300], str(bad[1])[:300]] if len(c1) == len(c2) else "number of commands"},
                      key="script-roundtrip:" + hashlib.md5(text.encode()).hexdigest()[:10])


# ----------------------------------------------------------------------------- HR
def strip_grouping(s):
    return s.replace("(", "").replace(")", "").replace(" ", "")


def hr_check(chk, env, f, stats):
    try:
        s = f.serialize()
    except Exception:  # noqa
        return
    try:
        with warnings.catch_warnings():
            warnings.simplefilter("ignore")
            g = HRParser(env).parse(s)
    except RecursionError:
        return
    except Exception as ex:  # noqa
        stats["hr_rejected"] += 1
        kind = "%s:%s" % (type(ex).__name__, re.sub(r"[0-9]+", "N", re.sub(r"'[^']*'", "'_'", str(ex)))[:40])
        chk.violation({"kind": "input", "what": "HRParser rejects the serialisation of a formula: %s: %s" % (type(ex).__name__, str(ex)[:200]),
                       "formula": s[:1500], "structural_key": str(tocoq.skey(f))[:1500]}, key="hr-rejected:" + kind)
        stats.setdefault("hr_rejected_kinds", {})
        stats["hr_rejected_kinds"][kind] = stats["hr_rejected_kinds"].get(kind, 0) + 1
        ops = sorted(set(n.node_type() for n in tocoq.topo([f])))
        stats.setdefault("hr_rejected_examples", [])
        if len(stats["hr_rejected_examples"]) < 6:
            stats["hr_rejected_examples"].append(s[:160])
        return
    stats["hr_parsed"] += 1
    if g is f:
        stats["hr_identical"] += 1
        return
    tf, tg = env.stc.get_type(f), env.stc.get_type(g)
    why = None
    if tf != tg:
        why = "type %s became %s" % (tf, tg)
    else:
        why = same_meaning(f, g, chk.seed)
        if why is None and strip_grouping(g.serialize()) != strip_grouping(s):
            why = "serialisation differs beyond grouping"
    if why:
        stats["hr_failures"] += 1
        ops = [n.node_type() for n in tocoq.topo([f])]
        shape = hr_shape(f, g)
        chk.violation({"kind": "input", "what": "HRParser(serialize(f)) is not f up to grouping: " + why, "formula": s[:1500],
                       "parsed_back": g.serialize()[:1500], "structural_key": str(tocoq.skey(f))[:1500]}, key="hr:" + shape)
    else:
        stats["hr_regrouped"] += 1


def hr_shape(f, g):
    """Stable key of an HR difference: the operator of the smallest sub-formula of f whose
    serialisation does not read back with the same meaning/type."""
    return op.op_to_str(f.node_type()) if hasattr(op, "op_to_str") else str(f.node_type())


# ----------------------------------------------------------------------------- model round trip
PRE = ("From Coq Require Import List ZArith Bool String Ascii.\n"
       "From PySMT.core Require Import CaseUtil Syntax SmtStd.\n"
       "From PySMT.models Require Import SmtLex SmtParser SmtPrinter RoundTrip HrPrinter.\n"
       "Import ListNotations.\nOpen Scope bool_scope.\nOpen Scope string_scope.\n")


def run(tier):
    chk = lib.Check("C09", tier)
    warnings.simplefilter("ignore")          # 'Division by 0' of the formula generator
    rnd = random.Random(chk.seed)
    sys.setrecursionlimit(20000)
    gen_all.regen_all()
    ok = chk.prove()
    lib.clean_cases(chk.dir)
    stats = {"formulas": 0, "identical_tree": 0, "identical_dag": 0, "array_value_by_meaning": 0, "failures": 0,
             "scripts": 0, "script_failures": 0, "serialize_errors": 0, "skipped_not_serialisable": 0,
             "hr_parsed": 0, "hr_identical": 0, "hr_regrouped": 0, "hr_rejected": 0, "hr_failures": 0}
    n = 400 if tier == "quick" else 5000
    cases, hr_cases = [], []
    env = g = None
    senv, ienv, aenv = Environment(), Environment(), Environment()
    idx = indexed_formulas(ienv, rnd)
    strs = string_formulas(senv)
    sats = sorted_atom_formulas(aenv)
    special = [(ienv, f) for f in idx] + [(senv, f) for f in strs] + [(aenv, f) for f in sats]
    stats["string_constant_formulas"] = len(strs)
    stats["indexed_operator_formulas"] = len(idx)
    stats["sorted_atom_formulas"] = len(sats)
    for i0 in range(n + len(special)):
        i = i0 - len(special)
        if i < 0:
            env, f = special[i0]
        else:
            if i % 50 == 0:
                env = Environment()
                prefix = rnd.choice(["", "", "x y.", "A#", "q.", "v_"])
                g = FormulaGen(env, rnd, Config(), prefix=prefix)
            t = rnd.choice(g.types) if rnd.random() < 0.4 else g.types[0]
            f = g.gen(t, rnd.randint(1, 4))
            if not env.stc.get_type(f).is_bool_type():
                f = env.formula_manager.Equals(f, f) if rnd.random() < 0.3 else env.formula_manager.EqualsOrIff(f, g.gen(env.stc.get_type(f), 1))
        stats["formulas"] += 1
        chk.count(("c09", tocoq.skey(f)), nontrivial=len(f.args()) > 0)
        backs = []
        for dag in (False, True):
            try:
                text = script_text(env, f, dag)
            except Exception as ex:  # noqa
                chk.violation({"kind": "input", "what": "printing failed: %r" % (ex,), "formula": f.serialize()[:800]},
                              key="print-error:" + type(ex).__name__)
                backs.append(None)
                continue
            try:
                sc = parse_in(env, text)
                h = sc.commands[-1].args[0]
            except Exception as ex:  # noqa
                stats["failures"] += 1
                intdiv = any(x.is_div() and env.stc.get_type(x).is_int_type() and x.arg(0).is_constant() and x.arg(1).is_constant() for x in tocoq.topo([f]))
                chk.violation({"kind": "input", "what": "parse(print(f)) raises %s: %s" % (type(ex).__name__, str(ex)[:200]),
                               "formula": f.serialize()[:800], "text": text[:3000], "daggify": dag},
                              key="roundtrip:int-constant-division" if intdiv else
                              "roundtrip-error:%s:%s" % (type(ex).__name__, re.sub(r"[0-9]+", "N", str(ex))[:50]))
                backs.append(None)
                continue
            backs.append(h)
            if h is f:
                stats["identical_dag" if dag else "identical_tree"] += 1
            elif has_array_value(f) and env.stc.get_type(h) == env.stc.get_type(f) and same_meaning(f, h, chk.seed) is None:
                stats["array_value_by_meaning"] += 1
            else:
                stats["failures"] += 1
                culprit = sorted(set(op.op_to_str(x.node_type()) for x in tocoq.topo([f])) - set(op.op_to_str(x.node_type()) for x in tocoq.topo([h])))
                if isinstance(h, FNode) and tocoq.skey(h) == tocoq.skey(f):
                    culprit = ["quantifier-variable-order"]
                elif isinstance(h, FNode) and string_constants(h) != string_constants(f):
                    culprit = ["string-constant"]
                    stats["string_constant_failures"] = stats.get("string_constant_failures", 0) + 1
                chk.violation({"kind": "input", "what": "parse(print(f)) is not f", "formula": f.serialize()[:800], "text": text[:3000],
                               "parsed_back": h.serialize()[:800] if isinstance(h, FNode) else repr(h), "daggify": dag,
                               "operators_lost": culprit},
                              key="roundtrip:" + ("+".join(culprit) if culprit else hashlib.md5(text.encode()).hexdigest()[:10]))
        ascii_strings = all(ord(ch) < 128 for v in string_constants(f) for ch in v)       # the Coq models are byte-level
        if all(b is not None and isinstance(b, FNode) for b in backs) and ascii_strings and len(cases) < (760 if tier == "quick" else 3400):
            cases.append((f, backs[0], backs[1]))
        hr_check(chk, env, f, stats)
        if not has_array_value(f) and len(hr_cases) < (300 if tier == "quick" else 3000):
            try:
                hs = f.serialize()
                if all(32 <= ord(c) < 127 for c in hs):
                    hr_cases.append((f, hs))
            except Exception:  # noqa
                pass
    # ---- scripts of the C08 generator
    sg = G.ScriptGen(rnd)
    texts = [t for _, t in G.directed(rnd)] + [sg.script() for _ in range(150 if tier == "quick" else 2000)]
    texts = [t for t in texts if "(as u_" not in t]     # (as x S) of an undeclared x: not a serialisable script
    for t in texts:
        for dag in (False, True):
            script_roundtrip(chk, t, dag, stats)
            chk.count(("c09s", t, dag))
    # ---- layout: the reading must not depend on where the tokens lie in the character stream
    run_formula_sweep(chk, tier, stats)
    from . import layout
    layout.run_text_sweep(chk, tier, stats, kinds=["string-escaped-quotes", "string-only-quotes", "quoted-symbol"])
    # ---- scripts built from formulas: one printer / one parser for all commands
    oenv = Environment()
    for tag, sc in script_objects(oenv, rnd, 60 if tier == "quick" else 1500):
        for dag in (True, False):
            object_script_roundtrip(chk, oenv, tag, sc, dag, stats)
            chk.count(("c09o", tag, stats.get("object_scripts", 0)))
    # ---- the composition of the two models against the implementation
    files = []
    shard = 25
    for k in range(0, len(cases), shard):
        rows = []
        for f, bt, bd in cases[k:k + shard]:
            rows.append(tocoq.with_terms([f, bt, bd], lambda names, f=f, bt=bt, bd=bd: "(%s, %s, %s)" % (names[f], names[bt], names[bd])))
        src = PRE + "Definition cases : list (term * term * term) := [\n%s\n].\n" % ";\n".join(rows)
        src += ("Eval vm_compute in mismatches (fun c => let '(t, bt, bd) := c in\n"
                "   roundtrip_is print_tree t bt && roundtrip_is print_dag t bd) cases.\n")
        p = os.path.join(chk.dir, "cases_c09_%d.v" % (k // shard))
        with open(p, "w") as fh:
            fh.write(src)
        files.append((p, k, len(rows)))
    hfiles = []
    for k in range(0, len(hr_cases), 50):
        rows = []
        for f, hs in hr_cases[k:k + 50]:
            rows.append(tocoq.with_terms([f], lambda names, f=f, hs=hs: "(%s, %s)" % (names[f], lib.coq_string(hs))))
        src = PRE + "Definition cases : list (term * string) := [\n%s\n].\n" % ";\n".join(rows)
        src += ("Eval vm_compute in mismatches (fun c => match hr_print (fst c) with Some s => String.eqb s (snd c) | None => false end) cases.\n")
        p = os.path.join(chk.dir, "cases_hr_%d.v" % (k // 50))
        with open(p, "w") as fh:
            fh.write(src)
        hfiles.append((p, k, len(rows)))
    hres = lib.run_case_files([p for p, _, _ in hfiles])
    hbad, herrs = [], []
    for p, first, cnt in hfiles:
        rc, out = hres[p]
        mm = lib.parse_nat_list(out) if rc == 0 else None
        if mm is None:
            herrs.append(out[-500:])
        else:
            hbad += [first + i for i in mm]
    res = lib.run_case_files([p for p, _, _ in files])
    bad, errs = [], []
    for p, first, cnt in files:
        rc, out = res[p]
        mm = lib.parse_nat_list(out) if rc == 0 else None
        if mm is None:
            errs.append(out[-500:])
        else:
            bad += [first + i for i in mm]
    chk.cov["correspondence"] = {"model_roundtrip_cases": len(cases), "disagreements": len(bad), "case_file_errors": len(errs),
                                 "examples": [cases[i][0].serialize()[:200] for i in bad[:5] if not isinstance(i, tuple)]}
    chk.cov["correspondence"]["hr_printer_cases"] = len(hr_cases)
    chk.cov["correspondence"]["hr_printer_disagreements"] = len(hbad)
    chk.cov["correspondence"]["hr_examples"] = [hr_cases[i][1][:200] for i in hbad[:5]]
    for i in hbad[:4]:
        chk.note("models/HrPrinter.v differs from serialize() on: " + hr_cases[i][1][:200])
    for e in herrs[:2]:
        chk.note("hr case file error: " + e[-400:])
    bad = bad + [("hr", i) for i in hbad]
    errs = errs + herrs
    chk.cov["oracle"] = stats
    chk.sample({"formula": cases[0][0].serialize()[:200] if cases else "", "tree_text": script_text(env, cases[-1][0], False)[:300] if cases else ""})
    for e in errs[:2]:
        chk.note("case file error: " + e[-400:])
    for i in bad[:6]:
        if not isinstance(i, tuple):
            chk.note("model round trip differs from the implementation's on: " + cases[i][0].serialize()[:200])
    if (not ok or bad or errs) and not chk.violations:
        what = []
        if not ok:
            what.append("proof obligations no longer check: " + lib.proof_failure_summary(chk))
        if bad or errs:
            what.append("parse_model(print_model(t)) differs from the implementation's parse(print(t)) on %d cases, e.g. %s"
                        % (len(bad) + len(errs), [cases[i][0].serialize()[:200] if not isinstance(i, tuple) else hr_cases[i[1]][1][:200] for i in bad[:2]]))
        chk.violation({"kind": "obligation", "theorem_or_correspondence": what}, found_input=False)
    return chk.finish(TRUSTED, ASSUME, RULE)


def replay(path):
    print(json.dumps(json.load(open(path)), indent=1)[:3000])
    return run("quick")
