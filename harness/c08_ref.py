"""c08_ref.py - an independent reader and evaluator of SMT-LIB 2.6 script TEXT (for C08 / C09).

Written from the SMT-LIB 2.6 reference (lexicon 3.1, terms 3.6, commands 3.9 / 4.2, theories
Core, Ints, Reals, Reals_Ints, FixedSizeBitVectors + QF_BV abbreviations, ArraysEx, Strings).  It
shares nothing with pysmt's parser: own lexer, own s-expression reader, own scoping (parallel
`let`, binders shadow globals, define-fun expanded by VALUE in its definition scope, push/pop
scoping of declarations).  Values and the value-level operator functions are those of
harness/refeval.py (so that the value of the TEXT can be compared with refeval's value of the
FNodes pysmt returns, under the same refeval.Interp); sorts are pysmt.typing objects because the
Interp is keyed by (name, type).

Deviation switches (`flags`): each re-reads the text the way a known pySMT defect does.  They are
used ONLY to classify a difference that was already found with all switches off (so that every
difference gets a stable key naming the defect that explains it; an unexplained one stays a
violation).
"""
import itertools
import re
from fractions import Fraction

from pysmt.environment import Environment

from . import refeval as R

FLAGS = ("let-extension-issue159", "let-sequential", "definefun-shadows-binder", "definefun-captures", "undeclared-as-string",
         "quoted-symbol-is-plain-token", "string-escape-literal", "cr-not-whitespace", "pop-keeps-declarations",
         "named-ignored")


class Reject(Exception):
    """The standard says the text is ill-formed (undeclared symbol, lexical error, ...)."""

    def __init__(self, why, what=""):
        Exception.__init__(self, "%s %s" % (why, what))
        self.why = why


class Unsupported(Exception):
    """Outside what this reference reader handles (not a verdict)."""


# ----------------------------------------------------------------------------- lexer / reader
class Sym(object):
    __slots__ = ("name", "quoted")

    def __init__(self, name, quoted=False):
        self.name, self.quoted = name, quoted

    def __repr__(self):
        return "|%s|" % self.name if self.quoted else self.name


class Num(int):
    pass


class Dec(Fraction):
    pass


class BVLit(tuple):
    pass


class Str(str):
    pass


class Kw(str):
    pass


SIMPLE = re.compile(r"^[A-Za-z~!@$%^&*_\-+=<>.?/][0-9A-Za-z~!@$%^&*_\-+=<>.?/]*$")
NUMERAL = re.compile(r"^(0|[1-9][0-9]*)$")
DECIMAL = re.compile(r"^(0|[1-9][0-9]*)\.[0-9]+$")
RESERVED = {"let", "forall", "exists", "!", "_", "as", "par", "match", "BINARY", "DECIMAL", "HEXADECIMAL", "NUMERAL", "STRING"}


def _raw(x, tok):
    x.raw = tok
    return x


def classify(tok, lenient=False):
    if NUMERAL.match(tok):
        return _raw(Num(int(tok)), tok)
    if DECIMAL.match(tok):
        return _raw(Dec(Fraction(tok)), tok)
    if tok.startswith("#b") and len(tok) > 2 and set(tok[2:]) <= set("01"):
        return _raw(BVLit((len(tok) - 2, int(tok[2:], 2))), tok)
    if tok.startswith("#x") and len(tok) > 2 and all(c in "0123456789abcdefABCDEF" for c in tok[2:]):
        return _raw(BVLit((4 * (len(tok) - 2), int(tok[2:], 16))), tok)
    if tok.startswith(":") and SIMPLE.match(tok[1:] or "-") and len(tok) > 1:
        return Kw(tok)
    if SIMPLE.match(tok) or lenient:
        return Sym(tok)
    raise Reject("lexical", repr(tok))


def unescape(s):
    """SMT-LIB 2.6 Strings: \\ud₃d₂d₁d₀, \\u{d₀} ... \\u{d₄d₃d₂d₁d₀}."""
    def rep(m):
        h = m.group(1) or m.group(2)
        v = int(h, 16)
        return chr(v) if v <= 0x2FFFF else m.group(0)
    return re.sub(r"\\u(?:\{([0-9a-fA-F]{1,5})\}|([0-9a-fA-F]{4}))", rep, s)


def tokens(text, flags=()):
    ws = " \t\n" if "cr-not-whitespace" in flags else " \t\n\r"
    out, i, n = [], 0, len(text)
    while i < n:
        c = text[i]
        if c in ws:
            i += 1
        elif c == ";":
            while i < n and text[i] not in ("\n" if "cr-not-whitespace" in flags else "\n\r"):
                i += 1
        elif c in "()":
            out.append(c)
            i += 1
        elif c == '"':
            j, buf = i + 1, []
            while True:
                if j >= n:
                    raise Reject("lexical", "unterminated string")
                if text[j] == '"':
                    if j + 1 < n and text[j + 1] == '"':
                        buf.append('"')
                        j += 2
                        continue
                    break
                buf.append(text[j])
                j += 1
            s = "".join(buf)
            out.append(_raw(Str(s if "string-escape-literal" in flags else unescape(s)), text[i:j + 1]))
            i = j + 1
        elif c == "|":
            j = text.find("|", i + 1)
            if j < 0:
                raise Reject("lexical", "unterminated quoted symbol")
            body = text[i + 1:j]
            if "\\" in body:
                raise Unsupported("backslash inside a quoted symbol (pySMT extension)")
            if "quoted-symbol-is-plain-token" in flags:
                if body in ("(", ")"):
                    out.append(body)
                else:
                    if body.startswith('"') and len(body) > 1:
                        out.append(_raw(Str(body[1:-1].replace('""', '"')), body))
                    else:
                        out.append(classify(body, True))
            else:
                # |abc| and abc are the same symbol; anything else is a symbol only when quoted
                out.append(Sym(body, not (SIMPLE.match(body) and body not in RESERVED)))
            i = j + 1
        else:
            j = i
            while j < n and text[j] not in ws and text[j] not in '();"|':
                j += 1
            out.append(classify(text[i:j], "cr-not-whitespace" in flags))
            i = j
    return out


def read_all(text, flags=()):
    toks = tokens(text, flags)
    stack, top = [], []
    for t in toks:
        if isinstance(t, str) and type(t) is str and t == "(":
            stack.append(top)
            top = []
        elif isinstance(t, str) and type(t) is str and t == ")":
            if not stack:
                raise Reject("syntax", "unbalanced )")
            done, top = top, stack.pop()
            top.append(done)
        else:
            top.append(t)
    if stack:
        raise Reject("syntax", "unbalanced (")
    return top


def is_sym(x, name=None):
    return isinstance(x, Sym) and not x.quoted and (name is None or x.name == name)


# ----------------------------------------------------------------------------- scopes
class Scope(object):
    def __init__(self):
        self.consts = {}      # name -> type
        self.funs = {}        # name -> function type
        self.defs = {}        # name -> (params [(name, type)], ret type, body sexp, Scope at definition)
        self.sorts = {}       # name -> ("decl", decl, arity) | ("alias", params, sexp)
        self.numeral_real = False

    def copy(self):
        s = Scope()
        s.consts, s.funs, s.defs, s.sorts = dict(self.consts), dict(self.funs), dict(self.defs), dict(self.sorts)
        s.numeral_real = self.numeral_real
        return s

    def known(self, n):
        return n in self.consts or n in self.funs or n in self.defs


def logic_numeral_real(name):
    """True when the logic has Reals but no Ints (numerals then denote Reals)."""
    n = name.upper()
    if n.startswith("QF_"):
        n = n[3:]
    ints = any(k in n for k in ("IA", "IDL", "IRA"))
    reals = any(k in n for k in ("RA", "RDL"))
    return reals and not ints


class Item(object):
    """One term of the script with the scope it has to be read in."""

    def __init__(self, cmd_index, kind, arg_index, sexp, scope, params=None, sort=None):
        self.cmd_index, self.kind, self.arg_index = cmd_index, kind, arg_index
        self.sexp, self.scope, self.params, self.sort = sexp, scope, params or [], sort


class _Thunk(object):
    """capture emulation: a let-bound term, re-read where the name is used"""

    def __init__(self, sexp, scope, loc):
        self.sexp, self.scope, self.loc = sexp, scope, loc


class _QVar(object):
    """capture emulation: a quantified variable is the SYMBOL (name, sort); what it denotes is what the
    innermost quantifier over that symbol in force at the place of evaluation gives it"""

    def __init__(self, name, sort):
        self.key = (name, sort)


class Reader(object):
    def __init__(self, text, flags=()):
        self.flags = frozenset(flags)
        self._qdyn = {}
        self.env = Environment()
        self.tm = self.env.type_manager
        self.cmds = read_all(text, self.flags)
        self.items = []
        self.extensions = set()
        self.decls = []          # (cmd_index, name, type)
        self.scope = Scope()
        self.levels = []
        for i, c in enumerate(self.cmds):
            try:
                self.command(i, c)
            except (TypeError, IndexError, AttributeError, ValueError, KeyError) as ex:
                raise Reject("syntax", "malformed command %d: %r" % (i, ex))

    # -- sorts ----------------------------------------------------------------------------------
    def sort(self, x, sc, tparams=None):
        tparams = tparams or {}
        if isinstance(x, Sym):
            n = x.name
            if n in tparams:
                return tparams[n]
            if not x.quoted and n in ("Bool", "Int", "Real", "String"):
                return {"Bool": self.tm.BOOL(), "Int": self.tm.INT(), "Real": self.tm.REAL(), "String": self.tm.STRING()}[n]
            d = sc.sorts.get(n)
            if d is None:
                raise Reject("undeclared-sort", n)
            if d[0] == "decl":
                if d[2] != 0:
                    raise Reject("sort-arity", n)
                return self.tm.get_type_instance(d[1])
            if d[1]:
                raise Reject("sort-arity", n)
            return self.sort(d[2], d[3])
        if isinstance(x, list) and x:
            h = x[0]
            if is_sym(h, "_") and len(x) == 3 and is_sym(x[1], "BitVec") and isinstance(x[2], Num) and x[2] > 0:
                return self.tm.BVType(int(x[2]))
            if is_sym(h, "Array") and len(x) == 3:
                return self.tm.ArrayType(self.sort(x[1], sc, tparams), self.sort(x[2], sc, tparams))
            if isinstance(h, Sym):
                d = sc.sorts.get(h.name)
                if d is None:
                    raise Reject("undeclared-sort", h.name)
                args = [self.sort(a, sc, tparams) for a in x[1:]]
                if d[0] == "decl":
                    if d[2] != len(args) or not args:
                        raise Reject("sort-arity", h.name)
                    return self.tm.get_type_instance(d[1], *args)
                if len(d[1]) != len(args):
                    raise Reject("sort-arity", h.name)
                return self.sort(d[2], d[3], dict(zip(d[1], args)))
        raise Reject("sort-syntax", repr(x))

    # -- commands -------------------------------------------------------------------------------
    def command(self, i, c):
        if not (isinstance(c, list) and c and isinstance(c[0], Sym)):
            raise Reject("syntax", "command expected")
        name, a, sc = c[0].name, c[1:], self.scope
        if name == "set-logic":
            if len(a) == 1 and isinstance(a[0], Sym):
                sc.numeral_real = logic_numeral_real(a[0].name)
        elif name == "declare-sort":
            ar = int(a[1]) if len(a) > 1 else 0
            sc.sorts[a[0].name] = ("decl", self.tm.Type(a[0].name, ar) if ar else self.tm._custom_types_decl.get(a[0].name) or self._decl0(a[0].name), ar)
        elif name == "define-sort":
            sc.sorts[a[0].name] = ("alias", [p.name for p in a[1]], a[2], sc.copy())
        elif name in ("declare-fun", "declare-const"):
            nm = self.symname(a[0])
            if name == "declare-const":
                ps, ret = [], self.sort(a[1], sc)
            else:
                ps, ret = [self.sort(p, sc) for p in a[1]], self.sort(a[2], sc)
            self.shadow(nm)
            if ps:
                sc.funs[nm] = self.tm.FunctionType(ret, ps)
                self.decls.append((i, nm, sc.funs[nm]))
            else:
                sc.consts[nm] = ret
                self.decls.append((i, nm, ret))
        elif name == "define-fun":
            nm = self.symname(a[0])
            ps = [(self.symname(p[0]), self.sort(p[1], sc)) for p in a[1]]
            ret = self.sort(a[2], sc)
            at = sc.copy()
            self.items.append(Item(i, "define-fun", 3, a[3], at, ps, ret))
            self.shadow(nm)
            sc.defs[nm] = (ps, ret, a[3], at)
        elif name == "assert":
            self.items.append(Item(i, "assert", 0, a[0], sc.copy()))
        elif name in ("get-value", "check-sat-assuming"):
            at = sc.copy()
            for k, t in enumerate(a[0]):
                self.items.append(Item(i, name, k, t, at))
        elif name == "push":
            for _ in range(int(a[0]) if a else 1):
                self.levels.append(sc.copy())
        elif name == "pop":
            for _ in range(int(a[0]) if a else 1):
                if not self.levels:
                    raise Reject("pop", "no level")
                old = self.levels.pop()
                if "pop-keeps-declarations" not in self.flags:
                    old.numeral_real = self.scope.numeral_real
                    self.scope = old
        elif name in ("define-fun-rec", "define-funs-rec", "assert-soft", "maximize", "minimize", "minmax", "maxmin",
                      "check-allsat", "get-objectives", "load-objective-model"):
            raise Unsupported(name)
        # every other command carries no term

    def _decl0(self, n):
        self.tm.Type(n, 0)
        return self.tm._custom_types_decl[n]

    def symname(self, x):
        if "quoted-symbol-is-plain-token" in self.flags and hasattr(x, "raw"):
            return x.raw
        if not isinstance(x, Sym):
            raise Reject("syntax", "symbol expected, got %r" % (x,))
        return x.name

    def shadow(self, nm):
        sc = self.scope
        sc.consts.pop(nm, None)
        sc.funs.pop(nm, None)
        sc.defs.pop(nm, None)

    # -- evaluation -----------------------------------------------------------------------------
    def value(self, item, I, param_values=None):
        loc = dict(zip([p for p, _ in item.params], param_values or []))
        self._qdyn = {}
        try:
            return self.ev(item.sexp, item.scope, I, loc)
        except (TypeError, IndexError, AttributeError, ValueError, KeyError) as ex:
            raise Reject("syntax", "malformed term: %r" % (ex,))

    def ev(self, x, sc, I, loc):
        F = self.flags
        if "quoted-symbol-is-plain-token" in F and hasattr(x, "raw") and not isinstance(x, list):
            n = x.raw
            if n in loc:
                return loc[n]
            if n in sc.consts:
                return I.value((n, sc.consts[n]))
        if isinstance(x, Num):
            return Fraction(int(x)) if sc.numeral_real else int(x)
        if isinstance(x, Dec):
            return Fraction(x)
        if isinstance(x, BVLit):
            return R.BV(x[0], x[1])
        if isinstance(x, Str):
            return str(x)
        if isinstance(x, Kw):
            raise Reject("syntax", "keyword as term")
        if isinstance(x, Sym):
            n = x.name
            if "definefun-shadows-binder" in F and n in sc.defs and not sc.defs[n][0]:
                ps, ret, body, at = sc.defs[n]
                return self.ev(body, at, I, {})
            if n in loc:
                return self._local(loc[n], I)
            if not x.quoted and n in ("true", "false"):
                return n == "true"
            if n in sc.consts:
                if "definefun-captures" in F and self._qdyn.get((n, sc.consts[n])):
                    # the constant is the symbol a quantifier in force here binds: captured
                    return self._qdyn[(n, sc.consts[n])][-1]
                return I.value((n, sc.consts[n]))
            if n in sc.defs:
                ps, ret, body, at = sc.defs[n]
                if ps:
                    raise Reject("arity", n)
                if "definefun-captures" in F:
                    # the body is pasted where the name occurs: its free names are captured by
                    # the binders in force there
                    return self.ev(body, at, I, loc)
                return self.ev(body, at, I, {})
            if "undeclared-as-string" in F:
                try:                       # what pySMT does: a number if Python's Fraction accepts the token
                    q = Fraction(n)
                    return q if (q.denominator != 1 or "." in n or sc.numeral_real) else int(q)
                except (ValueError, ZeroDivisionError):
                    return n
            raise Reject("undeclared", n)
        if not x:
            raise Reject("syntax", "()")
        h = x[0]
        if isinstance(h, list):
            if len(h) >= 2 and is_sym(h[0], "_") and isinstance(h[1], Sym):
                return self.indexed(h[1].name, h[2:], [self.ev(a, sc, I, loc) for a in x[1:]])
            if len(h) == 3 and is_sym(h[0], "as") and is_sym(h[1], "const"):
                t = self.sort(h[2], sc)
                if not t.is_array_type() or len(x) != 2:
                    raise Reject("sort", "as const")
                return I.normalize(R.ArrayVal(self.ev(x[1], sc, I, loc), None, I.index_dom(t.index_type)), t)
            raise Unsupported("head %r" % (h,))
        if not isinstance(h, Sym):
            raise Reject("syntax", "head %r" % (h,))
        n = h.name
        if not h.quoted:
            if n == "let":
                if len(set(self.symname(b[0]) for b in x[1])) != len(x[1]) or len(x) != 3 or not x[1]:
                    raise Reject("syntax", "let")
                new = dict(loc)
                if "let-extension-issue159" in F:
                    # pySMT extension (kept for its issue 159): a name that means nothing in the
                    # enclosing scope is visible to the following bindings of the same let
                    seq = dict(loc)
                    for b in x[1]:
                        nm = self.symname(b[0])
                        v = self.ev(b[1], sc, I, seq)
                        if nm not in loc and not sc.known(nm) and nm not in ("true", "false"):
                            seq[nm] = v
                        new[nm] = v
                elif "let-sequential" in F:
                    for b in x[1]:
                        new[self.symname(b[0])] = self.ev(b[1], sc, I, new)
                else:
                    for b in x[1]:
                        v = self.ev(b[1], sc, I, loc)
                        if "definefun-captures" in F:
                            # pySMT binds the name to the TERM: the symbols in it are captured by the
                            # quantifiers in force where the name is used
                            v = _Thunk(b[1], sc, loc)
                        new[self.symname(b[0])] = v
                return self.ev(x[2], sc, I, new)
            if n in ("forall", "exists"):
                vs = [(self.symname(b[0]), self.sort(b[1], sc)) for b in x[1]]
                if len(set(v for v, _ in vs)) != len(vs) or len(x) != 3 or not vs:
                    raise Reject("syntax", n)
                doms = []
                for _, t in vs:
                    d = None
                    if not (t.is_bv_type() and t.width > I.bv_enum_width):
                        d = I.finite_domain(t, I.enum_limit)
                    if d is None:
                        d = I.sample_domain(t)
                    doms.append(d)
                total = 1
                for d in doms:
                    total *= len(d)
                if total > 20000:
                    raise Unsupported("quantifier instance count")
                res = (n == "forall")
                if "definefun-captures" in F:
                    for inst in itertools.product(*doms):
                        new = dict(loc)
                        for (v, t), val in zip(vs, inst):
                            new[v] = _QVar(v, t)
                            self._qdyn.setdefault((v, t), []).append(val)
                        try:
                            b = self.ev(x[2], sc, I, new)
                        finally:
                            for v, t in vs:
                                self._qdyn[(v, t)].pop()
                        if n == "forall" and b is not True:
                            return False
                        if n == "exists" and b is True:
                            return True
                    return res
                for inst in itertools.product(*doms):
                    new = dict(loc)
                    new.update(zip([v for v, _ in vs], inst))
                    b = self.ev(x[2], sc, I, new)
                    if n == "forall" and b is not True:
                        return False
                    if n == "exists" and b is True:
                        return True
                return res
            if n == "!":
                return self.ev(x[1], sc, I, loc)
            if n == "_":
                if len(x) == 3 and isinstance(x[1], Sym) and re.match(r"^bv(0|[1-9][0-9]*)$", x[1].name) and isinstance(x[2], Num):
                    v, w = int(x[1].name[2:]), int(x[2])
                    if w <= 0 or v >= (1 << w):
                        raise Reject("sort", "bv literal out of range")
                    return R.BV(w, v)
                raise Unsupported("(_ %s ...)" % (x[1],))
            if n == "as":
                if len(x) != 3 or not isinstance(x[1], Sym):
                    raise Reject("syntax", "as")
                t = self.sort(x[2], sc)
                nm = x[1].name
                if nm in loc:
                    return self._local(loc[nm], I)
                if nm in sc.consts:
                    if sc.consts[nm] != t:
                        raise Reject("sort", "as")
                    return I.value((nm, t))
                # pySMT extension (listed, not a mis-reading): (as x S) of an undeclared x introduces
                # the constant x of sort S
                self.extensions.add("as-introduces-symbol")
                return I.value((nm, t))
        # user-defined / declared function symbols
        if n in sc.defs and (n not in THEORY or h.quoted):
            ps, ret, body, at = sc.defs[n]
            if len(ps) != len(x) - 1:
                raise Reject("arity", n)
            if "definefun-captures" in F:
                # textual substitution: the actuals are re-read where the formals occur
                new = {p: a for (p, _), a in zip(ps, x[1:])}
                return self._ev_capture(body, at, I, {}, new, sc, loc, {})
            vals = [self.ev(a, sc, I, loc) for a in x[1:]]
            return self.ev(body, at, I, dict(zip([p for p, _ in ps], vals)))
        if n in sc.funs and (n not in THEORY or h.quoted):
            ft = sc.funs[n]
            if len(ft.param_types) != len(x) - 1:
                raise Reject("arity", n)
            vals = tuple(I.normalize(self.ev(a, sc, I, loc), t) for a, t in zip(x[1:], ft.param_types))
            return I.apply((n, ft), vals)
        if h.quoted and "quoted-symbol-is-plain-token" not in F:
            raise Reject("undeclared", n)
        if n == "ite":
            if len(x) != 4:
                raise Reject("arity", n)
            c = self.ev(x[1], sc, I, loc)
            return self.ev(x[2], sc, I, loc) if c is True else self.ev(x[3], sc, I, loc)
        if n in THEORY:
            return THEORY[n](I, [self.ev(a, sc, I, loc) for a in x[1:]])
        if n == "pow":
            raise Unsupported("pow (pySMT extension)")
        if "undeclared-as-string" in F:
            raise Unsupported("application of an unknown name")
        raise Reject("undeclared", n)

    def _local(self, v, I):
        if isinstance(v, _Thunk):
            return self.ev(v.sexp, v.scope, I, v.loc)
        if isinstance(v, _QVar):
            return self._qdyn[v.key][-1]
        return v

    def _ev_capture(self, x, sc, I, loc, thunks, csc, cloc, bound):
        if isinstance(x, Sym) and x.name in thunks and x.name not in loc:
            a = thunks[x.name]
            a_loc = dict(cloc)
            a_loc.update(bound)
            return self.ev(a, csc, I, a_loc)
        if isinstance(x, list) and x and is_sym(x[0]) and x[0].name in ("forall", "exists"):
            vs = [(self.symname(b[0]), self.sort(b[1], sc)) for b in x[1]]
            doms = [I.finite_domain(t, I.enum_limit) if not (t.is_bv_type() and t.width > I.bv_enum_width) else None for _, t in vs]
            doms = [d if d is not None else I.sample_domain(t) for d, (_, t) in zip(doms, vs)]
            res = x[0].name == "forall"
            for inst in itertools.product(*doms):
                new, nb = dict(loc), dict(bound)
                new.update(zip([v for v, _ in vs], inst))
                nb.update(zip([v for v, _ in vs], inst))
                b = self._ev_capture(x[2], sc, I, new, thunks, csc, cloc, nb)
                if res and b is not True:
                    return False
                if not res and b is True:
                    return True
            return res
        if isinstance(x, list) and x and is_sym(x[0], "let"):
            new, nb = dict(loc), dict(bound)
            for b in x[1]:
                v = self._ev_capture(b[1], sc, I, loc, thunks, csc, cloc, bound)
                new[self.symname(b[0])] = v
                nb[self.symname(b[0])] = v
            return self._ev_capture(x[2], sc, I, new, thunks, csc, cloc, nb)
        if isinstance(x, list) and x and isinstance(x[0], Sym) and (x[0].name in THEORY or x[0].name == "ite") and x[0].name not in sc.defs and x[0].name not in sc.funs:
            vals = [self._ev_capture(a, sc, I, loc, thunks, csc, cloc, bound) for a in x[1:]]
            if x[0].name == "ite":
                return vals[1] if vals[0] is True else vals[2]
            return THEORY[x[0].name](I, vals)
        if isinstance(x, list):
            raise Unsupported("capture emulation of %r" % (x[0],))
        return self.ev(x, sc, I, loc)

    def indexed(self, op, idx, vals):
        if not all(isinstance(k, Num) for k in idx):
            raise Reject("syntax", "index")
        idx = [int(k) for k in idx]
        if len(vals) != 1 or not isinstance(vals[0], R.BV):
            raise Reject("sort", op)
        v, w = vals[0], vals[0].width
        if op == "extract" and len(idx) == 2:
            i, j = idx
            if not (w > i >= j >= 0):
                raise Reject("sort", "extract")
            return R.bv_extract(v, i, j)
        if op == "zero_extend" and len(idx) == 1:
            return R.bv_zext(v, idx[0])
        if op == "sign_extend" and len(idx) == 1:
            return R.bv_sext(v, idx[0])
        if op == "rotate_left" and len(idx) == 1:
            return R.bv_rol(v, idx[0])
        if op == "rotate_right" and len(idx) == 1:
            return R.bv_ror(v, idx[0])
        if op == "repeat" and len(idx) == 1 and idx[0] >= 1:
            r = v
            for _ in range(idx[0] - 1):
                r = R.bv_concat(r, v)
            return r
        raise Unsupported("(_ %s)" % op)


# ----------------------------------------------------------------------------- theory operators
def _isnum(v):
    return type(v) is int or type(v) is Fraction


def _nums(n, a, amin=1):
    if len(a) < amin or not all(_isnum(v) for v in a):
        raise Reject("sort", n)
    if any(type(v) is Fraction for v in a):
        return [Fraction(v) for v in a]
    return list(a)


def _bools(n, a, amin=1):
    if len(a) < amin or not all(type(v) is bool for v in a):
        raise Reject("sort", n)
    return a


def _eq(a, b):
    if _isnum(a) and _isnum(b):
        return Fraction(a) == Fraction(b)
    if type(a) is not type(b):
        raise Reject("sort", "=")
    return a == b


def _chain(n, f):
    def g(I, a):
        if len(a) < 2:
            raise Reject("arity", n)
        return all(f(x, y) for x, y in zip(a, a[1:]))
    return g


def _minus(I, a):
    a = _nums("-", a)
    if len(a) == 1:
        return -a[0]
    r = a[0]
    for v in a[1:]:
        r -= v
    return r


def _rdiv(I, a):
    a = [Fraction(v) for v in _nums("/", a, 2)]
    r = a[0]
    for v in a[1:]:
        r = I.div_by_zero("real", r) if v == 0 else r / v
    return r


def _fold(n, f, kind, amin=2):
    def g(I, a):
        a = kind(n, a, amin)
        r = a[0]
        for v in a[1:]:
            r = f(r, v)
        return r
    return g


def _implies(I, a):
    a = _bools("=>", a, 2)
    r = a[-1]
    for v in reversed(a[:-1]):
        r = (not v) or r
    return r


def _bvs(n, a, k):
    if len(a) != k or not all(isinstance(v, R.BV) for v in a):
        raise Reject("sort", n)
    if k == 2 and a[0].width != a[1].width and n != "concat":
        raise Reject("sort", n)
    return a


def _bv2(n, f):
    return lambda I, a: f(*_bvs(n, a, 2))


def _bvn(n, f):
    def g(I, a):
        if len(a) < 2 or not all(isinstance(v, R.BV) for v in a) or len(set(v.width for v in a)) != 1:
            raise Reject("sort", n)
        r = a[0]
        for v in a[1:]:
            r = f(r, v)
        return r
    return g


def _strs(n, a, sig):
    if len(a) != len(sig) or any((type(v) is str) != (s == "s") or (s == "i" and type(v) is not int) for v, s in zip(a, sig)):
        raise Reject("sort", n)
    return a


def _select(I, a):
    if len(a) != 2 or not isinstance(a[0], R.ArrayVal):
        raise Reject("sort", "select")
    return a[0].get(a[1])


def _store(I, a):
    if len(a) != 3 or not isinstance(a[0], R.ArrayVal):
        raise Reject("sort", "store")
    return a[0].set(a[1], a[2])


def _distinct(I, a):
    if len(a) < 2:
        raise Reject("arity", "distinct")
    return all(not _eq(x, y) for i, x in enumerate(a) for y in a[i + 1:])


def _to_real(I, a):
    if len(a) != 1 or not _isnum(a[0]):
        raise Reject("sort", "to_real")
    return Fraction(a[0])


def _ints(n, a, k):
    if len(a) != k or not all(type(v) is int for v in a):
        raise Reject("sort", n)
    return a


THEORY = {
    "not": lambda I, a: not _bools("not", a)[0] if len(a) == 1 else (_ for _ in ()).throw(Reject("arity", "not")),
    "and": lambda I, a: all(_bools("and", a, 1)),          # pySMT also reads (and x): listed extension
    "or": lambda I, a: any(_bools("or", a, 1)),
    "xor": _fold("xor", lambda x, y: x != y, _bools),
    "=>": _implies,
    "<->": _fold("<->", lambda x, y: x == y, _bools),       # pySMT extension
    "=": _chain("=", _eq),
    "distinct": _distinct,
    "+": _fold("+", lambda x, y: x + y, _nums, 1),
    "*": _fold("*", lambda x, y: x * y, _nums, 1),
    "-": _minus,
    "/": _rdiv,
    "<": _chain("<", lambda x, y: Fraction(x) < Fraction(y)),
    "<=": _chain("<=", lambda x, y: Fraction(x) <= Fraction(y)),
    ">": _chain(">", lambda x, y: Fraction(x) > Fraction(y)),
    ">=": _chain(">=", lambda x, y: Fraction(x) >= Fraction(y)),
    "to_real": _to_real,
    "div": lambda I, a: (lambda v: I.div_by_zero("int", v[0]) if v[1] == 0 else R.int_div(v[0], v[1]))(_ints("div", a, 2)),
    "mod": lambda I, a: (lambda v: v[0] if v[1] == 0 else R.int_mod(v[0], v[1]))(_ints("mod", a, 2)),
    "abs": lambda I, a: abs(_ints("abs", a, 1)[0]),
    "concat": _bv2("concat", R.bv_concat),
    "bvnot": lambda I, a: R.bv_not(*_bvs("bvnot", a, 1)),
    "bvneg": lambda I, a: R.bv_neg(*_bvs("bvneg", a, 1)),
    "bvand": _bvn("bvand", R.bv_and), "bvor": _bvn("bvor", R.bv_or), "bvadd": _bvn("bvadd", R.bv_add),
    "bvmul": _bvn("bvmul", R.bv_mul), "bvxor": _bvn("bvxor", R.bv_xor),
    "bvudiv": _bv2("bvudiv", R.bv_udiv), "bvurem": _bv2("bvurem", R.bv_urem), "bvshl": _bv2("bvshl", R.bv_shl),
    "bvlshr": _bv2("bvlshr", R.bv_lshr), "bvsub": _bv2("bvsub", R.bv_sub), "bvult": _bv2("bvult", R.bv_ult),
    "bvnand": _bv2("bvnand", lambda x, y: R.bv_not(R.bv_and(x, y))),
    "bvnor": _bv2("bvnor", lambda x, y: R.bv_not(R.bv_or(x, y))),
    "bvxnor": _bv2("bvxnor", lambda x, y: R.bv_not(R.bv_xor(x, y))),
    "bvcomp": _bv2("bvcomp", R.bv_comp), "bvsdiv": _bv2("bvsdiv", R.bv_sdiv), "bvsrem": _bv2("bvsrem", R.bv_srem),
    "bvsmod": _bv2("bvsmod", R.bv_smod), "bvashr": _bv2("bvashr", R.bv_ashr),
    "bvule": _bv2("bvule", R.bv_ule), "bvugt": _bv2("bvugt", lambda x, y: R.bv_ult(y, x)),
    "bvuge": _bv2("bvuge", lambda x, y: R.bv_ule(y, x)), "bvslt": _bv2("bvslt", R.bv_slt),
    "bvsle": _bv2("bvsle", R.bv_sle), "bvsgt": _bv2("bvsgt", lambda x, y: R.bv_slt(y, x)),
    "bvsge": _bv2("bvsge", lambda x, y: R.bv_sle(y, x)),
    "bv2nat": lambda I, a: _bvs("bv2nat", a, 1)[0].value,
    "select": _select, "store": _store,
    "str.len": lambda I, a: R.str_len(*_strs("str.len", a, "s")),
    "str.++": lambda I, a: R.str_concat(*a) if len(a) >= 2 and all(type(v) is str for v in a) else (_ for _ in ()).throw(Reject("sort", "str.++")),
    "str.at": lambda I, a: R.str_at(*_strs("str.at", a, "si")),
    "str.substr": lambda I, a: R.str_substr(*_strs("str.substr", a, "sii")),
    "str.prefixof": lambda I, a: R.str_prefixof(*_strs("str.prefixof", a, "ss")),
    "str.suffixof": lambda I, a: R.str_suffixof(*_strs("str.suffixof", a, "ss")),
    "str.contains": lambda I, a: R.str_contains(*_strs("str.contains", a, "ss")),
    "str.indexof": lambda I, a: R.str_indexof(*_strs("str.indexof", a, "ssi")),
    "str.replace": lambda I, a: R.str_replace(*_strs("str.replace", a, "sss")),
    "str.to_int": lambda I, a: R.str_to_int(*_strs("str.to_int", a, "s")),
    "str.to.int": lambda I, a: R.str_to_int(*_strs("str.to.int", a, "s")),      # 2.5-draft name
    "str.from_int": lambda I, a: R.str_from_int(*_ints("str.from_int", a, 1)),
    "int.to.str": lambda I, a: R.str_from_int(*_ints("int.to.str", a, 1)),     # 2.5-draft name
}


def values_equal(a, b):
    if _isnum(a) and _isnum(b):
        return Fraction(a) == Fraction(b)
    return type(a) is type(b) and a == b
