"""C16 - scripts and incremental solvers track exactly the live assertions.

Proof: coq/props/C16.v (refinement of models/Script.v and models/TrackSolver.v to the
SMT-LIB assertion stack of models/AssertStack.v, for every legal command list).
Correspondence: the same command lists run on SmtLibScript / on a brute-force
IncrementalTrackingSolver subclass and inside Coq (vm_compute).
Oracle: `RefStack` below, a direct implementation of the SMT-LIB assertion stack that
shares nothing with the Coq model or with pysmt.
"""
import json
import os
import random

from . import gen_all, lib

TRUSTED = [
    "Coq 8.16.1 kernel; vm_compute only in the generated case files (model evaluation), not in proofs",
    "hand models models/Script.v (get_last_formula, get_strict_formula) and models/TrackSolver.v "
    "(IncrementalTrackingSolver + is_sat/is_valid/is_unsat + clear_pending_pop, incl. the calls in which the native "
    "solver answers unknown and the call raises), tied to the code by the "
    "correspondence of this run (counts below): every legal command list up to the enumeration bound, "
    "every one-step illegal extension (scripts), random lists up to length 60; the model is per solver instance "
    "and is run for each of the 2-3 instances that are alive together in the interleaved families",
    "spec models/AssertStack.v (SMT-LIB 2.6 assertion stack, 4.1.4 / push, pop, reset-assertions in 4.2.2; "
    "objectives and assert-soft scoped like assertions, as in the OMT extensions)",
    "the Script model keeps a MaxSMTGoal object only in `goals` and its position in the dict (aliasing "
    "goals[position] is dict[id].goal is an invariant of the code, exercised by the correspondence)",
    "harness-defined BruteForceSolver: decorator pattern copied from pysmt/solvers/z3.py (clear_pending_pop on "
    "_reset_assertions/_add_assertion/_solve/_push/_pop; non-literal assumptions asserted on a pushed level)",
]
ASSUMPTIONS = [
    "solver side: with options.incremental=False is_sat asserts permanently by design and the solver refuses further "
    "solving (checked by a probe against that documentation); histories with one-shot queries are therefore run with "
    "incremental=True, query-free histories under both values; the Coq model has no options",
    "solver side: the subclass marks either its proxy methods (z3.py/msat.py/btor.py) or its public methods "
    "(yices.py/pico.py/bdd.py) with clear_pending_pop; both styles are run",
    "commands outside {assert, assert-soft, minimize, maximize, minmax, maxmin, push, pop, reset-assertions, "
    "check-sat} are treated as not touching the assertion stack (`reset` is not handled by get_last_formula "
    "and is outside the property's alphabet)",
    "legal = never pop more levels than are currently pushed (since the last reset-assertions)",
]
RULE = ("DFS enumeration of ALL legal command lists up to the tier's length over a 16-symbol alphabet per side "
        "(scripts: assert a/b, assert-soft id x/y/none with weights, minimize/maximize, push 0-2, pop 0-2, "
        "reset-assertions, check-sat; solver: add a/b, push 0-2, pop 0-2, reset_assertions, solve(), "
        "solve([literal]), solve([non-literal]), is_sat, is_valid, is_unsat, read assertions), every illegal "
        "one-step extension of a legal script, plus random legal lists (length 5..60, push-heavy / pop-heavy "
        "/ soft-heavy profiles, minmax/maxmin included); thorough adds length 5 and length 6 over 8-symbol "
        "sub-alphabets; implementation + oracle run on every list, the Coq model on every list up to length 3, "
        "a seeded half (thorough: all) of the length-4 lists, every random list and (thorough) a seeded 15% sample of "
        "the longer enumerated ones. Solver instances alive TOGETHER "
        "(state shared between objects): every interleaving up to length 5 (6 thorough) of two instances over "
        "{add, push 1, pop 1, is_sat} each with a legal history per instance (instances created at first use), "
        "600 (8000) random interleavings of 2-3 independent random legal histories (all created up front / lazily / "
        "one created while the others are mid-history; every third run reads `assertions` of every instance after "
        "every step), and a new instance after / next to a dirty one (open levels, pending pop): each instance is "
        "compared with its own reference stack and its own run of the Coq model, a new instance with t_init, and no "
        "step may change another instance. Unknown answers: every legal history up to the bound over a 9-symbol "
        "alphabet with is_sat/is_valid/solve calls that raise SolverReturnedUnknownResultError. "
        "Configurations (the reference stack and the model have no options, so the raw trace must equal the default "
        "one): constructor options generate_models, incremental, unsat_cores_mode None/all/named, random_seed, "
        "solver_options x hook style (clear_pending_pop on the proxy methods / on the public methods): every history "
        "up to length 3, the corpus and the dirty/fresh schedules under each of the 7 single-option flips; every "
        "third (thorough: every) length-4 history, every fourth longer one, every random history and unknown-answer history under one of the "
        "95 non-default combinations (cyclic); every enumerated interleaving under one flip; random interleavings with a "
        "random combination per instance; a probe of the documented non-incremental behaviour. "
        "The run stops generating after 50 violations/anomalies; a watchdog (RSS 4 GB, quick: 15 min) turns a blow-up "
        "into a reported violation; distinct = distinct command lists / schedules")

# ---------------------------------------------------------------------------------------
# the independent oracle: SMT-LIB assertion stack
# ---------------------------------------------------------------------------------------


class RefStack(object):
    """Non-empty list of levels; each level a list of items
    ('assert', f) | ('obj', kind, t) | ('soft', id, f, w)."""

    def __init__(self):
        self.levels = [[]]

    def add(self, item):
        self.levels[-1].append(item)

    def push(self, n):
        for _ in range(n):
            self.levels.append([])

    def can_pop(self, n):
        return n <= len(self.levels) - 1

    def pop(self, n):
        if not self.can_pop(n):
            raise ValueError("illegal pop")
        for _ in range(n):
            self.levels.pop()

    def reset(self):
        self.levels = [[]]

    def live(self):
        return [x for lv in self.levels for x in lv]

    def assertions(self):
        return [x[1] for x in self.live() if x[0] == "assert"]

    def goals(self):
        out, seen = [], set()
        live = self.live()
        for x in live:
            if x[0] == "obj":
                out.append(("obj", x[1], x[2]))
            elif x[0] == "soft" and x[1] not in seen:
                seen.add(x[1])
                out.append(("soft", [(y[2], y[3]) for y in live if y[0] == "soft" and y[1] == x[1]]))
        return out


def ref_script(tokens):
    """-> (legal, assertions, goals, fresh_soft_popped, assert_before_reset)."""
    r = RefStack()
    fresh = False            # a pop discards a soft goal for which no push happened since its creation
    pushed_since = {}        # soft id -> pushed since creation (for ids live now)
    abr = False
    for t in tokens:
        k = t[0]
        if k == "assert":
            r.add(("assert", t[1]))
        elif k == "soft":
            if not any(x[0] == "soft" and x[1] == t[1] for x in r.live()):
                pushed_since[t[1]] = False
            r.add(("soft", t[1], t[2], t[3]))
        elif k == "obj":
            r.add(("obj", t[1], t[2]))
        elif k == "push":
            for _ in range(t[1]):
                r.push(1)
                for i in pushed_since:
                    pushed_since[i] = True
        elif k == "pop":
            if not r.can_pop(t[1]):
                return (False, None, None, fresh, abr)
            for _ in range(t[1]):
                before = set(x[1] for x in r.live() if x[0] == "soft")
                r.pop(1)
                after = set(x[1] for x in r.live() if x[0] == "soft")
                for i in before - after:
                    if not pushed_since.pop(i):
                        fresh = True
        elif k == "reset":
            if r.assertions():
                abr = True
            r.reset()
            pushed_since = {}
    return (True, r.assertions(), r.goals(), fresh, abr)


# ---------------------------------------------------------------------------------------
# implementation side: scripts
# ---------------------------------------------------------------------------------------

SCRIPT_ALPHABET = [
    ("assert", 0), ("assert", 1),
    ("soft", 1, 0, 1), ("soft", 1, 1, 2), ("soft", 2, 1, 1), ("soft", 0, 0, 1),
    ("obj", "min", 2), ("obj", "max", 3),
    ("push", 0), ("push", 1), ("push", 2), ("pop", 0), ("pop", 1), ("pop", 2),
    ("reset",), ("check",),
]
SCRIPT_EXTRA = [("obj", "minmax", 4), ("obj", "maxmin", 4), ("other",), ("soft", 2, 0, 2), ("soft", 0, 1, 2),
                ("push", 3), ("pop", 3)]
SOLVER_ALPHABET = [
    ("add", 0), ("add", 1), ("push", 0), ("push", 1), ("push", 2), ("pop", 0), ("pop", 1), ("pop", 2),
    ("reset",), ("solve", None), ("solve", "lit"), ("solve", "other"),
    ("is_sat", 0), ("is_valid", 1), ("is_unsat", 0), ("obs",),
]
SOLVER_EXTRA = [("solve", "other2"), ("is_sat", 1), ("is_valid", 0), ("is_unsat", 1), ("push", 3), ("pop", 3),
                ("solve_unk", None), ("solve_unk", "other"), ("is_sat_unk", 0), ("is_valid_unk", 1), ("is_unsat_unk", 1)]
# second exhaustive family: the native solver answers "unknown" (the call raises) in the middle of a history
UNKNOWN_ALPHABET = [("add", 0), ("push", 1), ("pop", 1), ("reset",), ("is_sat", 1), ("obs",),
                    ("is_sat_unk", 0), ("is_valid_unk", 1), ("solve_unk", "other")]
# several solver instances alive at once: per-instance alphabet of the exhaustive interleavings
MULTI_ALPHABET = [("add", 0), ("push", 1), ("pop", 1), ("is_sat", 1)]
# a new instance after (and next to) a dirty one: levels left open, pending pop
DIRTY_HISTORIES = [
    [("push", 2), ("add", 0), ("add", 1), ("is_sat", 0)],
    [("add", 0), ("push", 1), ("add", 1), ("solve", "other")],
    [("add", 1), ("push", 3)],
    [("push", 1), ("add", 0), ("is_valid_unk", 1)],
]
FRESH_HISTORY = [("add", 1), ("push", 1), ("add", 0), ("obs",), ("pop", 1), ("is_unsat", 0)]

KIND_COQ = {"min": "KMin", "max": "KMax", "minmax": "KMinMax", "maxmin": "KMaxMin"}
ID_NAME = {1: "x", 2: "y"}


class Impl(object):
    """Everything that touches pysmt."""

    def __init__(self):
        import pysmt.smtlib.commands as smtcmd
        from pysmt.environment import get_env
        from pysmt.smtlib.script import SmtLibScript, SmtLibCommand
        from pysmt.typing import BOOL, INT
        from pysmt.optimization import goal as G
        from pysmt.exceptions import PysmtValueError
        self.smtcmd, self.SmtLibScript, self.SmtLibCommand, self.G = smtcmd, SmtLibScript, SmtLibCommand, G
        self.PysmtValueError = PysmtValueError
        self.env = get_env()
        mgr = self.mgr = self.env.formula_manager
        a, b = mgr.Symbol("a", BOOL), mgr.Symbol("b", BOOL)
        m, n = mgr.Symbol("m", INT), mgr.Symbol("n", INT)
        self.form = {0: a, 1: b, 2: m, 3: n}
        self.fid = {a: 0, b: 1, m: 2, n: 3, mgr.Not(a): 10, mgr.Not(b): 11, mgr.Or(a, b): 5,
                    mgr.And(mgr.Or(a, b), mgr.Iff(a, b)): 6}
        self.assume = {None: None, "lit": [mgr.Not(a)], "other": [a, mgr.Or(a, b)],
                       "other2": [mgr.Or(a, b), mgr.Iff(a, b)]}
        self.termlist = [m, n]

        class ListMgr(object):
            """And-ing is the manager's job: hand back the argument list."""
            def And(self_, *args):
                if len(args) == 1 and isinstance(args[0], (list, tuple)):
                    args = args[0]
                return ("AND", tuple(args))

            def Int(self_, v):
                return mgr.Int(v)
        self.listmgr = ListMgr()
        self.BruteForceSolver = make_solver_class()
        self.solver_classes = {"hooks": self.BruteForceSolver, "public": make_solver_class(decorate_hooks=False)}

    # -- scripts ----------------------------------------------------------------------
    def command(self, t):
        c, k = self.smtcmd, t[0]
        mk = self.SmtLibCommand
        if k == "assert":
            return mk(c.ASSERT, [self.form[t[1]]])
        if k == "soft":
            opts = []
            if t[1]:
                opts.append((":id", ID_NAME[t[1]]))
            if t[3] != 1:
                opts.append((":weight", self.mgr.Int(t[3])))
            return mk(c.ASSERT_SOFT, [self.form[t[2]], opts])
        if k == "obj":
            name = {"min": c.MINIMIZE, "max": c.MAXIMIZE, "minmax": c.MINMAX, "maxmin": c.MAXMIN}[t[1]]
            arg = self.termlist if t[2] == 4 else self.form[t[2]]
            return mk(name, [arg, []])
        if k == "push":
            return mk(c.PUSH, [t[1]])
        if k == "pop":
            return mk(c.POP, [t[1]])
        if k == "reset":
            return mk(c.RESET_ASSERTIONS, [])
        if k == "check":
            return mk(c.CHECK_SAT, [])
        return mk(c.GET_MODEL, [])

    def script(self, tokens):
        s = self.SmtLibScript()
        for t in tokens:
            s.add_command(self.command(t))
        return s

    def _exc(self, ex):
        if isinstance(ex, IndexError):
            return "IndexError"
        if isinstance(ex, KeyError):
            return "KeyError"
        if isinstance(ex, self.PysmtValueError):
            return "ValueError"
        return "OtherError"

    def decode_goal(self, g):
        G = self.G
        if isinstance(g, G.MaxSMTGoal):
            return ("soft", [(self.fid[f], int(w.constant_value())) for (f, w) in g.soft])
        if isinstance(g, G.MinMaxGoal):
            return ("obj", "minmax", 4 if list(g.terms) == self.termlist else 99)
        if isinstance(g, G.MaxMinGoal):
            return ("obj", "maxmin", 4 if list(g.terms) == self.termlist else 99)
        if isinstance(g, G.MinimizationGoal):
            return ("obj", "min", self.fid[g.formula])
        if isinstance(g, G.MaximizationGoal):
            return ("obj", "max", self.fid[g.formula])
        return ("obj", "min", 98)

    def last_formula(self, tokens):
        """-> ('ok', [assertion ids], [goals]) | ('err', name)"""
        try:
            f, goals = self.script(tokens).get_last_formula(mgr=self.listmgr, return_optimizations=True)
            return ("ok", [self.fid[x] for x in f[1]], [self.decode_goal(g) for g in goals])
        except Exception as ex:  # mapped to the model's error enum
            return ("err", self._exc(ex))

    def strict_formula(self, tokens):
        try:
            f = self.script(tokens).get_strict_formula(mgr=self.listmgr)
            return ("ok", [self.fid[x] for x in f[1]])
        except Exception as ex:
            return ("err", self._exc(ex))

    # -- solver(s) --------------------------------------------------------------------
    def new_solver(self, cfg=None):
        from pysmt.logics import QF_BOOL
        cfg = cfg or DEFAULT_CONFIG
        kw = dict((k, cfg[k]) for k in ("generate_models", "incremental", "unsat_cores_mode", "random_seed", "solver_options")
                  if cfg[k] != DEFAULT_CONFIG[k])
        return self.solver_classes[cfg["style"]](self.env, QF_BOOL, **kw)

    def run_multi(self, schedule, observe_all=False, configs=None):
        """Several BruteForceSolver instances alive at once.  schedule: list of (j, token); solver j is created
        at its first entry (token ('new',) only creates it).  Every instance has its own reference stack; after
        the schedule `assertions` of every instance is read (as an explicit ('obs',) step of that instance).
        -> (cmds, traces, problems, anomalies):
           cmds[j]   tokens executed on solver j (incl. the inserted reads), up to its first exception
           traces[j] per executed token ('ok', stack ids, points, pending) | ('err', name)
           problems  property-level: wrong `assertions`, wrong answer, exception on a legal history
           anomalies raw-state: a new instance not in the initial state, an instance changed by a step on
                     another one, a state larger than any history of this length creates"""
        from pysmt.logics import QF_BOOL
        from pysmt.exceptions import SolverReturnedUnknownResultError
        solvers, refs, dead = {}, {}, set()
        cmds, traces, problems, anomalies = {}, {}, [], []
        a, b = self.form[0], self.form[1]
        cap = 3 * len(schedule) + 8
        fid = self.fid

        def ids(fs):
            return [fid.get(x, str(x)) for x in fs]

        def sat(fs):
            return brute_sat(self.mgr, [a, b], fs)

        def raw(s, who):
            st, bp = s._assertion_stack, s._backtrack_points
            if len(st) > cap or len(bp) > cap:
                anomalies.append("%s: raw state has %d assertions / %d backtrack points, more than any history of "
                                 "%d steps creates (state shared between instances?)" % (who, len(st), len(bp), len(schedule)))
            return ([fid.get(x, 97) for x in st[:cap]], list(bp[:cap]), bool(s.pending_pop))

        def create(j):
            s = solvers[j] = self.new_solver((configs or {}).get(j))
            refs[j], cmds[j], traces[j] = RefStack(), [], []
            r = raw(s, "new solver %d" % j)
            if r != ([], [], False):
                anomalies.append("a NEW solver instance (%d) starts with _assertion_stack=%s _backtrack_points=%s "
                                 "pending_pop=%s instead of [], [], False" % (j, r[0], r[1][:12], r[2]))

        def observe(j, where):
            s, ref = solvers[j], refs[j]
            got = list(s.assertions)
            if got != ref.assertions():
                problems.append("%s: solver %d: assertions = %s, live assertions = %s"
                                % (where, j, ids(got), ids(ref.assertions())))
            if s.native.live() != ref.assertions():
                problems.append("%s: solver %d: the native solver holds %s, live assertions = %s"
                                % (where, j, ids(s.native.live()), ids(ref.assertions())))

        def step(j, t, g):
            if j in dead:
                return
            s, ref, k = solvers[j], refs[j], t[0]
            where = "step %d (solver %d: %s)" % (g, j, " ".join(str(x) for x in t))
            cmds[j].append(t)
            try:
                if k == "add":
                    s.add_assertion(self.form[t[1]])
                    ref.add(("assert", self.form[t[1]]))
                elif k == "push":
                    s.push(t[1])
                    ref.push(t[1])
                elif k == "pop":
                    ref.pop(t[1])
                    s.pop(t[1])
                elif k == "reset":
                    s.reset_assertions()
                    ref.reset()
                elif k == "solve":
                    ass = self.assume[t[1]]
                    r = s.solve(ass) if ass is not None else s.solve()
                    if r != sat(ref.assertions() + (ass or [])):
                        problems.append("%s: solve answered %s on live assertions %s" % (where, r, ids(ref.assertions())))
                elif k in ("is_sat", "is_valid", "is_unsat"):
                    f = self.form[t[1]]
                    r = getattr(s, k)(f)
                    base = ref.assertions()
                    exp = {"is_sat": sat(base + [f]), "is_unsat": not sat(base + [f]),
                           "is_valid": not sat(base + [self.mgr.Not(f)])}[k]
                    if r != exp:
                        problems.append("%s: %s answered %s on live assertions %s" % (where, k, r, ids(base)))
                elif k in ("solve_unk", "is_sat_unk", "is_valid_unk", "is_unsat_unk"):
                    s.answer_unknown = True
                    try:
                        if k == "solve_unk":
                            ass = self.assume[t[1]]
                            s.solve(ass) if ass is not None else s.solve()
                        else:
                            getattr(s, k[:-4])(self.form[t[1]])
                        problems.append("%s: harness error: the call did not raise" % where)
                    except SolverReturnedUnknownResultError:
                        pass
                    finally:
                        s.answer_unknown = False
                elif k == "obs":
                    observe(j, where)
            except Exception as ex:
                traces[j].append(("err", self._exc(ex)))
                problems.append("%s: raised %s: %s" % (where, type(ex).__name__, ex))
                dead.add(j)
                return
            traces[j].append(("ok",) + raw(s, where))

        for g, (j, t) in enumerate(schedule):
            if j not in solvers:
                create(j)
            if t[0] == "new":
                continue
            others = [(i, (list(solvers[i]._assertion_stack), list(solvers[i]._backtrack_points[:cap + 1]),
                           solvers[i].pending_pop)) for i in solvers if i != j] if len(solvers) > 1 else []
            step(j, t, g)
            for i, before in others:
                now = (list(solvers[i]._assertion_stack), list(solvers[i]._backtrack_points[:cap + 1]), solvers[i].pending_pop)
                if now != before:
                    anomalies.append("step %d on solver %d (%s) changed the state of solver %d: _backtrack_points %s -> %s"
                                     % (g, j, " ".join(str(x) for x in t), i, before[1][:12], now[1][:12]))
            if observe_all:
                for i in sorted(solvers):
                    step(i, ("obs",), g)
        for i in sorted(solvers):
            step(i, ("obs",), len(schedule))
        return cmds, traces, problems, anomalies

    def nonincremental_probe(self):
        """options.incremental=False, as documented in Solver.is_sat: the formula is asserted (for good) and solved,
        and the solver refuses any further solve()/is_sat().  -> [(message, history, config)]"""
        from pysmt.exceptions import SolverStatusError
        out = []
        a, b = self.form[0], self.form[1]
        for style in ("hooks", "public"):
            cfg = dict(DEFAULT_CONFIG, style=style, incremental=False)
            hist = [("add", 1), ("is_sat", 0)]
            try:
                s = self.new_solver(cfg)
                s.add_assertion(b)
                r = s.is_sat(a)
                if r is not True:
                    out.append(("non-incremental is_sat(a) after add_assertion(b) answered %s" % r, hist, cfg))
                if list(s.assertions) != [b, a] or s._backtrack_points != [] or s.pending_pop:
                    out.append(("non-incremental is_sat: assertions = %s, _backtrack_points = %s, pending_pop = %s; documented: the "
                                "formula is asserted and solved, no level is opened" % ([self.fid.get(x, str(x)) for x in s.assertions],
                                                                                         s._backtrack_points, s.pending_pop), hist, cfg))
                for name, call in (("solve", lambda: s.solve()), ("is_sat", lambda: s.is_sat(b)),
                                   ("is_valid", lambda: s.is_valid(b)), ("is_unsat", lambda: s.is_unsat(b))):
                    try:
                        call()
                        out.append(("non-incremental: %s() after is_sat did not raise SolverStatusError" % name, hist + [(name, 1)], cfg))
                    except SolverStatusError:
                        pass
                if list(s.assertions) != [b, a]:
                    out.append(("non-incremental: refused calls changed the assertion list", hist, cfg))
            except Exception as ex:
                out.append(("non-incremental probe raised %s: %s" % (type(ex).__name__, ex), hist, cfg))
        return out

    def run_solver(self, tokens):
        """One solver, one history -> (cmds, trace, problems, anomalies)."""
        cmds, traces, problems, anomalies = self.run_multi([(0, t) for t in tokens] or [(0, ("new",))])
        return cmds[0], traces[0], problems, anomalies


_SAT_CACHE = {}


def brute_sat(mgr, syms, formulas):
    """Truth-table satisfiability of a conjunction over the given Boolean symbols."""
    key = (id(mgr), tuple(syms), frozenset(formulas))
    if key not in _SAT_CACHE:
        _SAT_CACHE[key] = _brute_sat(mgr, syms, formulas)
    return _SAT_CACHE[key]


def _brute_sat(mgr, syms, formulas):
    import itertools
    f = mgr.And(formulas)
    for vals in itertools.product([False, True], repeat=len(syms)):
        sub = dict((s, mgr.Bool(v)) for s, v in zip(syms, vals))
        if f.substitute(sub).simplify().is_true():
            return True
    return False


class NativeStack(object):
    """The 'native solver' behind the proxy methods: a strict SMT-LIB assertion stack."""

    def __init__(self):
        self.levels = [[]]

    def live(self):
        return [x for lv in self.levels for x in lv]


def make_solver_class(decorate_hooks=True):
    """decorate_hooks=True: @clear_pending_pop on the proxy methods _reset_assertions/_add_assertion/_solve/_push/_pop
    (z3.py, msat.py, btor.py).  False: plain proxy methods and @clear_pending_pop on the PUBLIC methods instead (the
    style of yices.py / pico.py / bdd.py), each delegating to IncrementalTrackingSolver."""
    from pysmt.decorators import clear_pending_pop as _cpp
    clear_pending_pop = _cpp if decorate_hooks else (lambda f: f)
    from pysmt.exceptions import SolverReturnedUnknownResultError
    from pysmt.logics import QF_BOOL
    from pysmt.solvers.options import SolverOptions
    from pysmt.solvers.solver import IncrementalTrackingSolver

    class Opts(SolverOptions):
        def __call__(self, solver):
            pass

    class BruteForceSolver(IncrementalTrackingSolver):
        """Truth-table solver for Boolean formulas, structured like pysmt/solvers/z3.py."""
        LOGICS = [QF_BOOL]
        OptionsClass = Opts

        def __init__(self, environment, logic, **options):
            IncrementalTrackingSolver.__init__(self, environment=environment, logic=logic, **options)
            self.mgr = environment.formula_manager
            self.native = NativeStack()
            self.answer_unknown = False      # set by the harness: the next _solve answers "unknown"
            self.options(self)

        @clear_pending_pop
        def _reset_assertions(self):
            self.native.levels = [[]]

        @clear_pending_pop
        def _add_assertion(self, formula, named=None):
            self.native.levels[-1].append(formula)
            return formula

        @clear_pending_pop
        def _solve(self, assumptions=None):
            lits = []
            if assumptions is not None:
                other = []
                for x in assumptions:
                    if x.is_literal():
                        lits.append(x)
                    else:
                        other.append(x)
                if len(other) > 0:
                    self.push()
                    self.add_assertion(self.mgr.And(other))
                    self.pending_pop = True
            if self.answer_unknown:
                raise SolverReturnedUnknownResultError
            syms = set()
            for f in self.native.live() + lits:
                syms |= set(f.get_free_variables())
            return brute_sat(self.mgr, sorted(syms, key=str), self.native.live() + lits)

        @clear_pending_pop
        def _push(self, levels=1):
            for _ in range(levels):
                self.native.levels.append([])

        @clear_pending_pop
        def _pop(self, levels=1):
            for _ in range(levels):
                if len(self.native.levels) <= 1:
                    raise RuntimeError("native solver: pop without a matching push")
                self.native.levels.pop()

        def _exit(self):
            pass

    if decorate_hooks:
        return BruteForceSolver

    class PublicStyleSolver(BruteForceSolver):
        @_cpp
        def reset_assertions(self):
            return IncrementalTrackingSolver.reset_assertions(self)

        @_cpp
        def add_assertion(self, formula, named=None):
            return IncrementalTrackingSolver.add_assertion(self, formula, named=named)

        @_cpp
        def solve(self, assumptions=None):
            return IncrementalTrackingSolver.solve(self, assumptions)

        @_cpp
        def push(self, levels=1):
            return IncrementalTrackingSolver.push(self, levels)

        @_cpp
        def pop(self, levels=1):
            return IncrementalTrackingSolver.pop(self, levels)

    return PublicStyleSolver


# ---------------------------------------------------------------------------------------
# configurations: constructor options the base classes accept x hook style.  The reference stack and the
# Coq model have no options: the trace of a history must not depend on the configuration.
# (pysmt/solvers/solver.py reads self.options.incremental in is_sat and self.options.unsat_cores_mode in
#  UnsatCoreSolver; options.py validates generate_models, incremental, unsat_cores_mode, random_seed,
#  solver_options; decorators.py reads no option.)
# ---------------------------------------------------------------------------------------
OPTION_AXES = [
    ("style", ["hooks", "public"]),
    ("generate_models", [True, False]),
    ("incremental", [True, False]),
    ("unsat_cores_mode", [None, "all", "named"]),
    ("random_seed", [None, 7]),
    ("solver_options", [None, {"verbosity": "1"}]),
]
DEFAULT_CONFIG = dict((k, v[0]) for k, v in OPTION_AXES)
QUERY_TOKENS = ("is_sat", "is_valid", "is_unsat", "is_sat_unk", "is_valid_unk", "is_unsat_unk")


def single_flip_configs():
    out = []
    for k, vals in OPTION_AXES:
        for v in vals[1:]:
            c = dict(DEFAULT_CONFIG)
            c[k] = v
            out.append(c)
    return out


def all_configs():
    import itertools
    keys = [k for k, _ in OPTION_AXES]
    out = [dict(zip(keys, vs)) for vs in itertools.product(*[v for _, v in OPTION_AXES])]
    return [c for c in out if c != DEFAULT_CONFIG]


def legal_config(cfg, tokens):
    """incremental=False is documented as `assert and solve once`: is_sat there keeps the formula and disables
    further solving, so histories with one-shot queries are run with incremental=True (the documented
    non-incremental behaviour has its own probe)."""
    if not cfg["incremental"] and any(t[0] in QUERY_TOKENS for t in tokens):
        cfg = dict(cfg)
        cfg["incremental"] = True
    return cfg


def cfg_str(cfg):
    return ",".join("%s=%s" % (k, cfg[k]) for k, _ in OPTION_AXES if cfg[k] != DEFAULT_CONFIG[k]) or "default"


# ---------------------------------------------------------------------------------------
# enumeration / random generation
# ---------------------------------------------------------------------------------------

def depth_after(tokens):
    """Number of pushed levels after a legal list, or None when illegal (both sides)."""
    d = 0
    for t in tokens:
        if t[0] == "push":
            d += t[1]
        elif t[0] == "pop":
            if t[1] > d:
                return None
            d -= t[1]
        elif t[0] == "reset":
            d = 0
    return d


def enumerate_lists(alphabet, maxlen, illegal_leaves):
    """All legal lists of length 1..maxlen (DFS); with illegal_leaves also every list whose only illegal
    command is the last one."""
    out = []

    def rec(prefix, d):
        for t in alphabet:
            nd = d
            if t[0] == "push":
                nd = d + t[1]
            elif t[0] == "pop":
                if t[1] > d:
                    if illegal_leaves:
                        out.append(prefix + [t])
                    continue
                nd = d - t[1]
            elif t[0] == "reset":
                nd = 0
            cur = prefix + [t]
            out.append(cur)
            if len(cur) < maxlen:
                rec(cur, nd)
    rec([], 0)
    return out


def random_list(rnd, alphabet, extra, maxlen, allow_illegal):
    n = rnd.randint(5, maxlen)
    profile = rnd.choice(["push", "pop", "soft", "flat"])
    toks, d = [], 0
    pool = alphabet + extra
    while len(toks) < n:
        t = rnd.choice(pool)
        if profile == "push" and rnd.random() < 0.3:
            t = ("push", rnd.choice([1, 1, 2, 3]))
        elif profile == "pop" and rnd.random() < 0.3:
            t = rnd.choice([("push", 1), ("push", 2), ("pop", 1), ("pop", 1), ("pop", 2)])
        elif profile == "soft" and rnd.random() < 0.4 and alphabet is SCRIPT_ALPHABET:
            t = ("soft", rnd.choice([0, 1, 2]), rnd.choice([0, 1]), rnd.choice([1, 2]))
        if t[0] == "reset" and rnd.random() < 0.7:
            continue
        if t[0] == "pop" and t[1] > d:
            if allow_illegal and rnd.random() < 0.02:
                toks.append(t)
                return toks
            continue
        toks.append(t)
        d = depth_after(toks)
    return toks


def enumerate_multi(alphabet, k, maxlen):
    """All schedules [(j, token)] of length 1..maxlen over k solver instances such that the history of
    every instance is legal (instances are created at their first command)."""
    out = []

    def rec(prefix, depth):
        for j in range(k):
            if j > 0 and not any(x[0] == j - 1 for x in prefix):
                continue            # instances are interchangeable: number them in order of first use
            for t in alphabet:
                d = depth[j]
                if t[0] == "push":
                    d += t[1]
                elif t[0] == "pop":
                    if t[1] > d:
                        continue
                    d -= t[1]
                elif t[0] == "reset":
                    d = 0
                cur = prefix + [(j, t)]
                out.append(cur)
                if len(cur) < maxlen:
                    rec(cur, depth[:j] + [d] + depth[j + 1:])
    rec([], [0] * k)
    return out


def random_multi(rnd):
    """2-3 instances, independent random legal histories of different depths, random interleaving; sometimes all
    created up front, sometimes one created while the others are in the middle of their histories."""
    k = rnd.choice([2, 2, 3])
    hists = [random_list(rnd, SOLVER_ALPHABET, SOLVER_EXTRA, rnd.choice([6, 12, 20]), False) for _ in range(k)]
    pos, sched = [0] * k, []
    mode = rnd.choice(["upfront", "lazy", "late"])
    if mode == "upfront":
        sched = [(j, ("new",)) for j in range(k)]
    live = list(range(k if mode != "late" else k - 1))
    total = sum(len(h) for h in hists)
    while any(pos[j] < len(hists[j]) for j in range(k)):
        if mode == "late" and (k - 1) not in live and len(sched) >= total // 3:
            live.append(k - 1)
            sched.append((k - 1, ("new",)))
        cand = [j for j in live if pos[j] < len(hists[j])]
        if not cand:
            live.append(k - 1)
            sched.append((k - 1, ("new",)))
            continue
        j = rnd.choice(cand)
        burst = rnd.choice([1, 1, 2, 4])
        for _ in range(burst):
            if pos[j] < len(hists[j]):
                sched.append((j, hists[j][pos[j]]))
                pos[j] += 1
    return sched


def dirty_fresh_schedules():
    """A new instance B created after / next to an instance A that is left dirty (open levels, pending pop)."""
    out = []
    for d in DIRTY_HISTORIES:
        base = [(0, t) for t in d]
        out.append(base + [(1, ("new",))])
        out.append(base + [(1, t) for t in FRESH_HISTORY])
        mixed = list(base)
        cont = [("obs",), ("add", 1), ("push", 1), ("is_sat", 0)]
        for i, t in enumerate(FRESH_HISTORY):
            mixed.append((1, t))
            if i < len(cont):
                mixed.append((0, cont[i]))
        out.append(mixed)
        out.append(base + [(1, ("new",)), (2, ("new",)), (2, ("push", 2)), (1, ("add", 0)), (1, ("push", 1)),
                           (2, ("pop", 1)), (1, ("add", 1)), (2, ("add", 1)), (1, ("pop", 1))])
    return out


def sched_str(sched):
    return " ; ".join("%d:%s" % (j, " ".join(str(x) for x in t)) for j, t in sched)


# ---------------------------------------------------------------------------------------
# Gallina literals
# ---------------------------------------------------------------------------------------

def coq_script_cmd(t):
    k = t[0]
    if k == "assert":
        return "CAssert %d" % t[1]
    if k == "soft":
        return "CAssertSoft %d %d %d" % (t[1], t[2], t[3])
    if k == "obj":
        return "CObj %s %d" % (KIND_COQ[t[1]], t[2])
    if k == "push":
        return "CPush %d" % t[1]
    if k == "pop":
        return "CPop %d" % t[1]
    if k == "reset":
        return "CReset"
    if k == "check":
        return "CCheckSat"
    return "COther"


def coq_goal(g):
    if g[0] == "soft":
        return "RSoft [%s]" % "; ".join("(%d, %d)" % p for p in g[1])
    return "RObj %s %d" % (KIND_COQ[g[1]], g[2])


def coq_nats(xs):
    return "[%s]" % "; ".join(str(x) for x in xs)


def coq_last(r):
    if r[0] == "err":
        return "Err %s" % r[1]
    return "Ok (%s, [%s])" % (coq_nats(r[1]), "; ".join(coq_goal(g) for g in r[2]))


def coq_strict(r):
    return "Err %s" % r[1] if r[0] == "err" else "Ok %s" % coq_nats(r[1])


def coq_solver_cmd(t):
    k = t[0]
    if k == "add":
        return "SAdd %d" % t[1]
    if k == "push":
        return "SPush %d" % t[1]
    if k == "pop":
        return "SPop %d" % t[1]
    if k == "reset":
        return "SReset"
    if k == "solve":
        return {None: "SSolve None", "lit": "SSolve None", "other": "SSolve (Some 5)", "other2": "SSolve (Some 6)"}[t[1]]
    if k == "is_sat":
        return "SIsSat %d" % t[1]
    if k == "is_valid":
        return "SIsValid %d" % t[1]
    if k == "is_unsat":
        return "SIsUnsat %d" % t[1]
    if k == "solve_unk":
        return {None: "SSolveUnk None", "other": "SSolveUnk (Some 5)"}[t[1]]
    if k == "is_sat_unk":
        return "SIsSatUnk %d" % t[1]
    if k == "is_valid_unk":
        return "SIsValidUnk %d" % t[1]
    if k == "is_unsat_unk":
        return "SIsUnsatUnk %d" % t[1]
    return "SObserve"


def coq_trace(tr):
    out = []
    for e in tr:
        if e[0] == "err":
            out.append("Err %s" % e[1])
        else:
            out.append("Ok (mkT %s %s %s)" % (coq_nats(e[1]), coq_nats(e[2]), lib.coq_bool(e[3])))
    return "[%s]" % "; ".join(out)


HDR = """From Coq Require Import List Arith Bool.
From PySMT.core Require Import CaseUtil.
From PySMT.models Require Import AssertStack StackPrims Script TrackSolver.
Import ListNotations.
Fixpoint leqb {A} (e : A -> A -> bool) (a b : list A) : bool :=
  match a, b with [], [] => true | x :: a', y :: b' => e x y && leqb e a' b' | _, _ => false end.
Definition err_eqb (a b : err) : bool :=
  match a, b with IndexError, IndexError | KeyError, KeyError | ValueError, ValueError | OtherError, OtherError => true
  | _, _ => false end.
Definition res_eqb {A} (e : A -> A -> bool) (a b : result A) : bool :=
  match a, b with Ok x, Ok y => e x y | Err x, Err y => err_eqb x y | _, _ => false end.
Definition kind_eqb (a b : okind) : bool :=
  match a, b with KMin, KMin | KMax, KMax | KMinMax, KMinMax | KMaxMin, KMaxMin => true | _, _ => false end.
Definition pair_eqb (a b : nat * nat) : bool := Nat.eqb (fst a) (fst b) && Nat.eqb (snd a) (snd b).
Definition goal_eqb (a b : cgoal nat nat) : bool :=
  match a, b with
  | RObj k f, RObj k' f' => kind_eqb k k' && Nat.eqb f f'
  | RSoft l, RSoft l' => leqb pair_eqb l l'
  | _, _ => false end.
Definition last_eqb (a b : list nat * list (cgoal nat nat)) : bool :=
  leqb Nat.eqb (fst a) (fst b) && leqb goal_eqb (snd a) (snd b).
Definition tst_eqb (a b : tst nat) : bool :=
  leqb Nat.eqb (astk a) (astk b) && leqb Nat.eqb (bpts a) (bpts b) && Bool.eqb (pending a) (pending b).
"""

SCRIPT_TAIL = """Definition ok (c : list (cmd nat nat) * result (list nat * list (cgoal nat nat)) * result (list nat)) : bool :=
  let '(cs, e1, e2) := c in
  res_eqb last_eqb (get_last_formula cs) e1 && res_eqb (leqb Nat.eqb) (get_strict_formula cs) e2.
Eval vm_compute in mismatches ok cases.
"""
SOLVER_TAIL = """Definition ok (c : list (scmd nat) * list (result (tst nat))) : bool :=
  let '(cs, e) := c in leqb (res_eqb tst_eqb) (t_trace (fun n => n + 10) t_init cs) e.
Eval vm_compute in mismatches ok cases.
"""


def write_cases(chk, name, rows, typ, tail, shard=500):
    files = []
    for k in range(0, len(rows), shard):
        body = HDR + "Definition cases : list (%s) := [\n %s ].\n" % (typ, ";\n ".join(rows[k:k + shard])) + tail
        p = os.path.join(chk.dir, "cases_%s_%d.v" % (name, k // shard))
        with open(p, "w") as f:
            f.write(body)
        files.append(p)
    return files


# ---------------------------------------------------------------------------------------
# property-level checks on the implementation
# ---------------------------------------------------------------------------------------

def tok_str(tokens):
    return " ; ".join(" ".join(str(x) for x in t) for t in tokens)


def script_repro(tokens):
    return ("from harness.c16 import Impl; I = Impl(); "
            "print(I.last_formula(%r)); print(I.strict_formula(%r))  # tokens: see harness/c16.py SCRIPT_ALPHABET"
            % (tokens, tokens))


def check_script(chk, tokens, last, strict, seen_keys):
    """The property on the implementation's answers for one command list; returns #violations."""
    legal, ra, rg, fresh, abr = ref_script(tokens)
    if not legal:
        return 0
    n = 0
    exp = {"assertions": ra, "goals": rg}
    if last[0] == "err":
        key = "last:%s" % tok_str(tokens)
        if key not in seen_keys and len(seen_keys) < 40:
            seen_keys.add(key)
            n += chk.violation({"kind": "history", "target": "script", "history": tokens,
                                "what": "get_last_formula raises %s on a legal script" % last[1],
                                "expected": exp, "observed": last, "oracle": "RefStack (SMT-LIB assertion stack)",
                                "repro": script_repro(tokens)}, key=key)
    elif last[1] != ra or last[2] != rg:
        key = "last:%s" % tok_str(tokens)
        if key not in seen_keys and len(seen_keys) < 40:
            seen_keys.add(key)
            n += chk.violation({"kind": "history", "target": "script", "history": tokens,
                                "what": "get_last_formula reports assertions/goals that are not the live ones",
                                "expected": exp, "observed": {"assertions": last[1], "goals": last[2]},
                                "oracle": "RefStack (SMT-LIB assertion stack)", "repro": script_repro(tokens)}, key=key)
    if strict[0] == "ok" and strict[1] != ra:
        key = "strict:%s" % tok_str(tokens)
        if key not in seen_keys and len(seen_keys) < 40:
            seen_keys.add(key)
            n += chk.violation({"kind": "history", "target": "script", "history": tokens,
                                "what": "get_strict_formula reports assertions that are not the live ones",
                                "expected": ra, "observed": strict[1], "oracle": "RefStack (SMT-LIB assertion stack)",
                                "repro": script_repro(tokens)}, key=key)
    elif strict[0] == "err" and strict[1] != "ValueError":
        key = "strict:%s" % tok_str(tokens)
        if key not in seen_keys and len(seen_keys) < 40:
            seen_keys.add(key)
            n += chk.violation({"kind": "history", "target": "script", "history": tokens,
                                "what": "get_strict_formula raises %s" % strict[1], "repro": script_repro(tokens)}, key=key)
    return n


def solver_repro(sched, cfgs=None):
    return ("from harness.c16 import Impl; I = Impl(); print(I.run_multi(%r, configs=%r)[2:])  "
            "# [(solver instance, command)], {instance: constructor options + hook style}" % (sched, cfgs))


# ---------------------------------------------------------------------------------------

def line_coverage(I, lists, slists):
    """Source lines of the modelled functions that the generated cases execute (sample)."""
    import dis
    import sys
    import pysmt.solvers.solver as S
    from pysmt.smtlib.script import SmtLibScript
    codes = {}
    for name, fn in (("script.get_last_formula", SmtLibScript.get_last_formula),
                     ("script.get_strict_formula", SmtLibScript.get_strict_formula),
                     ("solver.Solver.is_sat", S.Solver.is_sat), ("solver.Solver.is_valid", S.Solver.is_valid),
                     ("solver.Solver.is_unsat", S.Solver.is_unsat),
                     ("solver.ITS.add_assertion", S.IncrementalTrackingSolver.add_assertion),
                     ("solver.ITS.push", S.IncrementalTrackingSolver.push), ("solver.ITS.pop", S.IncrementalTrackingSolver.pop),
                     ("solver.ITS.reset_assertions", S.IncrementalTrackingSolver.reset_assertions),
                     ("solver.ITS.solve", S.IncrementalTrackingSolver.solve),
                     ("solver.ITS.assertions", S.IncrementalTrackingSolver.assertions.fget.__wrapped__),
                     ("decorators.clear_pending_pop_wrap", I.BruteForceSolver._push)):
        codes[fn.__code__] = name
    seen = set()

    def local(frame, event, arg):
        if event == "line":
            seen.add((frame.f_code, frame.f_lineno))
        return local

    def tracer(frame, event, arg):
        return local if frame.f_code in codes else None
    sys.settrace(tracer)
    try:
        for t in lists:
            I.last_formula(t)
            I.strict_formula(t)
        for t in slists:
            I.run_solver(t)
    finally:
        sys.settrace(None)
    missing = {}
    for code, name in codes.items():
        alll = set(l for _, l in dis.findlinestarts(code) if l is not None) - {code.co_firstlineno}
        miss = sorted(l for l in alll if (code, l) not in seen)
        if miss:
            missing[name] = miss
    return missing


def run(tier):
    chk = lib.Check("C16", tier)
    chk.start_watchdog()            # RSS > 4 GB or (quick) wall > 15 min: reported as a VIOLATION, exit 1
    rnd = random.Random(chk.seed)
    gen_all.regen_all()
    ok = chk.prove()
    chk.note("proof closure: %s" % ("ok" if ok else "FAILED"))
    lib.clean_cases(chk.dir)
    I = Impl()

    # ---------------- corpus of earlier minimised failures: must pass ------------------
    seen = set()
    corpus = json.load(open(os.path.join(os.path.dirname(os.path.abspath(__file__)), "corpus", "c16.json")))
    for ent in corpus:
        if ent.get("target") == "solver":
            continue                    # run with the solver families below
        toks = [tuple(t) for t in ent["tokens"]]
        check_script(chk, toks, I.last_formula(toks), I.strict_formula(toks), seen)
        chk.count(("corpus", ent["name"]))
    chk.cov["corpus"] = {"entries": len(corpus), "failing_scripts": len(seen)}

    maxlen = 4 if tier == "quick" else 5
    nrand = 1500 if tier == "quick" else 20000
    # ---------------- scripts ---------------------------------------------------------
    lists = enumerate_lists(SCRIPT_ALPHABET, maxlen, illegal_leaves=True)
    if tier == "thorough":
        small = [SCRIPT_ALPHABET[i] for i in (0, 2, 3, 6, 9, 12, 13, 14)]
        lists += [l for l in enumerate_lists(small, 6, illegal_leaves=False) if len(l) == 6]
    lists.sort(key=len)          # shortest first: the first instance reported of a defect is a minimal one
    nenum = len(lists)
    for _ in range(nrand):
        lists.append(random_list(rnd, SCRIPT_ALPHABET, SCRIPT_EXTRA, 60, allow_illegal=True))
    # model side (Coq): every list up to length 4, every random list, and in the thorough tier a seeded sample of
    # the longer enumerated ones; the implementation + oracle side runs on all of them
    rsel = random.Random(chk.seed + 1)
    frac = 1.0 if tier == "quick" else 0.15
    frac4 = 0.5 if tier == "quick" else 1.0       # share of the length-4 lists that also go to the Coq model
    rows, sel = [], []
    nlegal = 0
    for idx, toks in enumerate(lists):
        if chk.enough():
            break
        chk.last_input = {"family": "script", "commands": toks}
        last, strict = I.last_formula(toks), I.strict_formula(toks)
        if len(toks) <= 3 or idx >= nenum or rsel.random() < (frac4 if len(toks) == 4 else frac):
            sel.append(toks)
            rows.append("([%s], %s, %s)" % ("; ".join(coq_script_cmd(t) for t in toks), coq_last(last), coq_strict(strict)))
        chk.count(("script", tuple(toks)))
        if depth_after(toks) is not None:
            nlegal += 1
        check_script(chk, toks, last, strict, seen)
    chk.sample({"kind": "script", "commands": tok_str(lists[nenum - 1]), "get_last_formula": str(I.last_formula(lists[nenum - 1]))})
    chk.sample({"kind": "script (random)", "commands": tok_str(lists[-1]), "get_last_formula": str(I.last_formula(lists[-1]))})
    files = write_cases(chk, "script", rows,
                        "list (cmd nat nat) * result (list nat * list (cgoal nat nat)) * result (list nat)", SCRIPT_TAIL)
    meta = dict((p, ("script", sel[i * 500:(i + 1) * 500])) for i, p in enumerate(files))
    have_models = (os.path.exists(os.path.join(lib.COQ, "models", "TrackSolver.vo"))
                   and os.path.exists(os.path.join(lib.COQ, "models", "Script.vo")))
    chk.note("scripts: %d command lists (%d enumerated, %d legal)" % (len(lists), nenum, nlegal))

    # ---------------- solver(s) -------------------------------------------------------
    srows, ssel, sseen, anomalies = [], [], set(), []
    counts = {"configured": 0, "corpus": 0, "single": 0, "unknown_family": 0, "multi_enumerated": 0, "multi_random": 0, "dirty_fresh": 0}

    def report(sched, observe_all, problems, anom, cfgs=None):
        single = all(x[0] == 0 for x in sched)
        key = ("solver:%s" % tok_str([t for _, t in sched])) if single else ("solvers:%s" % sched_str(sched))
        if cfgs:
            key += " @ " + " | ".join("%d:%s" % (jj, cfg_str(cfgs[jj])) for jj in sorted(cfgs))
        if key in sseen or len(sseen) >= chk.max_violations:
            return
        sseen.add(key)
        chk.violation({"kind": "history", "target": "solver", "history": [[jj, list(t)] for jj, t in sched],
                       "observe_all": observe_all, "what": problems[0], "all_problems": problems[:5],
                       "configs": dict((str(jj), cfgs[jj]) for jj in cfgs) if cfgs else None,
                       "configs_note": "constructor options / hook style per solver instance (None = defaults)",
                       "raw_state_anomalies": anom[:3],
                       "oracle": "one RefStack (SMT-LIB assertion stack) per solver instance + truth table",
                       "repro": solver_repro(sched, cfgs)}, key=key)

    def do_schedule(sched, to_coq, family, observe_all=False, variants=(), per_instance=None):
        """Default configuration first (-> Coq model); then the same schedule under each configuration of
        `variants` (all instances alike) and/or `per_instance` ({instance: configuration}): same oracle, and the
        raw trace must be the one of the default run (neither the reference stack nor the model has options)."""
        chk.last_input = {"family": family, "schedule": sched}
        cmds, traces, problems, anom = I.run_multi(sched, observe_all)
        chk.count((family, tuple(sched), observe_all))
        counts[family] += 1
        if problems:
            report(sched, observe_all, problems, anom)
        if anom and len(anomalies) < 4 * chk.max_violations:
            anomalies.append({"what": anom[0], "schedule": sched_str(sched)})
        if to_coq:
            for jj in sorted(cmds):
                ssel.append((sched, jj))
                srows.append("([%s], %s)" % ("; ".join(coq_solver_cmd(t) for t in cmds[jj]), coq_trace(traces[jj])))
        todo = [dict((jj, c) for jj in cmds) for c in variants] + ([per_instance] if per_instance else [])
        for cfgs in todo:
            cfgs = dict((jj, legal_config(cfgs.get(jj, DEFAULT_CONFIG), [t for j2, t in sched if j2 == jj])) for jj in cmds)
            chk.last_input = {"family": family, "schedule": sched, "configs": cfgs}
            c2, t2, p2, a2 = I.run_multi(sched, observe_all, configs=cfgs)
            chk.count((family, tuple(sched), observe_all, repr(sorted(cfgs.items()))))
            counts["configured"] += 1
            if p2:
                report(sched, observe_all, p2, a2, cfgs)
            if (c2, t2) != (cmds, traces) and not problems and len(anomalies) < 4 * chk.max_violations:
                anomalies.append({"what": "the raw trace depends on the configuration %s"
                                          % " | ".join("%d:%s" % (jj, cfg_str(cfgs[jj])) for jj in sorted(cfgs)),
                                  "schedule": sched_str(sched), "default_trace": str(traces)[:300], "trace": str(t2)[:300]})

    def stop():
        return chk.enough(len(anomalies))

    flips, combos, ncfg = single_flip_configs(), all_configs(), 0

    # (a) a new instance after / next to a dirty one; (b) all interleavings of 2 instances up to length 5 (6 thorough)
    # over a 4-symbol alphabet per instance; (c) random interleavings of 2-3 independent legal histories
    for ent in corpus:
        if ent.get("target") == "solver":
            do_schedule([(int(x[0]), tuple(x[1])) for x in ent["schedule"]], True, "corpus", variants=flips)
    for sched in dirty_fresh_schedules():
        do_schedule(sched, True, "dirty_fresh", variants=flips)
    for msg, hist, cfg in I.nonincremental_probe():
        chk.violation({"kind": "history", "target": "solver", "history": [[0, list(t)] for t in hist], "configs": {"0": cfg},
                       "what": msg, "oracle": "documentation of Solver.is_sat (non-incremental: assert and solve once)"},
                      key="noninc:%s@%s" % (tok_str(hist), cfg_str(cfg)))
    multi = enumerate_multi(MULTI_ALPHABET, 2, 5 if tier == "quick" else 6)
    multi.sort(key=len)
    mfrac = 0.25 if tier == "quick" else 0.5
    for sched in multi:
        if stop():
            break
        ncfg += 1
        do_schedule(sched, len(sched) <= 4 or rsel.random() < mfrac, "multi_enumerated", variants=[flips[ncfg % len(flips)]])
    for n in range(600 if tier == "quick" else 8000):
        if stop():
            break
        do_schedule(random_multi(rnd), True, "multi_random", observe_all=(n % 3 == 0),
                    per_instance=dict((jj, rnd.choice(combos)) for jj in range(3)))
    chk.note("solver instances alive together: %d schedules, %d violations, %d raw-state anomalies"
             % (counts["dirty_fresh"] + counts["multi_enumerated"] + counts["multi_random"], len(chk.violations), len(anomalies)))

    # (d) one instance: every legal history up to the bound, the unknown-answer family, random histories
    slists = enumerate_lists(SOLVER_ALPHABET, maxlen, illegal_leaves=False)
    if tier == "thorough":
        small = [SOLVER_ALPHABET[i] for i in (0, 3, 4, 6, 7, 8, 11, 12)]
        slists += [l for l in enumerate_lists(small, 6, illegal_leaves=False) if len(l) == 6]
    slists.sort(key=len)
    nsenum = len(slists)
    for _ in range(nrand):
        slists.append(random_list(rnd, SOLVER_ALPHABET, SOLVER_EXTRA, 60, allow_illegal=False))
    for idx, toks in enumerate(slists):
        if stop():
            break
        ncfg += 1
        if len(toks) <= 3:
            var = flips
        elif idx < nsenum and ((tier == "quick" and ncfg % 3) or (len(toks) >= 5 and ncfg % 4)):
            var = ()
        else:
            var = [combos[ncfg % len(combos)]]
        do_schedule([(0, t) for t in toks], len(toks) <= 3 or idx >= nsenum or rsel.random() < (frac4 if len(toks) == 4 else frac),
                    "single", variants=var)
    ulists = [l for l in enumerate_lists(UNKNOWN_ALPHABET, maxlen, illegal_leaves=False) if any(t[0].endswith("_unk") for t in l)]
    ulists.sort(key=len)
    for toks in ulists:
        if stop():
            break
        ncfg += 1
        do_schedule([(0, t) for t in toks], True, "unknown_family", variants=[flips[ncfg % len(flips)]])
    stopped_early = stop()
    if not stopped_early:
        chk.sample({"kind": "solver", "commands": tok_str(slists[nsenum - 1]), "trace": str(I.run_solver(slists[nsenum - 1])[1])})
        chk.sample({"kind": "solvers (interleaved)", "schedule": sched_str(multi[-1]), "traces": str(I.run_multi(multi[-1])[1])})
    sfiles = write_cases(chk, "solver", srows, "list (scmd nat) * list (result (tst nat))", SOLVER_TAIL)
    meta.update(dict((p, ("solver", ssel[i * 500:(i + 1) * 500])) for i, p in enumerate(sfiles)))
    chk.note("solver: %s%s" % (counts, " (stopped early: enough violations)" if stopped_early else ""))

    cov_s = lists[:2500] + lists[nenum - 300:nenum] + lists[-300:]
    cov_t = slists[:2500] + slists[nsenum - 300:nsenum] + slists[-300:] + ulists[-300:]
    chk.cov["uncovered_lines_of_modelled_functions"] = {} if stopped_early else line_coverage(I, cov_s, cov_t)
    chk.cov["uncovered_lines_note"] = ("expected: the non-incremental and push-not-implemented branches of Solver.is_sat, "
                                       "the `mgr is None` default and the "
                                       "return without optimizations (the harness passes mgr and return_optimizations=True)")
    # ---------------- model side ------------------------------------------------------
    corr_bad = []
    chk.last_input = {"family": "model side (coqc on the case files)"}
    if have_models:
        todo = (files[:4] + sfiles[:4]) if stopped_early else (files + sfiles)   # stopped early: enough is known already
        res = lib.run_case_files(todo)
        for p in todo:
            rc, out = res[p]
            mm = lib.parse_nat_list(out) if rc == 0 else None
            if mm is None:
                corr_bad.append({"file": p, "error": out[-500:]})
            else:
                kind, data = meta[p]
                for i in mm[:3]:
                    if len(corr_bad) >= 4 * chk.max_violations:
                        break
                    if kind == "solver":
                        sched, jj = data[i]
                        corr_bad.append({"file": p, "kind": kind, "index": i, "solver_instance": jj, "schedule": sched_str(sched)})
                    else:
                        corr_bad.append({"file": p, "kind": kind, "index": i, "commands": tok_str(data[i]), "tokens": data[i]})
    else:
        corr_bad.append({"error": "the model files do not compile"})
    chk.cov["correspondence"] = {"script_lists_model_side": len(sel), "solver_traces_model_side": len(ssel),
                                 "script_lists": len(lists), "script_enumerated_up_to": maxlen, "script_legal": nlegal,
                                 "solver_histories": counts, "solver_enumerated_up_to": maxlen,
                                 "multi_instance": "2 instances, every interleaving up to length %d over %d commands per instance; "
                                                   "random: 2-3 instances, histories up to 20 commands each; a new instance after/next "
                                                   "to a dirty one" % (5 if tier == "quick" else 6, len(MULTI_ALPHABET)),
                                 "also_enumerated": "length 6 over 8-symbol sub-alphabets" if tier == "thorough" else None,
                                 "case_files": len(files) + len(sfiles), "disagreements": len(corr_bad),
                                 "raw_state_anomalies": len(anomalies), "stopped_early": stopped_early,
                                 "configurations": {"axes": dict((k, [str(x) for x in v]) for k, v in OPTION_AXES),
                                                    "single_flips": len(flips), "combinations": len(combos),
                                                    "configured_runs": counts["configured"]},
                                 "compared": "scripts: result of get_last_formula(return_optimizations=True) "
                                             "(assertion list, goals with soft clauses and weights, or exception class) and of "
                                             "get_strict_formula; solver: (_assertion_stack, _backtrack_points, pending_pop) "
                                             "of each instance after every step of that instance (the model is per instance)"}
    chk.note("correspondence: %d case files, %d disagreements, %d raw-state anomalies"
             % (len(files) + len(sfiles), len(corr_bad), len(anomalies)))

    if (not ok or corr_bad or anomalies) and not chk.violations:
        what = []
        if not ok:
            what.append("proof obligations no longer check: " + lib.proof_failure_summary(chk))
        if corr_bad:
            what.append("correspondence model<->implementation differs (no property violation found on these inputs "
                        "by the oracle): %s" % corr_bad[:3])
        if anomalies:
            what.append("raw solver state outside the model (no wrong `assertions` observed): %s" % anomalies[:3])
        chk.violation({"kind": "obligation", "theorem_or_correspondence": what}, found_input=False)
    return chk.finish(TRUSTED, ASSUMPTIONS, RULE)


def replay(path):
    r = json.load(open(path))
    print(json.dumps(r, indent=1))
    if r.get("kind") != "history":
        return run("quick")
    I = Impl()
    if r.get("target") == "solver":
        h = r["history"]
        multi = bool(h) and all(len(x) == 2 and isinstance(x[1], list) for x in h)
        sched = [(int(x[0]), tuple(x[1])) for x in h] if multi else [(0, tuple(t)) for t in h]
        cfgs = dict((int(k), v) for k, v in r["configs"].items()) if r.get("configs") else None
        cmds, traces, problems, anom = I.run_multi(sched, observe_all=bool(r.get("observe_all")), configs=cfgs)
        print("traces:", traces)
        print("problems:", problems)
        print("raw-state anomalies:", anom)
        return 1 if problems else 0
    toks = [tuple(t) for t in r["history"]]
    last, strict = I.last_formula(toks), I.strict_formula(toks)
    legal, ra, rg, fresh, abr = ref_script(toks)
    print("get_last_formula ->", last)
    print("get_strict_formula ->", strict)
    print("live (oracle) -> assertions %s goals %s" % (ra, rg))
    bad = legal and (last[0] == "err" or last[1] != ra or last[2] != rg or (strict[0] == "ok" and strict[1] != ra))
    return 1 if bad else 0
