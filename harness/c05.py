"""C05 - substitution obeys the substitution lemma and the documented replacement order.

Proof part: coq/props/C05.v (closure: models/Substituter.v, proofs/Substituter_proofs.v).
Correspondence (H): MGSubstituter / MSSubstituter / env.substituter of the repository under test
vs models/Substituter.v (substitute_mgs / substitute_mss), EXACT structural equality.
Property-level oracle (independent of the model): harness/refeval.py evaluates both sides of the
substitution lemma (symbol keys, proviso checked independently) and of the interpretation lemma.
"""
import json
import os
import random

import pysmt.operators as op
from pysmt.environment import Environment
from pysmt.substituter import FunctionInterpretation, MGSubstituter, MSSubstituter

from . import lib, refeval, termcases, tocoq
from .gen.formulas import Config, FormulaGen

TRUSTED = [
    "Coq 8.16.1 kernel; vm_compute for running the model on the correspondence cases; no native_compute",
    "core/Sem.v (values, eval) is the semantic specification the theorems are stated against",
    "standard-library axioms reported by Print Assumptions for the semantic theorems (C05_subst_lemma_partial, "
    "C05_subst_lemma_mss_refuted): ClassicalDedekindReals.sig_forall_dec, "
    "FunctionalExtensionality.functional_extensionality_dep, Classical_Prop.classic, "
    "Description.constructive_definite_description (via Reals and excluded_middle_informative of core/Sem.v); "
    "the syntactic theorems (mgs_mss_sym_refuted, bound_untouched_*, the example) are closed under the global context",
    "proofs/SimplifierSemBase_proofs.v / SimplifierSemArr_proofs.v (C01 development): okt, okt_sound, bv_width_ok, r_array_value_sound, used by proofs/SubstituterTyped_proofs.v",
    "hand models models/Substituter.v (substituter.py + identitydag.py), models/Ctors.v (FormulaManager constructors), "
    "models/TypeChecker.v (create_node's type check), models/Oracles.v fv (get_free_variables), tied to the implementation "
    "by this run's correspondence cases (exact structural equality, counts below)",
    "proofs/DagWalk_proofs.v walk_refines: the memoised DAG walk equals the structural recursion the model is written as",
    "harness/refeval.py, the independent evaluator used by the property-level search oracle",
]
ASSUMPTIONS = [
    "the substitution lemma is PROVED for the default strategy (MGS) for EVERY operator except Pow "
    "(C05_subst_lemma_all_but_pow_partial: symbol keys, replacement terms = arbitrary well-formed terms of the symbol's sort, "
    "the property's no-capture proviso, every well-formed interpretation); side conditions beyond the property: the formula and "
    "the replacement terms are okt (built as the FormulaManager builds them: arities, constants in range, canonical array values, "
    "inhabited sorts - proofs/SimplifierSemBase_proofs.v) and contain no Pow (core/Sem.v gives Pow on Int operands an Int value "
    "while the type checker and mgr.Pow make it Real). The earlier untyped version (C05_subst_lemma_partial, fragment frag, "
    "hypothesis bool_interp) is kept",
    "subst_typed is PROVED for both strategies and arbitrary (symbol or compound) keys: C05_subst_typed_partial / _mss_partial "
    "(no Pow, no array value), C05_subst_typed_arr_partial / _mss_arr_partial (array values too, when no key is an index constant)",
    "compound keys: C05_subst_congruence_partial - replacing sub-terms by terms of equal value under I preserves the value, "
    "quantifiers included (keys surviving the binder), every operator except Pow",
    "interp_lemma is PROVED for interpretations as FunctionInterpretation documents them (formals of the parameter sorts, body of "
    "the result sort closed except for the formals), okt / Pow-free: C05_interp_lemma_partial (quantifier-free bodies) and "
    "C05_interp_lemma_capture_free_partial (arbitrary bodies under the proviso icap: at every call site no bound variable of the body "
    "captures a free symbol of an actual parameter)",
    "okt (the well-formedness hypothesis) is closed under the modelled constructors: C05_ctor_okt / C05_quant_okt (payload conditions: "
    "inhabited sorts, Fraction denominators > 0, positive BV widths, canonical array indexes; Pow excluded)",
    "the substitution lemma for MSSubstituter and the coincidence of MGS and MSS on symbol keys are REFUTED "
    "(C05_subst_lemma_mss_refuted, C05_mgs_mss_sym_refuted); the witness is replayed on the implementation on every run; EXACT "
    "characterisation: mss_ok s t (no node rebuilt from the substituted children collapses onto a key mapped elsewhere) is sufficient "
    "for MSS = MGS and for the lemma (C05_mss_ok_coincide, C05_subst_lemma_mss_ok_partial), tight (C05_mss_ok_tight) and needed "
    "(C05_mss_ok_needed); the earlier condition 'no replacement is a negation' implies it (C05_mss_ok_of_no_neg)",
    "array values are compared with their assignments in a canonical order (the code orders them by id(), i.e. memory addresses)",
    "substitution maps whose constant keys make two indexes of one array value collide are not generated (the surviving value depends on id() order)",
    "substitution maps that replace the constant exponent of a Pow by another constant are not generated (mgr.Pow then folds through "
    "Python float pow for non-integer exponents, which models/Ctors.v mk_pow documents as outside the model)",
]
RULE = ("fresh Environment per batch; formulas from harness/gen/formulas.py (all theories, nested/shadowing quantifiers, shared "
        "sub-DAGs); maps: symbol keys (free, bound, absent), compound keys drawn from the formula's own sub-terms incl. parent/"
        "child overlaps, keys under binders, keys mentioning bound variables, rebuilt-node keys (MSS chains), constants, "
        "ill-typed values, function interpretations (closed bodies, repeated formals, wrong arity, free variables allowed); "
        "directed shared-body family: one body node under 2-3 quantifiers with different / overlapping / equal binder sets, "
        "combined under And/Or/Iff/Ite/Not, nested, next to a free occurrence, x maps keyed on every subset of the body's symbols "
        "(+ compound keys): separates per-walk caches keyed on an abstraction of the reduced map; "
        "creation-order family: abstract cases mixing maps and interpretations in one call (all combinations of empty / non-empty, "
        "applications inside / outside sub-terms with keys, nested, under binders) rebuilt in fresh environments under six node "
        "creation orders (symbols first, applications first, formula first, values first and keys last, constants first, shuffled); "
        "results must be equal up to the environment; "
        "distinct = distinct (formula, map, interpretations) triples with a non-empty map or interpretation")


# ------------------------------------------------------------------------------------------------
# term literals with array-value assignments in the canonical order of models/Ctors.v const_key
# ------------------------------------------------------------------------------------------------
def const_key(n):
    from fractions import Fraction
    nt = n.node_type()
    if nt == op.BOOL_CONSTANT:
        return [0, 1 if n.constant_value() else 0]
    if nt == op.INT_CONSTANT:
        return [1, int(n.constant_value())]
    if nt == op.REAL_CONSTANT:
        v = Fraction(n.constant_value())
        return [2, v.numerator, v.denominator]
    if nt == op.BV_CONSTANT:
        return [3, int(n._content.payload[0]), int(n._content.payload[1])]
    if nt == op.STR_CONSTANT:
        return [4] + [ord(c) for c in n.constant_value()]
    return [9]


def canon_args(n):
    a = n.args()
    if n.node_type() != op.ARRAY_VALUE or len(a) <= 3:
        return a
    pairs = sorted(zip(a[1::2], a[2::2]), key=lambda kv: const_key(kv[0]))
    out = [a[0]]
    for k, v in pairs:
        out += [k, v]
    return tuple(out)


def ctopo(roots):
    """tocoq.topo with array-value children in canonical order (args() of an array value is ordered
    by id(), i.e. by memory addresses: anything derived from it would not be reproducible)."""
    seen, order = set(), []
    stack = [(r, False) for r in reversed(list(roots))]
    while stack:
        n, done = stack.pop()
        if done:
            order.append(n)
            continue
        if n in seen:
            continue
        seen.add(n)
        stack.append((n, True))
        for c in reversed(canon_args(n)):
            if c not in seen:
                stack.append((c, False))
    return order


def with_terms(roots, body_fn):
    names, lines = {}, []
    for i, n in enumerate(ctopo(roots)):
        nm = "n%d" % i
        names[n] = nm
        lines.append("let %s := T %s [%s] in" % (nm, tocoq.opr(n), "; ".join(names[c] for c in canon_args(n))))
    return "(" + "\n  ".join(lines) + "\n  " + body_fn(names) + ")"


# ------------------------------------------------------------------------------------------------
# case generation
# ------------------------------------------------------------------------------------------------
class Case(object):
    __slots__ = ("f", "subs", "interps", "kind", "mgs", "mss", "mgs_exc", "mss_exc", "batch", "index", "env", "order", "blueprint")

    def describe(self):
        return {"formula": self.f.serialize()[:1500],
                "subs": [[k.serialize()[:400], v.serialize()[:400]] for k, v in self.subs],
                "interpretations": [[fs.symbol_name(), [p.symbol_name() for p in fi.formal_params], fi.function_body.serialize()[:400]]
                                    for fs, fi in self.interps],
                "map_kind": self.kind, "batch": self.batch, "index": self.index,
                "creation_order": getattr(self, "order", None)}


def subterms(f):
    return ctopo([f])


def parents_of(f):
    par = {}
    for n in ctopo([f]):
        for c in canon_args(n):
            par.setdefault(c, []).append(n)
    return par


def bound_vars(f):
    out = []
    for n in ctopo([f]):
        if n.is_quantifier():
            out += list(n.quantifier_vars())
    return out


class MapGen(object):
    def __init__(self, env, g, rnd):
        self.env, self.g, self.rnd = env, g, rnd
        self.mgr = env.formula_manager

    def ty(self, n):
        return self.env.stc.get_type(n)

    def value_for(self, t, f):
        """A replacement term of type t: fresh random term, constant, symbol, or a sub-term of f."""
        r = self.rnd
        x = r.random()
        if x < 0.2:
            same = [n for n in subterms(f) if n.is_term() and self.ty(n) == t]
            if same:
                return r.choice(same)
        if x < 0.35 and t in self.g.syms:
            return r.choice(self.g.syms[t])
        return self.g.gen(t, r.choice([0, 0, 1, 1, 2, 3]))

    def sym_map(self, f):
        r = self.rnd
        free = [s for s in f.get_free_variables() if s.is_term()]
        cand = list(free) * 2 + bound_vars(f) * 2
        for t in r.sample(self.g.types, min(3, len(self.g.types))):
            cand.append(r.choice(self.g.syms[t]))
        r.shuffle(cand)
        subs = {}
        for s in cand[:r.choice([1, 1, 2, 2, 3, 4])]:
            subs[s] = self.value_for(s.symbol_type(), f)
        return subs

    def term_map(self, f):
        r = self.rnd
        nodes = [n for n in subterms(f) if n.is_term()]
        par = parents_of(f)
        subs = {}
        nkeys = r.choice([1, 2, 2, 3, 4, 5])
        for _ in range(3 * nkeys):
            if len(subs) >= nkeys or not nodes:
                break
            k = r.choice(nodes)
            chain = [k]
            if r.random() < 0.5 and par.get(k):           # overlap: parent (and grand-parent) of a key
                p = r.choice(par[k])
                chain.append(p)
                if r.random() < 0.4 and par.get(p):
                    chain.append(r.choice(par[p]))
            if r.random() < 0.3 and k.args():             # overlap: child of a key
                chain.append(r.choice(canon_args(k)))
            for c in chain:
                if c.is_term() and c not in subs:
                    subs[c] = self.value_for(self.ty(c), f)
        return subs

    def chain_map(self, f):
        """The docstring's MSS pattern: c -> v together with the key parent[c := v] (the REBUILT node)."""
        r = self.rnd
        cands = [n for n in subterms(f) if n.args() and n.is_term() and not n.is_quantifier()]
        if not cands:
            return self.term_map(f)
        subs = {}
        for _ in range(r.choice([1, 1, 2])):
            p = r.choice(cands)
            c = r.choice(canon_args(p))
            if not c.is_term():
                continue
            v = subs.get(c)
            if v is None:
                v = self.value_for(self.ty(c), f)
            try:
                rebuilt = MGSubstituter(self.env).substitute(p, {c: v})
            except Exception:
                continue
            subs[c] = v
            if rebuilt not in subs:
                subs[rebuilt] = self.value_for(self.ty(p), f)
            if r.random() < 0.5 and p not in subs:
                subs[p] = self.value_for(self.ty(p), f)
        if not subs:
            return self.term_map(f)
        return subs

    def binder_map(self, f):
        """Keys taken from inside quantifier bodies: some mention the bound variables, some do not."""
        r = self.rnd
        qs = [n for n in subterms(f) if n.is_quantifier()]
        if not qs:
            return self.term_map(f)
        subs = {}
        for q in r.sample(qs, min(len(qs), r.choice([1, 2]))):
            inner = [n for n in subterms(q.arg(0)) if n.is_term()]
            for k in r.sample(inner, min(len(inner), r.choice([1, 2, 3]))):
                subs[k] = self.value_for(self.ty(k), f)
            if r.random() < 0.4:
                v = r.choice(q.quantifier_vars())
                subs[v] = self.value_for(v.symbol_type(), f)
            if r.random() < 0.3:
                subs[q] = self.value_for(self.ty(q), f)
        return subs

    def spoil(self, subs, f):
        """Occasionally an ill-typed value, a function symbol as key, a constant key."""
        r = self.rnd
        x = r.random()
        if x < 0.04 and subs:
            k = r.choice(list(subs))
            t = r.choice([t for t in self.g.types if t != self.ty(k)])
            subs[k] = self.g.gen(t, 1)
        elif x < 0.05 and self.g.funs:
            subs[r.choice(self.g.funs)] = self.mgr.TRUE()
        elif x < 0.12:
            cs = [n for n in subterms(f) if n.is_constant() and not n.is_array_value()]
            if cs:
                k = r.choice(cs)
                subs[k] = self.value_for(self.ty(k), f)
        return subs

    def closed_body(self, params, rt):
        r = self.rnd
        body = self.g.gen(rt, r.choice([0, 1, 2, 2, 3]))
        fix = {}
        for s in body.get_free_variables():
            if s in params:
                continue
            if not s.is_term():
                return None
            same = [p for p in params if p.symbol_type() == s.symbol_type()]
            if same and r.random() < 0.8:
                fix[s] = r.choice(same)
            else:
                c = self.g.const(s.symbol_type())
                if c is None:
                    return None
                fix[s] = c
        body = MGSubstituter(self.env).substitute(body, fix)
        if not body.get_free_variables().issubset(set(params)):
            return None        # a free variable survived under a binder of the same name
        return body

    def interps(self, f):
        r = self.rnd
        out = {}
        funs = [s for s in f.get_free_variables() if not s.is_term()]
        extra = [fn for fn in self.g.funs if fn not in funs]
        if extra and r.random() < 0.1:
            funs.append(r.choice(extra))
        for fs in funs:
            if r.random() < 0.3:
                continue
            ft = fs.symbol_type()
            params = []
            for i, pt in enumerate(ft.param_types):
                if r.random() < 0.7:
                    params.append(r.choice(self.g.syms[pt]))
                else:
                    params.append(self.mgr.Symbol("%sfp%d_%s" % (self.g.prefix, i, self.g._tname(pt)), pt))
            x = r.random()
            if x < 0.05:
                params = params[:-1]                      # wrong arity: interpret raises
            elif x < 0.10 and len(params) >= 2 and params[0].symbol_type() == params[1].symbol_type():
                params[1] = params[0]                     # repeated formal parameter
            body = None
            for _ in range(4):
                body = self.closed_body(params, ft.return_type)
                if body is not None:
                    break
            try:
                if body is None or r.random() < 0.1:
                    body = self.g.gen(ft.return_type, r.choice([0, 1, 2]))
                    out[fs] = FunctionInterpretation(params, body, allow_free_vars=True)
                else:
                    out[fs] = FunctionInterpretation(params, body)
            except Exception:
                continue
        return out


def array_collision(f, subs):
    """Would the map make two indexes of one array value equal? (result depends on id() order)"""
    keys = set(k for k in subs if k.is_constant())
    if not keys:
        return False
    for n in tocoq.topo([f] + list(subs.values())):
        if n.node_type() == op.ARRAY_VALUE:
            idx = n.args()[1::2]
            img = [subs.get(i, i) for i in idx]
            if len(set(img)) != len(img):
                return True
    return False


def pow_exponent_replaced(f, subs):
    """A constant exponent of a Pow replaced by another constant: mgr.Pow then folds through Python's
    float pow for non-integer exponents, which models/Ctors.v mk_pow leaves out (documented there)."""
    for n in ctopo([f] + list(subs.values())):
        if n.node_type() == op.POW and n.arg(1) in subs and subs[n.arg(1)].is_constant():
            return True
    return False


SHARED_BATCH = 1000          # batch number of the directed shared-body family (for --replay)


def gen_shared_body_batch(seed, tier):
    """Directed family: ONE body node B over 3-4 symbols wrapped in 2-3 quantifiers with different /
    overlapping / equal binder sets (both kinds), combined under And / Or / Iff / Ite / Not, nested in
    each other and next to a free occurrence of B; maps keyed on every non-empty subset of B's
    symbols (so that different binders hide equally many keys) plus compound keys.  Separates any
    per-walk cache of rewritten bodies whose key abstracts the reduced map (its size, its key set,
    the binder set) from the per-binder reduced map of the documented definition."""
    import itertools
    from pysmt.typing import BOOL, INT
    rnd = random.Random("c05|shared|%d" % seed)
    env = Environment()
    m = env.formula_manager
    x, y, z, w = [m.Symbol(n, BOOL) for n in "xyzw"]
    i, j, k = [m.Symbol(n, INT) for n in "ijk"]
    fresh = {BOOL: [m.Symbol(n, BOOL) for n in ("a", "b", "c", "d")], INT: [m.Symbol(n, INT) for n in ("p", "q", "r", "s")]}
    bodies = [
        (m.Or(m.And(x, y), z), [x, y, z], [m.And(x, y)]),
        (m.Iff(m.Implies(x, y), m.Or(z, w)), [x, y, z, w], [m.Implies(x, y), m.Or(z, w)]),
        (m.And(m.LE(m.Plus(i, j), k), x), [i, j, k, x], [m.Plus(i, j), m.LE(m.Plus(i, j), k)]),
        (m.LT(m.Ite(x, i, j), m.Times(k, m.Int(2))), [x, i, j, k], [m.Ite(x, i, j), m.Times(k, m.Int(2))]),
    ]
    full = tier != "quick"
    cases = []

    def value(sym_or_term, t, style, syms):
        if style == 0:                                   # a fresh symbol
            return rnd.choice(fresh[t])
        if style == 1:                                   # another symbol of the body (possible capture)
            same = [u for u in syms if u.symbol_type() == t and u is not sym_or_term]
            return rnd.choice(same) if same else rnd.choice(fresh[t])
        if t == BOOL:                                    # a small term over fresh symbols
            return rnd.choice([m.Not(fresh[BOOL][0]), m.And(fresh[BOOL][1], fresh[BOOL][2]), m.LE(fresh[INT][0], m.Int(0))])
        return rnd.choice([m.Plus(fresh[INT][0], m.Int(1)), m.Times(fresh[INT][1], m.Int(3)), m.Int(7)])

    for B, syms, comps in bodies:
        singles = [(u,) for u in syms]
        doubles = [c for c in itertools.combinations(syms, 2)]
        pairs = [(a, b) for a in singles for b in singles if a != b]              # equal size, different variable
        mixed = [(a, b) for a in doubles for b in doubles if a != b] + \
                [(a, b) for a in singles for b in doubles] + [(a, a) for a in singles + doubles]
        mixed = rnd.sample(mixed, 20 if full else 4)
        subsets = [c for r in range(1, len(syms) + 1) for c in itertools.combinations(syms, r)]
        for vs1, vs2 in pairs + mixed:
            def Q(kind, vs, body=B):
                return (m.ForAll if kind else m.Exists)(list(vs), body)
            k1, k2 = rnd.random() < 0.5, rnd.random() < 0.5
            q1, q2 = Q(k1, vs1), Q(k2, vs2)
            vs3 = rnd.choice(singles + doubles)
            q3 = Q(rnd.random() < 0.5, vs3)
            u = rnd.choice(syms)
            combos = [m.And(q1, q2), m.Or(q2, q1), m.Iff(q1, q2), m.Ite(q1, q2, q3), m.And(m.Not(q1), q2),
                      m.And(q1, B, q2),                                               # next to a free occurrence
                      m.ForAll([u], m.Or(q1, q2)),                                    # under a common binder (one sub-walker)
                      Q(k1, vs1, m.And(B, q2)),                                       # nested in each other
                      m.Exists(list(vs2), m.Implies(q1, m.Or(B, q3)))]
            if not full:
                combos = [combos[0]] + rnd.sample(combos[1:], 1)
            for f in combos:
                chosen = subsets if len(subsets) <= 7 else rnd.sample(subsets, 8 if full else 7)
                for n, ks in enumerate(chosen):
                    style = n % 3
                    subs = {u0: value(u0, u0.symbol_type(), style, syms) for u0 in ks}
                    cases.append((f, subs, "shared"))
                for _ in range(2 if full else 1):                                     # compound keys (and a symbol key)
                    subs = {}
                    for c in rnd.sample(comps, rnd.choice([1, len(comps)])):
                        subs[c] = value(c, env.stc.get_type(c), rnd.choice([0, 2]), syms)
                    u0 = rnd.choice(syms)
                    subs[u0] = value(u0, u0.symbol_type(), rnd.choice([0, 1, 2]), syms)
                    cases.append((f, subs, "shared+term"))
    out = []
    for f, subs, kind in cases:
        c = Case()
        c.f, c.subs, c.interps, c.kind, c.batch, c.index = f, list(subs.items()), [], kind, SHARED_BATCH, len(out)
        run_impl(env, c)
        out.append(c)
    return env, out


ORDER_BATCH = 2000           # batch number of the creation-order family (for --replay)
ORDERS = ["symbols-first", "applications-first", "formula-first", "values-first-keys-last", "constants-first", "shuffled"]


def rebuild_in_order(src, order, rnd):
    """The abstract case `src` (formula, map, interpretations) rebuilt in a FRESH environment with
    its nodes created in the given order (node ids = creation order are a hidden input of anything
    that sorts or prunes by id).  Returns a new Case with the implementation's results."""
    env = Environment()
    N = env.formula_manager.normalize
    keys = [k for k, _ in src.subs]
    vals = [v for _, v in src.subs]
    bodies = [fi.function_body for _, fi in src.interps]
    params = [p for _, fi in src.interps for p in fi.formal_params]
    fsyms = [fs for fs, _ in src.interps]
    everything = [src.f] + keys + vals + bodies + params + fsyms
    nodes = ctopo(everything)
    memo = {}
    keysyms = frozenset().union(*[free_syms(k, memo) for k in keys]) if keys else frozenset()
    apps = [n for n in ctopo([src.f]) if n.is_function_application() and not (free_syms(n, memo) & keysyms)]
    syms = sorted([n for n in nodes if n.is_symbol()], key=lambda n: n.symbol_name())
    consts = [n for n in nodes if n.is_constant() and not n.is_array_value()]
    if order == "symbols-first":
        pre = syms + [src.f]
    elif order == "applications-first":            # applications older than every key
        pre = apps + [n for n in ctopo([src.f]) if not (free_syms(n, memo) & keysyms)] + keys
    elif order == "formula-first":
        pre = [src.f] + bodies + vals + keys
    elif order == "values-first-keys-last":        # replacement terms older than the formula, keys younger
        pre = vals + bodies + apps + [n for n in ctopo([src.f]) if not (free_syms(n, memo) & keysyms)] + keys
    elif order == "constants-first":
        pre = consts + list(reversed(syms))
    else:
        pre = list(nodes)
        rnd.shuffle(pre)
    for n in pre:
        N(n)
    c = Case()
    c.env, c.order, c.kind, c.batch = env, order, src.kind, ORDER_BATCH
    c.f = N(src.f)
    c.subs = [(N(k), N(v)) for k, v in src.subs]
    c.interps = [(N(fs), FunctionInterpretation([N(p0) for p0 in fi.formal_params], N(fi.function_body), allow_free_vars=True))
                 for fs, fi in src.interps]
    run_impl(env, c)
    return c


def gen_order_batch(seed, tier):
    """Creation-order family: abstract cases (with substitution maps AND interpretations mixed in one
    call: all combinations of empty / non-empty) rebuilt in fresh environments under the creation
    orders ORDERS.  The results must be equal up to the environment (structural keys), agree with
    the Coq model (which has no node ids) and satisfy the oracle."""
    from pysmt.typing import BOOL, INT
    rnd = random.Random("c05|order|%d" % seed)
    env = Environment()
    g = FormulaGen(env, rnd, Config(strings=False, bv=False, custom=False, arrays=False, reals=(rnd.random() < 0.5)))
    mg = MapGen(env, g, rnd)
    m = env.formula_manager
    blue = []

    def add(f, subs, ip, kind):
        c = Case()
        c.f, c.subs, c.interps, c.kind = f, list(subs.items()), list(ip.items()), kind
        blue.append(c)
    # directed: applications outside / inside sub-terms that contain keys, nested, under binders
    x, y, z = g.syms[INT]
    b0 = g.syms[BOOL][0]
    f_ii = [fn for fn in g.funs if fn.symbol_name().endswith("f_ii")][0]
    p_iib = [fn for fn in g.funs if fn.symbol_name().endswith("p_iib")][0]
    q_bb = [fn for fn in g.funs if fn.symbol_name().endswith("q_bb")][0]
    pa, pb = m.Symbol("fa", INT), m.Symbol("fb", INT)
    pc = m.Symbol("fc", BOOL)
    fi_f = FunctionInterpretation([pa], m.Times(pa, m.Int(2)))
    fi_p = FunctionInterpretation([pa, pb], m.LE(pa, m.Plus(pb, m.Int(1))))
    fi_q = FunctionInterpretation([pc], m.Not(pc))
    F = lambda *a: m.Function(f_ii, list(a))
    P = lambda a, b: m.Function(p_iib, [a, b])
    directed = [
        (m.Equals(m.Plus(F(m.Plus(x, m.Int(1))), y), m.Int(0)), {y: m.Int(5)}, {f_ii: fi_f}),
        (m.LE(F(F(x)), y), {y: m.Plus(x, m.Int(1))}, {f_ii: fi_f}),
        (m.ForAll([z], P(F(z), y)), {y: m.Int(3)}, {f_ii: fi_f, p_iib: fi_p}),
        (m.And(P(x, F(m.Plus(y, m.Int(1)))), m.Function(q_bb, [b0])), {y: z}, {f_ii: fi_f, q_bb: fi_q}),
        (m.Equals(F(m.Plus(x, m.Int(1))), z), {m.Plus(x, m.Int(1)): y}, {f_ii: fi_f}),
        (m.Or(P(F(x), m.Int(1)), m.Exists([x], P(x, F(y)))), {m.Int(1): z, y: F(z)}, {p_iib: fi_p}),
        (m.Iff(m.Function(q_bb, [P(x, y)]), b0), {b0: P(F(x), y), y: m.Int(2)}, {f_ii: fi_f, q_bb: fi_q}),
        (m.LT(m.Times(F(x), F(y)), F(m.Plus(x, y))), {x: y}, {f_ii: fi_f}),
    ]
    for f, subs, ip in directed:
        add(f, subs, ip, "order:directed")
        add(f, subs, {}, "order:directed")
        add(f, {}, ip, "order:directed")
    n = 80 if tier == "quick" else 700
    tries = 0
    while len(blue) < n + 3 * len(directed) and tries < 40 * n:
        tries += 1
        f = g.gen(rnd.choice([BOOL, BOOL, INT]), rnd.randint(2, 4))
        if not f.is_term():
            continue
        has_app = any(s0 for s0 in f.get_free_variables() if not s0.is_term())
        if not has_app and rnd.random() < 0.85:
            continue
        combo = rnd.choice(["both", "both", "both", "both", "interp", "subs"])
        ip = mg.interps(f) if combo != "subs" else {}
        if combo == "interp":
            subs = {}
        else:
            subs = {"sym": mg.sym_map, "term": mg.term_map, "binder": mg.binder_map}[rnd.choice(["sym", "sym", "term", "binder"])](f)
        if not ip and not subs:
            continue
        if array_collision(f, subs) or pow_exponent_replaced(f, subs):
            continue
        add(f, subs, ip, "order:" + combo)
    out = []
    for bi, src in enumerate(blue):
        for order in ORDERS:
            c = rebuild_in_order(src, order, rnd)
            c.index, c.blueprint = len(out), bi
            out.append(c)
    return None, out


def order_dependence(chk, cases):
    """Results of the same abstract case under different creation orders must be structurally equal."""
    by = {}
    for c in cases:
        by.setdefault(c.blueprint, []).append(c)
    n = 0
    for bi, group in sorted(by.items()):
        def res(c):
            return (tocoq.skey(c.mgs) if c.mgs is not None else None, tocoq.skey(c.mss) if c.mss is not None else None)
        ref = group[0]
        for c in group[1:]:
            if res(c) != res(ref):
                n += 1
                d = c.describe()
                d.update({"kind": "input",
                          "what": "the result of substitute() depends on the order in which the terms were created in the FormulaManager",
                          "creation_order": c.order, "reference_creation_order": ref.order,
                          "observed_mgs": c.mgs.serialize()[:1200] if c.mgs is not None else "raises %s" % c.mgs_exc,
                          "observed_mss": c.mss.serialize()[:1200] if c.mss is not None else "raises %s" % c.mss_exc,
                          "reference_mgs": ref.mgs.serialize()[:1200] if ref.mgs is not None else "raises %s" % ref.mgs_exc,
                          "reference_mss": ref.mss.serialize()[:1200] if ref.mss is not None else "raises %s" % ref.mss_exc,
                          "oracle": "same abstract (formula, map, interpretations) rebuilt in a fresh environment; results compared by structural key",
                          "repro": "./check C05 --replay <this file>"})
                chk.violation(d, key="order:%s:%s" % (c.order, c.f.serialize()[:60]))
                break
    return n


def gen_batch(seed, batch, tier):
    """Deterministic in (seed, batch): list of Case with the implementation's results."""
    if batch == ORDER_BATCH:
        return gen_order_batch(seed, tier)
    if batch == SHARED_BATCH:
        return gen_shared_body_batch(seed, tier)
    rnd = random.Random("c05|%d|%d" % (seed, batch))
    env = Environment()
    cfg = Config()
    if batch % 4 == 1:
        cfg = Config(strings=False, bv=False, custom=False, arrays=False)     # dense Bool/Int/Real + quantifiers + UF
    elif batch % 4 == 2:
        cfg = Config(strings=False, reals=False, widths=(1, 2, 4))
    g = FormulaGen(env, rnd, cfg)
    mg = MapGen(env, g, rnd)
    n = 60 if tier == "quick" else 120
    cases = []
    for i in range(n):
        t = rnd.choice([g.types[0]] * 3 + g.types)
        f = g.gen(t, rnd.randint(2, 5))
        if not f.is_term():
            continue
        for kind in rnd.sample(["sym", "sym", "term", "term", "chain", "binder", "interp", "interp+sym"], 3):
            if kind.startswith("interp"):
                ip = mg.interps(f)
                subs = mg.sym_map(f) if kind == "interp+sym" and rnd.random() < 0.7 else ({} if kind == "interp" else mg.term_map(f))
                if not ip and not subs:
                    continue
            else:
                ip = {}
                subs = {"sym": mg.sym_map, "term": mg.term_map, "chain": mg.chain_map, "binder": mg.binder_map}[kind](f)
                if kind != "sym":
                    subs = mg.spoil(subs, f)
            if array_collision(f, subs) or pow_exponent_replaced(f, subs):
                continue
            c = Case()
            c.f, c.subs, c.interps, c.kind, c.batch, c.index = f, list(subs.items()), list(ip.items()), kind, batch, len(cases)
            run_impl(env, c)
            cases.append(c)
    return env, cases


def run_impl(env, c):
    subs, ip = dict(c.subs), dict(c.interps)
    c.mgs = c.mss = None
    c.mgs_exc = c.mss_exc = None
    try:
        c.mgs = MGSubstituter(env).substitute(c.f, subs=dict(subs), interpretations=dict(ip))
    except Exception as ex:   # noqa: any exception is the model's None
        c.mgs_exc = type(ex).__name__
    try:
        c.mss = MSSubstituter(env).substitute(c.f, subs=dict(subs), interpretations=dict(ip))
    except Exception as ex:   # noqa
        c.mss_exc = type(ex).__name__


def default_entry_points(env, c):
    """env.substituter (what FNode.substitute / shortcuts.substitute use) is the MGS."""
    if c.mgs is None:
        return None          # a failing call leaves env.substituter dirty: C15's subject, not ours
    try:
        r = env.substituter.substitute(c.f, subs=dict(c.subs), interpretations=dict(c.interps))
    except Exception as ex:   # noqa
        return "env.substituter.substitute raised %s where MGSubstituter(env) returned a result" % type(ex).__name__
    if r is not c.mgs:
        return "env.substituter.substitute differs from MGSubstituter(env).substitute"
    return None


# ------------------------------------------------------------------------------------------------
# correspondence: case files
# ------------------------------------------------------------------------------------------------
CASE_TYPE = "(imap * smap * term) * (option term * option term)"
OK_DEF = """
Definition oterm_eqb (a b : option term) : bool :=
  match a, b with Some x, Some y => term_eqb x y | None, None => true | _, _ => false end.
Definition ok (c : %s) : bool :=
  let '((p, s, t), (emgs, emss)) := c in
  oterm_eqb (substitute_mgs p s t) emgs && oterm_eqb (substitute_mss p s t) emss.
""" % CASE_TYPE
CANON_DEF = """
Definition ok (c : %s) : bool :=
  let '((p, s, t), _) := c in
  canon t && forallb (fun kv => canon (fst kv) && canon (snd kv)) s && forallb (fun fi => canon (fi_body (snd fi))) p.
""" % CASE_TYPE
IMPORTS = "From PySMT.models Require Import Substituter."


def var_lit(s):
    return "(%s, %s)" % (tocoq.cstr(s.symbol_name()), tocoq.ty(s.symbol_type()))


def case_roots(c):
    roots = [c.f]
    for k, v in c.subs:
        roots += [k, v]
    for _, fi in c.interps:
        roots.append(fi.function_body)
    for r in (c.mgs, c.mss):
        if r is not None:
            roots.append(r)
    return roots


def case_body(c):
    def body(names):
        p = "[%s]" % "; ".join("(%s, {| fi_params := [%s]; fi_body := %s |})"
                               % (var_lit(fs), "; ".join(var_lit(x) for x in fi.formal_params), names[fi.function_body])
                               for fs, fi in c.interps)
        s = "[%s]" % "; ".join("(%s, %s)" % (names[k], names[v]) for k, v in c.subs)
        e1 = "None" if c.mgs is None else "(Some %s)" % names[c.mgs]
        e2 = "None" if c.mss is None else "(Some %s)" % names[c.mss]
        return "((%s, %s, %s), (%s, %s))" % (p, s, names[c.f], e1, e2)
    return body


def write_cases(dirpath, tag, cases, ok_def, shard):
    files = []
    for k in range(0, len(cases), shard):
        rows = [with_terms(case_roots(c), case_body(c)) for c in cases[k:k + shard]]
        text = termcases.PREAMBLE % IMPORTS
        text += "Definition cases : list (%s) := [\n%s\n].\n" % (CASE_TYPE, ";\n".join(rows))
        text += ok_def + "\nEval vm_compute in mismatches ok cases.\n"
        p = os.path.join(dirpath, "cases_%s_%d.v" % (tag, k // shard))
        with open(p, "w") as f:
            f.write(text)
        files.append((p, k, len(rows)))
    return files


# ------------------------------------------------------------------------------------------------
# property-level oracle (independent of the model)
# ------------------------------------------------------------------------------------------------
def free_syms(n, memo):
    """Own free-symbol computation (function names included), memoised per node."""
    for m in tocoq.topo([n]):
        if m in memo:
            continue
        if m.is_symbol():
            memo[m] = frozenset([m])
        else:
            s = frozenset().union(*[memo[c] for c in m.args()]) if m.args() else frozenset()
            if m.node_type() == op.FUNCTION:
                s = s | frozenset([m.function_name()])
            if m.is_quantifier():
                s = s - frozenset(m.quantifier_vars())
            memo[m] = s
    return memo[n]


def proviso_holds(f, subs, memo):
    """No free symbol of a replacement term falls under a quantifier binding it: for every
    quantifier Q of f and every key x that is free in Q's body and not bound by Q, the free
    symbols of subs[x] are disjoint from Q's variables.  (Conservative: every quantifier node of
    f counts, also those under a binder of x.)"""
    for q in tocoq.topo([f]):
        if not q.is_quantifier():
            continue
        qv = frozenset(q.quantifier_vars())
        body_free = free_syms(q.arg(0), memo)
        for x, v in subs:
            if x in qv or x not in body_free:
                continue
            if free_syms(v, memo) & qv:
                return False
    return True


def quantifier_free(n):
    return not any(m.is_quantifier() for m in tocoq.topo([n]))


def defect_class(c, which):
    """Stable identifier of the known way in which MSS breaks the lemma on symbol keys: a value
    (not y) whose y is a key again - the rebuilt node not(not y) is normalised to y by mgr.Not and
    looked up a second time."""
    keys = set(k for k, _ in c.subs)
    if which == "MSSubstituter" and any(v.is_not() and v.arg(0) in keys for _, v in c.subs):
        return "mss:double-negation-collapse-resubstituted"
    return None


def directed_witness(chk):
    """The closed witness of C05_subst_lemma_mss_refuted / C05_mgs_mss_sym_refuted on the implementation."""
    env = Environment()
    m = env.formula_manager
    b = m.Symbol("b")
    f, subs = m.Not(b), {b: m.Not(b)}
    mgs = MGSubstituter(env).substitute(f, dict(subs))
    mss = MSSubstituter(env).substitute(f, dict(subs))
    chk.count(("witness", "mss-not"))
    if mgs is not b:
        chk.violation({"kind": "input", "what": "MGSubstituter: Not(b)[b := Not(b)] should be b (value: not not b)",
                       "formula": "(! b)", "subs": [["b", "(! b)"]], "observed": mgs.serialize()}, key="mgs:witness")
    if mss is not b:
        chk.violation({"kind": "input", "what": "MSSubstituter(env).substitute(Not(b), {b: Not(b)}) = %s; the substitution lemma "
                       "requires a formula equivalent to b (MGSubstituter returns b)" % mss.serialize(),
                       "formula": "(! b)", "subs": [["b", "(! b)"]], "observed": mss.serialize(), "expected": "b",
                       "theorem": "C05_subst_lemma_mss_refuted, C05_mgs_mss_sym_refuted",
                       "repro": "from pysmt.shortcuts import *; from pysmt.substituter import MSSubstituter; b = Symbol('b'); "
                                "print(MSSubstituter(get_env()).substitute(Not(b), {b: Not(b)}))"},
                      key="mss:double-negation-collapse-resubstituted")


def directed_witness_key_raises(chk):
    """The closed witness of C05_mgs_key_raises_witness on the implementation."""
    from pysmt.typing import REAL
    env = Environment()
    m = env.formula_manager
    x, r = m.Symbol("x", REAL), m.Symbol("r", REAL)
    t = m.LT(m.Pow(x, m.Real(2)), m.Real(1))
    chk.count(("witness", "mgs-key-raises"))
    try:
        res = MGSubstituter(env).substitute(t, {t: m.TRUE(), m.Real(2): r})
    except Exception as ex:   # noqa
        res = "raises %s" % type(ex).__name__
    if res is not m.TRUE():
        chk.violation({"kind": "input", "what": "MGSubstituter: the formula itself is a key, the documented most-general result is its "
                       "replacement; observed: %s (the children of a key are rebuilt first, mgr.Pow rejects the non-constant exponent)" % (res,),
                       "formula": t.serialize(), "subs": [[t.serialize(), "True"], ["2.0", "r"]], "expected": "True", "observed": str(res),
                       "theorem": "C05_mgs_key_raises_witness",
                       "repro": "x, r = Symbol('x', REAL), Symbol('r', REAL); t = LT(Pow(x, Real(2)), Real(1)); t.substitute({t: TRUE(), Real(2): r})"},
                      key="mgs:raises-below-a-key")


def semantic_oracle(chk, c, rnd, ninterp):
    """Returns (#interpretations compared, violation description or None)."""
    res = c.mgs
    if res is None and c.mss is None:
        return 0, None
    memo = {}
    sym_keys = all(k.is_symbol() for k, _ in c.subs)
    if not sym_keys:
        return 0, None
    if c.interps:
        # interpretations: closed quantifier-free bodies, distinct formals, right arity
        for fs, fi in c.interps:
            ps = fi.formal_params
            if len(set(ps)) != len(ps) or len(ps) != len(fs.symbol_type().param_types):
                return 0, None
            if not quantifier_free(fi.function_body) or not free_syms(fi.function_body, memo) <= frozenset(ps):
                return 0, None
            if any(p.symbol_type() != t for p, t in zip(ps, fs.symbol_type().param_types)):
                return 0, None
        if c.subs:
            return 0, None       # map and interpretations together: no semantic reading is documented
    if not proviso_holds(c.f, c.subs, memo):
        return 0, None
    done = 0
    forms = [c.f] + [v for _, v in c.subs] + [fi.function_body for _, fi in c.interps]
    for _ in range(ninterp):
        I = refeval.random_interp(rnd, forms, div0="function")
        try:
            upd = {}
            for k, v in c.subs:
                val, ex = refeval.evaluate_ex(v, I)
                if not ex:
                    raise refeval.Inexact(val)
                upd[k] = val
            J = refeval.interp_updated(I, upd)
            for fs, fi in c.interps:
                def fun(*args, _fi=fi, _I=I):
                    K = refeval.interp_updated(_I, dict(zip(_fi.formal_params, args)))
                    return refeval.evaluate(_fi.function_body, K)
                J.set_function(fs, fun)
            want, ex = refeval.evaluate_ex(c.f, J)
            if not ex:
                continue
            for which, r in (("MGSubstituter", c.mgs), ("MSSubstituter", c.mss)):
                if r is None:
                    continue
                got, ex2 = refeval.evaluate_ex(r, I)
                if not ex2:
                    continue
                done += 1
                if type(got) is not type(want) or got != want:
                    return done, {"defect_class": defect_class(c, which),"what": "%s: value of the result differs from the value of the original under the updated interpretation" % which,
                                  "strategy": which, "result": r.serialize()[:1500],
                                  "value_of_result": repr(got), "value_of_original_under_updated_interpretation": repr(want),
                                  "interpretation": {"%s" % (k[0],): repr(v) for k, v in sorted(I.symbols.items(), key=lambda kv: kv[0][0])}}
        except refeval.RefEvalError:
            continue
    return done, None


# ------------------------------------------------------------------------------------------------
# driver
# ------------------------------------------------------------------------------------------------
def check_batch_cases(chk, batch, env, cases, rnd, tier, stats):
    for c in cases:
        key = ("case", tocoq.skey(c.f), tuple((tocoq.skey(k), tocoq.skey(v)) for k, v in c.subs),
               tuple((fs.symbol_name(), tocoq.skey(fi.function_body)) for fs, fi in c.interps))
        chk.count(key, nontrivial=bool(c.subs or c.interps))
        stats["kinds"][c.kind] = stats["kinds"].get(c.kind, 0) + 1
        if c.mgs is None:
            stats["raises"] += 1
        elif c.mgs is not c.f:
            stats["changed"] += 1
        if c.mgs is not None and c.mss is not None and c.mgs is not c.mss:
            stats["mgs_ne_mss"] += 1
        msg = default_entry_points(getattr(c, "env", None) or env, c)
        if msg:
            d = c.describe()
            d.update({"kind": "input", "what": msg, "repro": "./check C05 --replay <this file>"})
            chk.violation(d, key="entry:%s" % msg[:40])
        n, bad = semantic_oracle(chk, c, rnd, (3 if c.kind.startswith(("shared", "order")) else 6) if tier == "quick" else 12)
        stats["semantic_evals"] += n
        if n:
            stats["semantic_cases"] += 1
        if bad:
            d = c.describe()
            d.update(bad)
            d.update({"kind": "input", "oracle": "harness/refeval.py on both sides of the substitution lemma",
                      "repro": "./check C05 --replay <this file>"})
            chk.violation(d, key=bad.get("defect_class") or "sem:%s" % (c.f.serialize()[:80],))


def run(tier):
    chk = lib.Check("C05", tier)
    rnd = random.Random(chk.seed)
    lib.clean_cases(chk.dir)
    from . import gen_all
    gen_all.regen_all()      # coq/gen (operator table, dispatch tables) is rebuilt from the repository under test
    ok = chk.prove()
    chk.note("proof closure: %s" % ("ok" if ok else "FAILED " + lib.proof_failure_summary(chk)))
    directed_witness(chk)
    directed_witness_key_raises(chk)
    nb = 10 if tier == "quick" else 60
    stats = {"kinds": {}, "raises": 0, "changed": 0, "mgs_ne_mss": 0, "semantic_evals": 0, "semantic_cases": 0}
    all_cases, files, canon_files = [], [], []
    for b in list(range(nb)) + [SHARED_BATCH, ORDER_BATCH]:
        env, cases = gen_batch(chk.seed, b, tier)
        if b == ORDER_BATCH:
            stats["order_dependent"] = order_dependence(chk, cases)
        check_batch_cases(chk, b, env, cases, rnd, tier, stats)
        off = len(all_cases)
        for p, k, n in write_cases(chk.dir, "b%d" % b, cases, OK_DEF, 100):
            files.append((p, off + k, n))
        if not (tier == "quick" and b == ORDER_BATCH):     # copies of formulas of the same generator: canon checked in thorough
            for p, k, n in write_cases(chk.dir, "canon%d" % b, cases, CANON_DEF, 200):
                canon_files.append((p, off + k, n))
        all_cases += cases
    chk.cov["creation_order_family"] = {"cases": sum(v for k0, v in stats["kinds"].items() if k0.startswith("order:")),
                                        "orders": ORDERS, "order_dependent_results": stats.get("order_dependent", 0)}
    chk.cov["directed_shared_body_family"] = stats["kinds"].get("shared", 0) + stats["kinds"].get("shared+term", 0)
    chk.note("generated %d cases in %d batches; implementation raised on %d, changed the formula on %d, MGS<>MSS on %d; "
             "semantic oracle: %d evaluations on %d cases" % (len(all_cases), nb, stats["raises"], stats["changed"],
                                                             stats["mgs_ne_mss"], stats["semantic_evals"], stats["semantic_cases"]))
    for c in all_cases[:3]:
        d = c.describe()
        d["mgs_result"] = c.mgs.serialize()[:300] if c.mgs is not None else c.mgs_exc
        chk.sample(d)
    corr_bad = []
    if os.path.exists(os.path.join(lib.COQ, "models", "Substituter.vo")):
        bad, errs = termcases.run(files)
        cbad, cerrs = termcases.run(canon_files)
        for e in errs + cerrs:
            corr_bad.append(e)
            chk.note("case file error: %s" % e["error"][-400:])
        for i in cbad[:5]:
            corr_bad.append({"canon": all_cases[i].describe()})
            chk.note("input is not a fixed point of the constructor model (models/Ctors.v / TypeChecker.v): %s" % all_cases[i].f.serialize()[:200])
        for i in bad:
            c = all_cases[i]
            d = c.describe()
            d.update({"kind": "input",
                      "what": "result of substitute() is not the documented most-general / most-specific replacement (models/Substituter.v)",
                      "observed_mgs": c.mgs.serialize()[:1500] if c.mgs is not None else "raises %s" % c.mgs_exc,
                      "observed_mss": c.mss.serialize()[:1500] if c.mss is not None else "raises %s" % c.mss_exc,
                      "oracle": "models/Substituter.v substitute_mgs / substitute_mss evaluated by coqc (exact structural equality)",
                      "repro": "./check C05 --replay <this file>"})
            corr_bad.append(d)
            chk.violation(d, key="corr:%s:%s" % (c.kind, c.f.serialize()[:60]))
    else:
        corr_bad.append({"error": "models/Substituter.v does not compile"})
    chk.cov["correspondence"] = {"cases": len(all_cases), "disagreements": len(corr_bad), "map_kinds": stats["kinds"],
                                 "implementation_raised": stats["raises"], "formula_changed": stats["changed"],
                                 "mgs_differs_from_mss": stats["mgs_ne_mss"], "compared": "MGSubstituter, MSSubstituter, env.substituter "
                                 "results vs substitute_mgs / substitute_mss: term_eqb (None = any exception)"}
    chk.cov["search_oracle"] = {"cases": stats["semantic_cases"], "evaluations": stats["semantic_evals"]}
    if (not ok or corr_bad) and not chk.violations and not chk.known_hits:
        what = []
        if not ok:
            what.append("proof obligations no longer check: " + lib.proof_failure_summary(chk))
        if corr_bad:
            what.append("correspondence model<->implementation differs: %s" % str(corr_bad[:2])[:1500])
        chk.violation({"kind": "obligation", "theorem_or_correspondence": what}, found_input=False)
    return chk.finish(TRUSTED, ASSUMPTIONS, RULE)


def replay(path):
    r = json.load(open(path))
    print(json.dumps(r, indent=1)[:4000])
    if "batch" not in r:
        return run("quick")
    seed = int(os.environ.get("VERIF_SEED", "0"))
    env, cases = gen_batch(seed, r["batch"], os.environ.get("VERIF_TIER", "quick"))
    c = cases[r["index"]]
    print("formula :", c.f.serialize())
    if getattr(c, "order", None):
        print("creation order of the nodes in a fresh environment:", c.order)
    for k, v in c.subs:
        print("  %s  ->  %s" % (k.serialize(), v.serialize()))
    for fs, fi in c.interps:
        print("  %s(%s) := %s" % (fs.symbol_name(), ", ".join(p.symbol_name() for p in fi.formal_params), fi.function_body.serialize()))
    print("MGS     :", c.mgs.serialize() if c.mgs is not None else "raises " + str(c.mgs_exc))
    print("MSS     :", c.mss.serialize() if c.mss is not None else "raises " + str(c.mss_exc))
    d = lib.mkdir(os.path.join(lib.BUILD, "C05", "replay"))
    lib.clean_cases(d)
    files = write_cases(d, "replay", [c], OK_DEF, 10)
    bad, errs = termcases.run(files)
    n, sem = semantic_oracle(None, c, random.Random(seed), 40)
    print("model agrees:", not bad and not errs, "; semantic oracle (%d evaluations):" % n, sem or "no difference")
    return 1 if (bad or errs or sem) else 0
