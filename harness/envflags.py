"""ENVIRONMENT-FLAGS family: the configuration attributes of pysmt.environment.Environment that code under pysmt/ reads
(enable_div_by_0: formula.py Div, solvers/solver.py Model; enable_infix_notation: decorators.py, typing.py;
allow_empty_var_names: formula.py _create_symbol) are hidden inputs.  What an analysis reports for a formula is a
function of the formula alone: formulas are built under every value of every flag, analysed under every value, the
flags are flipped between building and analysing and between two analyses on one environment (memo tables)."""
import itertools
import warnings

FLAGS = ("enable_div_by_0", "enable_infix_notation", "allow_empty_var_names")


def combos():
    for vals in itertools.product((True, False), repeat=len(FLAGS)):
        yield dict(zip(FLAGS, vals))


def set_flags(env, d):
    for k, v in d.items():
        if not hasattr(env, k):
            raise AttributeError("Environment has no flag %s" % k)
        setattr(env, k, v)


def label(d):
    return "".join("1" if d[k] else "0" for k in FLAGS)


def division_formulas(env):
    """Divisions, products and the theory crossings around them (whatever the current flags let be built)."""
    from pysmt.typing import INT, REAL, BVType, FunctionType
    m = env.formula_manager
    x, y = m.Symbol("fx", INT), m.Symbol("fy", INT)
    r, s = m.Symbol("fr", REAL), m.Symbol("fs", REAL)
    f = m.Symbol("ff", FunctionType(INT, [INT]))
    bv = m.Symbol("fbv", BVType(8))
    build = [lambda: m.Equals(m.Div(x, m.Int(0)), y), lambda: m.LE(m.Div(r, m.Real(0)), s), lambda: m.Equals(m.Div(x, m.Int(3)), y),
             lambda: m.LE(m.Div(r, m.Real(3)), s), lambda: m.Equals(m.Div(x, y), m.Int(1)), lambda: m.Equals(m.Div(m.Int(4), m.Int(0)), y),
             lambda: m.LE(m.Plus(m.Div(x, m.Int(0)), y), m.Int(7)), lambda: m.Equals(m.Times(x, m.Div(y, m.Int(0))), m.Int(0)),
             lambda: m.Equals(m.Function(f, [m.Div(x, m.Int(0))]), y), lambda: m.Equals(m.Times(x, y), m.Int(0)),
             lambda: m.Equals(m.Times(x, m.Int(2)), y), lambda: m.LE(m.Minus(x, y), m.Int(3)), lambda: m.LE(m.Minus(r, s), m.Real(3)),
             lambda: m.Equals(m.BVToNatural(bv), m.Div(x, m.Int(0))), lambda: m.LE(m.ToReal(m.Div(x, m.Int(0))), r),
             lambda: m.ForAll([x], m.Equals(m.Div(x, m.Int(0)), y)), lambda: m.Equals(m.Pow(r, m.Real(2)), s),
             lambda: m.Equals(m.Div(m.Div(x, m.Int(0)), m.Int(0)), m.Int(0))]
    out = []
    with warnings.catch_warnings():
        warnings.simplefilter("ignore")
        for b in build:
            try:
                out.append(b())
            except Exception:   # noqa: not constructible under the current flags (Div(r, Real(0)) with enable_div_by_0 off)
                pass
    return out
