"""Objects that are DIFFERENT but have the SAME Python hash, constructed at run time and verified against hash().

For checks of code that might identify things by hash value (tables keyed by hash(x), memo keys built from hashes,
`is`-like shortcuts after a hash comparison).  Every constructor verifies its result with the real hash() and returns
None (never raises) when this Python build does not behave like the model - callers then record the family as skipped.

  int_pair(n)              n and n + (2**61 - 1)            (sys.hash_info.modulus)
  fraction_pair()          Fraction(1, 2) and Fraction(1 + 2 * M, 2)        (and the integer 2**60, see mixed_pair)
  mixed_pair()             Fraction(1, 2) and the int (M + 1) // 2
  tuple_pair(a, b, rest)   (a,) + rest and (b,) + rest for a colliding pair a, b
  frozenset_pairs(objs)    disjoint equal-sized subsets A, B of objs with hash(frozenset(A)) == hash(frozenset(B)),
                           by Gaussian elimination over GF(2) on CPython's frozenset hash (an XOR of per-element shuffles
                           of the element hashes, then a final scramble that depends on the XOR and the length only);
                           pySMT's FNode hashes to its node_id, so ~70 fresh nodes of one manager always contain such a pair.
"""
import sys
from fractions import Fraction

MASK = (1 << 64) - 1
M = sys.hash_info.modulus


def int_pair(n=12345):
    a, b = n, n + M
    return (a, b) if a != b and hash(a) == hash(b) else None


def fraction_pair():
    a, b = Fraction(1, 2), Fraction(1 + 2 * M, 2)
    return (a, b) if a != b and hash(a) == hash(b) else None


def mixed_pair():
    a, b = Fraction(1, 2), (M + 1) // 2
    return (a, b) if a != b and hash(a) == hash(b) else None


def tuple_pair(a, b, rest=()):
    x, y = (a,) + tuple(rest), (b,) + tuple(rest)
    return (x, y) if x != y and hash(x) == hash(y) else None


def _shuffle(h):
    return (((h ^ 89869747) ^ (h << 16)) * 3644798167) & MASK


def model_frozenset_hash(hashes):
    x = 0
    for h in hashes:
        x ^= _shuffle(h & MASK)
    x ^= ((len(hashes) + 1) * 1927868237) & MASK
    x ^= (x >> 11) ^ (x >> 25)
    x = (x * 69069 + 907133923) & MASK
    if x >= 1 << 63:
        x -= 1 << 64
    if x == -1:
        x = 590923713
    return x


def frozenset_pairs(objs, want=1):
    """Up to `want` pairs (A, B) of disjoint equal-sized lists of members of objs whose frozensets have equal hash.
    [] when none is found or the hash model does not match this build."""
    objs = list(objs)
    out = []
    basis = {}          # leading bit -> (vector, combination bitmask)
    used = 0
    for i, o in enumerate(objs):
        vec, comb = _shuffle(hash(o) & MASK) | (1 << 64), 1 << i       # bit 64 forces an even number of members
        while vec:
            top = vec.bit_length() - 1
            if top not in basis:
                basis[top] = (vec, comb)
                break
            bvec, bcomb = basis[top]
            vec ^= bvec
            comb ^= bcomb
        if vec == 0 and comb:
            sel = [j for j in range(len(objs)) if (comb >> j) & 1]
            if len(sel) >= 2 and len(sel) % 2 == 0 and not (comb & used):
                half = len(sel) // 2
                a, b = [objs[j] for j in sel[:half]], [objs[j] for j in sel[half:]]
                fa, fb = frozenset(a), frozenset(b)
                if len(fa) == len(fb) == half and fa.isdisjoint(fb) and hash(fa) == hash(fb) \
                        and hash(fa) == model_frozenset_hash([hash(x) for x in a]):
                    out.append((a, b))
                    used |= comb
                    if len(out) >= want:
                        break
    return out
