"""C06 - derived constructors and infix operators denote what their names say.

Two independent checks on the implementation in lib.REPO, both in FRESH Environments with infix
notation enabled:
 (1) correspondence: the formula built by every derived constructor / infix form is structurally
     identical (term_eqb) to the one models/Derived.v builds, and raises exactly when the model
     (plus the type check of the result) says None;
 (2) property-level oracle, independent of the model: the value of the built formula under the
     reference evaluator (harness/refeval.py) equals a DIRECT Python definition of the named
     function applied to the values of the operands - exhaustively over all Bool / small-BV
     assignments, sampled for Int / Real.
"""
import json
import random
import warnings
from fractions import Fraction

from pysmt.environment import Environment
from pysmt.typing import BOOL, INT, REAL, BVType, FunctionType

from . import gen_all, lib, refeval, termcases, tocoq
from .refeval import BV

TRUSTED = [
    "Coq 8.16.1 kernel (coqc); vm_compute only inside the bounded enumeration lemmas that say so; no native_compute",
    "core/Sem.v: the semantic specification (eval, op_sem and the bit-vector functions on Z) every *_sem theorem is stated against",
    "hand model models/Derived.v (+ models/Ctors.v, models/TypeChecker.v) of the derived FormulaManager constructors, shortcuts.Abs and the FNode infix forms, tied to pysmt/formula.py, pysmt/shortcuts.py, pysmt/fnode.py by this run's exact structural correspondence",
    "standard-library axioms reported by Print Assumptions for the semantic theorems (they enter through core/Sem.v: Coq's real numbers and excluded_middle_informative): ClassicalDedekindReals.sig_forall_dec, FunctionalExtensionality.functional_extensionality_dep, Description.constructive_definite_description, Classical_Prop.classic; C06_sbv is closed under the global context; no axiom is declared by this development",
    "harness/tocoq.py (FNode -> Gallina literal); harness/refeval.py (independent evaluator) and the direct Python definitions in harness/c06.py for the property-level oracle",
]
ASSUME = [
    "infix notation is enabled and the environment under get_env() is the one that owns the operands",
    "literal promotion is modelled for a constant cache without cross-type hits (Int(True) after Int(1), Int(Fraction(2)) after Int(2) return the cached node: history dependence, properties C04/C14)",
    "theorems carry explicit sort hypotheses on the operand VALUES (VBool/VInt/VReal/VBV of the stated width and range) and, for bit-vector constructors that read bv_width(), tc a = Some (TBV w); Not nodes have one argument",
    "BVRepeat: accepted iff count >= 1 (C06_repeat); count <= 0 returning one copy was the finding repaired in /repo commit 9f23fdc and is now a regression case of the domain oracle (keys accepts:BVRepeat:*/count<=0)",
]
RULE = ("every derived constructor and infix form x arities 0-6 x argument shapes (symbol / constant / compound) over Bool, Int, Real, BV1-3 "
        "(BV4 in thorough), both calling conventions F(a,b,c) and F([a,b,c]); exact structural equality with the model; oracle exhaustive over all "
        "assignments when the operands have at most LIMIT of them (Bool, BV), sampled otherwise and for Int/Real; distinct = distinct (call, argument keys)")

VALID, INVALID, ANY = "valid", "invalid", "any"
MUST_RAISE = object()
SKIP = object()


class Spec(object):
    __slots__ = ("name", "sig", "desc", "impl", "model", "operands", "direct", "valid", "result", "exc", "canonical")

    def __init__(self, name, sig, desc, impl, model, operands=(), direct=None, valid=ANY, canonical=False):
        self.name, self.sig, self.desc, self.impl, self.model = name, sig, desc, impl, model
        self.operands, self.direct, self.valid, self.canonical = list(operands), direct, valid, canonical
        self.result, self.exc = None, None


# ------------------------------------------------------------------------------ small helpers
def zc(n):
    return "(%d)%%Z" % n


def clist(xs):
    return "[" + "; ".join(xs) + "]"


def sort_of(f):
    return f.get_type()


def sname(t):
    if t.is_bool_type():
        return "Bool"
    if t.is_int_type():
        return "Int"
    if t.is_real_type():
        return "Real"
    if t.is_bv_type():
        return "BV%d" % t.width
    return str(t)


def operand_coq(nm, r):
    """Gallina [operand] of a right operand (formula or Python literal)."""
    if hasattr(r, "node_type"):
        return "(OpT %s)" % nm[r]
    if type(r) is bool:
        return "(OpBool %s)" % ("true" if r else "false")
    if type(r) is int:
        return "(OpInt %s)" % zc(r)
    q = Fraction(r)
    return "(OpFrac %s %s)" % (zc(q.numerator), zc(q.denominator))


def lit_text(r):
    return r.serialize() if hasattr(r, "node_type") else repr(r)


def mask(w):
    return (1 << w) - 1


def bvv(w, v):
    return BV(w, v & mask(w))


# ------------------------------------------------------------------------------ direct definitions
def smt_div(a, b):
    return a // b if b > 0 else -(a // -b)


def d_smod(a, b):
    """SMT-LIB bvsmod: remainder with the sign of the divisor; bvsmod s 0 = s."""
    sa, sb = a.signed(), b.signed()
    if sb == 0:
        return a
    return bvv(a.width, sa % sb)          # Python's % has the sign of the divisor


def d_repeat(a, count):
    v = 0
    for _ in range(count):
        v = (v << a.width) | a.value
    return BV(a.width * count, v)


def d_concat(vals):
    v, w = 0, 0
    for a in vals:
        v, w = (v << a.width) | a.value, w + a.width
    return BV(w, v)


def py_sem(op, a, b):
    """Meaning of the Python operator `op` on two values of one sort, by its name."""
    if isinstance(a, BV):
        if not isinstance(b, BV) or a.width != b.width:
            return MUST_RAISE
        w, x, y = a.width, a.value, b.value
        if op in ("PAdd", "PRadd"):
            return bvv(w, x + y)
        if op == "PSub":
            return bvv(w, x - y)
        if op == "IRsub":
            return bvv(w, y - x)
        if op in ("PMul", "PRmul"):
            return bvv(w, x * y)
        if op == "PDiv":
            return BV(w, mask(w) if y == 0 else x // y)
        if op == "PMod":
            return BV(w, x if y == 0 else x % y)
        if op in ("PAnd", "PRand"):
            return BV(w, x & y)
        if op in ("POr", "PRor"):
            return BV(w, x | y)
        if op in ("PXor", "PRxor"):
            return BV(w, x ^ y)
        if op == "PLshift":
            return bvv(w, x << y) if y < w else BV(w, 0)
        if op == "PRshift":
            return BV(w, x >> y) if y < w else BV(w, 0)
        return {"PGt": x > y, "PGe": x >= y, "PLt": x < y, "PLe": x <= y}[op]
    if type(a) is bool:
        if type(b) is not bool:
            return MUST_RAISE
        if op in ("PAnd", "PRand"):
            return a and b
        if op in ("POr", "PRor"):
            return a or b
        if op in ("PXor", "PRxor"):
            return a != b
        return MUST_RAISE
    if type(a) is int and type(b) is int or isinstance(a, Fraction) and isinstance(b, Fraction):
        if op in ("PAdd", "PRadd"):
            return a + b
        if op == "PSub":
            return a - b
        if op == "IRsub":
            return b - a
        if op in ("PMul", "PRmul"):
            return a * b
        if op == "PDiv":
            if b == 0:
                return SKIP
            return smt_div(a, b) if type(a) is int else a / b
        if op in ("PGt", "PGe", "PLt", "PLe"):
            return {"PGt": a > b, "PGe": a >= b, "PLt": a < b, "PLe": a <= b}[op]
        return MUST_RAISE
    return MUST_RAISE


def promote(lit, t):
    """Value a Python literal stands for next to an operand of sort t (None: not allowed)."""
    if t.is_bv_type():
        return BV(t.width, lit) if type(lit) is int and 0 <= lit < (1 << t.width) else None
    if t.is_bool_type():
        return lit if type(lit) is bool else None
    if t.is_int_type():
        return lit if type(lit) is int else None
    if t.is_real_type():
        return Fraction(lit) if type(lit) in (int, float, Fraction) else None
    return None


# ------------------------------------------------------------------------------ argument pools
class Pools(object):
    def __init__(self, env, widths, small_consts=True):
        m = env.formula_manager
        self.m = m
        self.P = {}
        p = [m.Symbol("p%d" % i, BOOL) for i in range(6)]
        self.P[BOOL] = {"sym": p, "const": [m.TRUE(), m.FALSE()],
                        "comp": [m.Not(p[0]), m.Not(p[1]), m.And(p[0], p[1]), m.Or(p[2], p[3]), m.Iff(p[1], p[2]), m.Not(m.And(p[4], p[5]))]}
        i = [m.Symbol("i%d" % k, INT) for k in range(6)]
        self.P[INT] = {"sym": i, "const": [m.Int(2), m.Int(-3), m.Int(7)] + ([m.Int(0), m.Int(1)] if small_consts else []),
                       "comp": [m.Plus(i[0], m.Int(2)), m.Times(i[1], i[2]), m.Ite(p[0], i[0], i[1]), m.Minus(i[3], i[0])]}
        r = [m.Symbol("r%d" % k, REAL) for k in range(6)]
        self.P[REAL] = {"sym": r, "const": [m.Real(Fraction(1, 2)), m.Real(-2)] + ([m.Real(0), m.Real(1)] if small_consts else []),
                        "comp": [m.Plus(r[0], r[1]), m.ToReal(i[0]), m.Times(r[2], m.Real(Fraction(3, 4))), m.Ite(p[1], r[0], r[3])]}
        for w in widths:
            t = BVType(w)
            x = [m.Symbol("x%d_%d" % (w, k), t) for k in range(6)]
            vals = range(1 << w) if w <= 2 else sorted(set([0, 1, 2, mask(w), 1 << (w - 1), (1 << (w - 1)) - 1, (1 << (w - 1)) + 1]))
            self.P[t] = {"sym": x, "const": [m.BV(v, w) for v in vals],
                         "comp": [m.BVNot(x[0]), m.BVAdd(x[0], x[1]), m.Ite(p[0], x[0], x[1]), m.BVNeg(x[2])]}
        self.sorts = [BOOL, INT, REAL] + [BVType(w) for w in widths]

    def pick(self, rnd, t, syms=None):
        u = rnd.random()
        pl = self.P[t]
        if u < 0.55:
            return rnd.choice(pl["sym"] if syms is None else pl["sym"][:syms])
        if u < 0.75:
            return rnd.choice(pl["const"])
        return rnd.choice(pl["comp"])

    def shapes(self, t):
        pl = self.P[t]
        return [pl["sym"][0], pl["const"][0], pl["comp"][0]]


# ------------------------------------------------------------------------------ case generation
def nary_specs(pools, rnd, tier, out):
    m = pools.m
    bvs = [t for t in pools.sorts if t.is_bv_type()]

    def add(name, coq_fn, sorts_ok, direct, min_arity, call, extra_sig="", mixed_ok=False, sorts=None):
        for t in (sorts or pools.sorts):
            for n in range(0, 7):
                argsets = [(list(pools.P[t]["sym"][:n]), True)]
                reps = 3 if tier == "quick" else 10
                for _ in range(reps if n else 0):
                    argsets.append(([pools.pick(rnd, t, syms=3 if rnd.random() < 0.5 else None) for _ in range(n)], False))
                if n >= 2 and not mixed_ok:      # one ill-sorted argument
                    other = rnd.choice([s for s in pools.sorts if s != t])
                    a = [pools.pick(rnd, t) for _ in range(n)]
                    a[rnd.randrange(n)] = pools.pick(rnd, other)
                    argsets.append((a, False))
                for args, canon in argsets:
                    same = all(sort_of(a) == t for a in args)
                    if not same:
                        valid = INVALID if n >= 2 else ANY
                    elif not sorts_ok(t):
                        valid = INVALID if n >= max(2, min_arity) else ANY
                    else:
                        valid = VALID if n >= min_arity else INVALID
                    for conv in ("star", "list"):
                        if conv == "list" and (n == 0 or rnd.random() < 0.5) and not canon:
                            continue
                        out.append(Spec(name, "%s%s/%d%s" % (sname(t), extra_sig, n, "" if same else "/mixed"),
                                        "%s(%s%s)" % (name, "*" if conv == "star" else "", [a.serialize() for a in args]),
                                        (lambda args=args, conv=conv: call(*args) if conv == "star" else call(list(args))),
                                        (lambda nm, args=args: coq_fn(clist([nm[a] for a in args]))),
                                        operands=args, direct=(direct if same and sorts_ok(t) else None), valid=valid, canonical=canon))

    arith = lambda t: t.is_int_type() or t.is_real_type()
    isbool = lambda t: t.is_bool_type()
    isbv = lambda t: t.is_bv_type()
    add("Min", lambda l: "mk_min %s" % l, arith, lambda v: min(v), 1, m.Min)
    add("Max", lambda l: "mk_max %s" % l, arith, lambda v: max(v), 1, m.Max)
    for sign in (False, True):
        key = (lambda x: x.signed()) if sign else (lambda x: x.value)
        sg = "true" if sign else "false"
        add("MinBV", lambda l, sg=sg: "mk_minbv %s %s" % (sg, l), isbv, lambda v, key=key: min(v, key=key), 1,
            lambda *a, sign=sign: m.MinBV(sign, *a), extra_sig="/signed" if sign else "/unsigned", sorts=bvs + [INT])
        add("MaxBV", lambda l, sg=sg: "mk_maxbv %s %s" % (sg, l), isbv, lambda v, key=key: max(v, key=key), 1,
            lambda *a, sign=sign: m.MaxBV(sign, *a), extra_sig="/signed" if sign else "/unsigned", sorts=bvs + [INT])
    add("AtMostOne", lambda l: "Some (mk_at_most_one %s)" % l, isbool, lambda v: sum(1 for x in v if x) <= 1, 0, m.AtMostOne, sorts=[BOOL, INT])
    add("ExactlyOne", lambda l: "Some (mk_exactly_one %s)" % l, isbool, lambda v: sum(1 for x in v if x) == 1, 0, m.ExactlyOne, sorts=[BOOL, INT])
    add("AllDifferent", lambda l: "Some (mk_all_different %s)" % l, lambda t: True, lambda v: len(set(v)) == len(v), 0, m.AllDifferent)

    def fold(f):
        def g(v):
            acc = v[0]
            for x in v[1:]:
                acc = f(acc, x)
            return acc
        return g
    add("BVAnd", lambda l: "mk_bvand_n %s" % l, isbv, fold(lambda a, b: BV(a.width, a.value & b.value)), 1, m.BVAnd, sorts=bvs + [BOOL])
    add("BVOr", lambda l: "mk_bvor_n %s" % l, isbv, fold(lambda a, b: BV(a.width, a.value | b.value)), 1, m.BVOr, sorts=bvs + [BOOL])
    add("BVAdd", lambda l: "mk_bvadd_n %s" % l, isbv, lambda v: bvv(v[0].width, sum(x.value for x in v)), 1, m.BVAdd, sorts=bvs + [INT])
    add("BVMul", lambda l: "mk_bvmul_n %s" % l, isbv, fold(lambda a, b: bvv(a.width, a.value * b.value)), 1, m.BVMul, sorts=bvs + [INT])
    add("BVConcat", lambda l: "mk_bvconcat_n %s" % l, isbv, d_concat, 2, m.BVConcat, sorts=bvs, mixed_ok=True)
    # concatenation of different widths is legal
    for n in range(2, 7):
        for _ in range(4 if tier == "quick" else 20):
            args = [pools.pick(rnd, rnd.choice(bvs)) for _ in range(n)]
            out.append(Spec("BVConcat", "mixedwidth/%d" % n, "BVConcat(%s)" % [a.serialize() for a in args],
                            (lambda args=args: m.BVConcat(*args)), (lambda nm, args=args: "mk_bvconcat_n %s" % clist([nm[a] for a in args])),
                            operands=args, direct=d_concat, valid=VALID))


def binary_specs(pools, rnd, tier, out):
    m = pools.m
    arith = lambda t: t.is_int_type() or t.is_real_type()
    table = [
        ("NotEquals", "Some (mk_neq %s %s)", m.NotEquals, lambda t: not t.is_bool_type(), lambda a, b: a != b),
        ("GE", "Some (mk_ge %s %s)", m.GE, arith, lambda a, b: a >= b),
        ("GT", "Some (mk_gt %s %s)", m.GT, arith, lambda a, b: a > b),
        ("Xor", "Some (mk_xor %s %s)", m.Xor, lambda t: t.is_bool_type(), lambda a, b: a != b),
        ("EqualsOrIff", "Some (mk_equals_or_iff %s %s)", m.EqualsOrIff, lambda t: True, lambda a, b: a == b),
        ("BVUGT", "Some (mk_bvugt %s %s)", m.BVUGT, lambda t: t.is_bv_type(), lambda a, b: a.value > b.value),
        ("BVUGE", "Some (mk_bvuge %s %s)", m.BVUGE, lambda t: t.is_bv_type(), lambda a, b: a.value >= b.value),
        ("BVSGT", "Some (mk_bvsgt %s %s)", m.BVSGT, lambda t: t.is_bv_type(), lambda a, b: a.signed() > b.signed()),
        ("BVSGE", "Some (mk_bvsge %s %s)", m.BVSGE, lambda t: t.is_bv_type(), lambda a, b: a.signed() >= b.signed()),
        ("BVNand", "Some (mk_bvnand %s %s)", m.BVNand, lambda t: t.is_bv_type(), lambda a, b: bvv(a.width, ~(a.value & b.value))),
        ("BVNor", "Some (mk_bvnor %s %s)", m.BVNor, lambda t: t.is_bv_type(), lambda a, b: bvv(a.width, ~(a.value | b.value))),
        ("BVXnor", "Some (mk_bvxnor %s %s)", m.BVXnor, lambda t: t.is_bv_type(), lambda a, b: bvv(a.width, ~(a.value ^ b.value))),
        ("BVSMod", "mk_bvsmod %s %s", m.BVSMod, lambda t: t.is_bv_type(), d_smod),
    ]
    for name, fmt, call, sort_ok, direct in table:
        for t1 in pools.sorts:
            for t2 in pools.sorts:
                pairs = []
                if t1 == t2:
                    s = pools.P[t1]["sym"]
                    pairs.append((s[0], s[1], True))
                    pairs.append((s[0], s[0], False))
                    if t1.is_bv_type() and sort_ok(t1):
                        cs = pools.P[t1]["const"]
                        pairs += [(a, b, False) for a in cs for b in cs] if t1.width <= 2 or tier == "thorough" else \
                                 [(rnd.choice(cs), rnd.choice(cs), False) for _ in range(12)]
                    for _ in range(4 if tier == "quick" else 12):
                        pairs.append((pools.pick(rnd, t1), pools.pick(rnd, t2), False))
                else:
                    pairs.append((pools.pick(rnd, t1), pools.pick(rnd, t2), False))
                for a, b, canon in pairs:
                    ok = t1 == t2 and sort_ok(t1)
                    out.append(Spec(name, "%s,%s" % (sname(t1), sname(t2)), "%s(%s, %s)" % (name, a.serialize(), b.serialize()),
                                    (lambda a=a, b=b, call=call: call(a, b)), (lambda nm, a=a, b=b, fmt=fmt: fmt % (nm[a], nm[b])),
                                    operands=[a, b], direct=((lambda v, direct=direct: direct(v[0], v[1])) if ok else None),
                                    valid=VALID if ok else INVALID, canonical=canon))


def misc_specs(pools, rnd, tier, out, shortcuts_abs, maxw):
    m = pools.m
    # Abs (pysmt.shortcuts: works on the environment under get_env())
    for t in pools.sorts:
        for a in pools.shapes(t) + [pools.pick(rnd, t) for _ in range(3)]:
            ok = t.is_int_type() or t.is_real_type()
            out.append(Spec("Abs", sname(t), "Abs(%s)" % a.serialize(), (lambda a=a: shortcuts_abs(a)), (lambda nm, a=a: "mk_abs %s" % nm[a]),
                            operands=[a], direct=(lambda v: abs(v[0])) if ok else None, valid=VALID if ok else INVALID, canonical=True))
    # SBV / BVOne / BVZero
    for w in range(0, maxw + 2):
        lo, hi = -(1 << w) - 2, (1 << w) + 2
        for z in range(lo, hi + 1):
            inr = w >= 1 and -(1 << (w - 1)) <= z < (1 << (w - 1))
            out.append(Spec("SBV", "w%d/%s" % (w, "in" if inr else "out"), "SBV(%d, %d)" % (z, w), (lambda z=z, w=w: m.SBV(z, w)),
                            (lambda nm, z=z, w=w: "mk_sbv %s %s" % (zc(z), zc(w))),
                            direct=(lambda v, z=z, w=w: ("signed", w, z)), valid=VALID if inr else INVALID, canonical=True))
        out.append(Spec("BVOne", "w%d" % w, "BVOne(%d)" % w, (lambda w=w: m.BVOne(w)), (lambda nm, w=w: "mk_bvone %s" % zc(w)),
                        direct=(lambda v, w=w: BV(w, 1)) if w >= 1 else None, valid=VALID if w >= 1 else INVALID))
        out.append(Spec("BVZero", "w%d" % w, "BVZero(%d)" % w, (lambda w=w: m.BVZero(w)), (lambda nm, w=w: "mk_bvzero %s" % zc(w)),
                        direct=(lambda v, w=w: BV(w, 0)) if w >= 1 else None, valid=VALID if w >= 1 else ANY))
    # BVRepeat, shifts by a Python integer
    for t in pools.sorts:
        isbv = t.is_bv_type()
        for a in pools.shapes(t) + [pools.pick(rnd, t) for _ in range(2)]:
            for count in range(-2, 5):
                if isbv:
                    valid, direct = (VALID, (lambda v, count=count: d_repeat(v[0], count))) if count >= 1 else (INVALID, None)
                else:
                    valid, direct = (ANY if count == 1 else INVALID), None      # count <= 0 must raise for any operand
                out.append(Spec("BVRepeat", "%s/%s" % ("BV" if isbv else sname(t), "count>=1" if count >= 1 else "count<=0"),
                                "BVRepeat(%s, %d)" % (a.serialize(), count), (lambda a=a, count=count: m.BVRepeat(a, count)),
                                (lambda nm, a=a, count=count: "mk_bvrepeat %s %s" % (nm[a], zc(count))),
                                operands=[a], direct=direct, valid=valid, canonical=True))
            for bad in (True, 2.0):       # not a Python integer: PysmtValueError (outside the model's Z-typed count)
                out.append(Spec("BVRepeat", "%s/count:%s" % ("BV" if isbv else sname(t), type(bad).__name__), "BVRepeat(%s, %r)" % (a.serialize(), bad),
                                (lambda a=a, bad=bad: m.BVRepeat(a, bad)), (lambda nm: "None"), operands=[a], valid=INVALID))
            w = t.width if isbv else 2
            for k in range(-1, (1 << w) + 2):
                for name, fn, call in (("BVLShl", "mk_bvshl_int", m.BVLShl), ("BVLShr", "mk_bvlshr_int", m.BVLShr), ("BVAShr", "mk_bvashr_int", m.BVAShr)):
                    inr = isbv and 0 <= k < (1 << w)

                    def direct(v, k=k, name=name):
                        x, ww = v[0], v[0].width
                        if name == "BVLShl":
                            return bvv(ww, x.value << k) if k < ww else BV(ww, 0)
                        if name == "BVLShr":
                            return BV(ww, x.value >> k) if k < ww else BV(ww, 0)
                        return bvv(ww, x.signed() >> min(k, ww))
                    out.append(Spec(name + "/int", "%s/%s" % ("BV" if isbv else sname(t), "inrange" if inr else "outofrange"),
                                    "%s(%s, %d)" % (name, a.serialize(), k), (lambda a=a, k=k, call=call: call(a, k)),
                                    (lambda nm, a=a, k=k, fn=fn: "%s %s %s" % (fn, nm[a], zc(k))),
                                    operands=[a], direct=direct if inr else None, valid=VALID if inr else INVALID, canonical=True))


PYOPS = {
    "PAdd": "__add__", "PRadd": "__radd__", "PSub": "__sub__", "PMul": "__mul__", "PRmul": "__rmul__", "PDiv": "__truediv__",
    "PGt": "__gt__", "PGe": "__ge__", "PLt": "__lt__", "PLe": "__le__", "PAnd": "__and__", "PRand": "__rand__", "POr": "__or__",
    "PRor": "__ror__", "PXor": "__xor__", "PRxor": "__rxor__", "PLshift": "__lshift__", "PRshift": "__rshift__", "PMod": "__mod__",
}
ARITH_OPS = ("PAdd", "PRadd", "PSub", "IRsub", "PMul", "PRmul", "PDiv", "PGt", "PGe", "PLt", "PLe")
BITS_OPS = ("PAnd", "PRand", "POr", "PRor", "PXor", "PRxor")
BVONLY_OPS = ("PLshift", "PRshift", "PMod")


def op_defined(op, t):
    if t.is_bv_type():
        return True
    if t.is_bool_type():
        return op in BITS_OPS
    if t.is_int_type() or t.is_real_type():
        return op in ARITH_OPS
    return False


def infix_specs(pools, rnd, tier, out, literals, light=False):
    m = pools.m
    ops = list(PYOPS) + ["IRsub"]
    for t in pools.sorts:
        lefts = pools.shapes(t)[:(2 if light else 3)] + [pools.pick(rnd, t) for _ in range(0 if light else 1 if tier == "quick" else 6)]
        for left in lefts:
            rights = [pools.pick(rnd, t), pools.pick(rnd, t), pools.pick(rnd, rnd.choice([s for s in pools.sorts if s != t]))] + list(literals)
            for op in ops:
                for r in rights:
                    isnode = hasattr(r, "node_type")
                    rv = None if isnode else promote(r, t)
                    if isnode:
                        valid = VALID if (sort_of(r) == t and op_defined(op, t)) else INVALID
                    else:
                        valid = VALID if (rv is not None and op_defined(op, t)) else INVALID
                    meth = "__rsub__" if op == "IRsub" else PYOPS[op]
                    coqop = "IRsub" if op == "IRsub" else "(IPy %s)" % op

                    def direct(v, op=op, r=r, rv=rv, isnode=isnode):
                        return py_sem(op, v[0], v[1] if isnode else rv)
                    out.append(Spec("infix:" + meth, "%s,%s" % (sname(t), sname(sort_of(r)) if isnode else type(r).__name__ + ("" if rv is not None else "!")),
                                    "(%s).%s(%s)" % (left.serialize(), meth, lit_text(r)),
                                    (lambda left=left, meth=meth, r=r: getattr(left, meth)(r)),
                                    (lambda nm, left=left, coqop=coqop, r=r: "infix %s %s %s" % (nm[left], coqop, operand_coq(nm, r))),
                                    operands=[left] + ([r] if isnode else []), direct=direct if valid == VALID else None, valid=valid))
            # unary
            isbv, isb, isar = t.is_bv_type(), t.is_bool_type(), t.is_int_type() or t.is_real_type()
            out.append(Spec("infix:__neg__", sname(t), "-(%s)" % left.serialize(), (lambda left=left: -left), (lambda nm, left=left: "infix_neg %s" % nm[left]),
                            operands=[left], direct=(lambda v: bvv(v[0].width, -v[0].value) if isinstance(v[0], BV) else -v[0]) if (isbv or isar) else None,
                            valid=VALID if (isbv or isar) else INVALID, canonical=True))
            out.append(Spec("infix:__invert__", sname(t), "~(%s)" % left.serialize(), (lambda left=left: ~left), (lambda nm, left=left: "infix_invert %s" % nm[left]),
                            operands=[left], direct=(lambda v: bvv(v[0].width, ~v[0].value) if isinstance(v[0], BV) else (not v[0])) if (isbv or isb) else None,
                            valid=VALID if (isbv or isb) else INVALID, canonical=True))
            # __getitem__
            w = t.width if isbv else 3
            idxs = [(i,) for i in range(-1, w + 1)] + [(a, b) for a in (None, 0, 1, 2, w - 1, w) for b in (None, -1, 0, 1, 2, w - 1, w)]
            for idx in idxs:
                if len(idx) == 1:
                    py, coq, s, e = idx[0], "(IdxPoint %s)" % zc(idx[0]), idx[0], idx[0]
                else:
                    a, b = idx
                    py = slice(a, b)
                    coq = "(IdxSlice %s %s)" % tuple("None" if x is None else "(Some %s)" % zc(x) for x in idx)
                    s, e = (0 if a is None else a), (w - 1 if b is None else b)
                ok = isbv and 0 <= s <= e < w
                out.append(Spec("infix:__getitem__", "%s/%s" % ("BV" if isbv else sname(t), "inrange" if (0 <= s <= e < w) else "outofrange"),
                                "(%s)[%s]" % (left.serialize(), py), (lambda left=left, py=py: left[py]),
                                (lambda nm, left=left, coq=coq: "infix_getitem %s %s" % (nm[left], coq)), operands=[left],
                                direct=(lambda v, s=s, e=e: BV(e - s + 1, (v[0].value >> s) & mask(e - s + 1))) if ok else None,
                                valid=VALID if ok else INVALID, canonical=True))
    # named methods: x.Name(y) = FormulaManager.Name(x, y') after promotion
    named = [("Implies", "CImplies", BOOL, lambda a, b: (not a) or b), ("Iff", "CIff", BOOL, lambda a, b: a == b),
             ("And", "CAnd", BOOL, lambda a, b: a and b), ("Or", "COr", BOOL, lambda a, b: a or b),
             ("Equals", "CEquals", None, lambda a, b: a == b), ("NotEquals", "CNotEquals", None, lambda a, b: a != b)]
    bvnamed = [("BVAnd", "(CBV BAnd)", lambda a, b: BV(a.width, a.value & b.value)), ("BVOr", "(CBV BOr)", lambda a, b: BV(a.width, a.value | b.value)),
               ("BVXor", "(CBV BXor)", lambda a, b: BV(a.width, a.value ^ b.value)), ("BVAdd", "(CBV BAdd)", lambda a, b: bvv(a.width, a.value + b.value)),
               ("BVSub", "(CBV BSub)", lambda a, b: bvv(a.width, a.value - b.value)), ("BVMul", "(CBV BMul)", lambda a, b: bvv(a.width, a.value * b.value)),
               ("BVUDiv", "(CBV BUdiv)", lambda a, b: BV(a.width, mask(a.width) if b.value == 0 else a.value // b.value)),
               ("BVURem", "(CBV BUrem)", lambda a, b: BV(a.width, a.value if b.value == 0 else a.value % b.value)),
               ("BVLShl", "(CBV BLshl)", lambda a, b: bvv(a.width, a.value << b.value) if b.value < a.width else BV(a.width, 0)),
               ("BVLShr", "(CBV BLshr)", lambda a, b: BV(a.width, a.value >> b.value) if b.value < a.width else BV(a.width, 0)),
               ("BVAShr", "(CBV BAshr)", lambda a, b: bvv(a.width, a.signed() >> min(b.value, a.width))),
               ("BVSDiv", "(CBV BSdiv)", None), ("BVSRem", "(CBV BSrem)", None),
               ("BVComp", "(CBV BComp)", lambda a, b: BV(1, 1 if a == b else 0)), ("BVConcat", "(CBV BConcat)", lambda a, b: d_concat([a, b])),
               ("BVULT", "(CBVRel BUlt)", lambda a, b: a.value < b.value), ("BVULE", "(CBVRel BUle)", lambda a, b: a.value <= b.value),
               ("BVSLT", "(CBVRel BSlt)", lambda a, b: a.signed() < b.signed()), ("BVSLE", "(CBVRel BSle)", lambda a, b: a.signed() <= b.signed()),
               ("BVUGT", "CBVUGT", lambda a, b: a.value > b.value), ("BVUGE", "CBVUGE", lambda a, b: a.value >= b.value),
               ("BVSGT", "CBVSGT", lambda a, b: a.signed() > b.signed()), ("BVSGE", "CBVSGE", lambda a, b: a.signed() >= b.signed()),
               ("BVNand", "CBVNand", lambda a, b: bvv(a.width, ~(a.value & b.value))), ("BVNor", "CBVNor", lambda a, b: bvv(a.width, ~(a.value | b.value))),
               ("BVXnor", "CBVXnor", lambda a, b: bvv(a.width, ~(a.value ^ b.value))), ("BVSMod", "CBVSMod", d_smod)]

    def sdiv(a, b):      # truncating division / remainder with the sign of the dividend
        sa, sb = a.signed(), b.signed()
        if sb == 0:
            return bvv(a.width, -1 if sa >= 0 else 1), a
        q = abs(sa) // abs(sb)
        q = q if (sa < 0) == (sb < 0) else -q
        return bvv(a.width, q), bvv(a.width, sa - q * sb)
    for t in pools.sorts:
        for left in pools.shapes(t)[:(1 if light else 2)] + [pools.pick(rnd, t)]:
            rights = [pools.pick(rnd, t), pools.pick(rnd, rnd.choice([s for s in pools.sorts if s != t]))] + list(literals)
            for r in rights:
                isnode = hasattr(r, "node_type")
                rv = None if isnode else promote(r, t)
                same = (sort_of(r) == t) if isnode else (rv is not None)
                cands = [(n, c, (dom is None and not t.is_bool_type()) or dom == t, d) for n, c, dom, d in named]
                cands += [(n, c, t.is_bv_type(), d) for n, c, d in bvnamed]
                for n, c, sort_ok, d in cands:
                    if n in ("BVSDiv", "BVSRem"):
                        d = (lambda a, b, n=n: sdiv(a, b)[0 if n == "BVSDiv" else 1])
                    if n == "BVConcat" and isnode and sort_of(r).is_bv_type() and t.is_bv_type():
                        same_ok = True
                    else:
                        same_ok = same
                    valid = VALID if (same_ok and sort_ok) else INVALID

                    def direct(v, d=d, rv=rv, isnode=isnode):
                        return d(v[0], v[1] if isnode else rv)
                    out.append(Spec("method:" + n, "%s,%s" % (sname(t), sname(sort_of(r)) if isnode else type(r).__name__ + ("" if rv is not None else "!")),
                                    "(%s).%s(%s)" % (left.serialize(), n, lit_text(r)), (lambda left=left, n=n, r=r: getattr(left, n)(r)),
                                    (lambda nm, left=left, c=c, r=r: "infix %s (IMeth %s) %s" % (nm[left], c, operand_coq(nm, r))),
                                    operands=[left] + ([r] if isnode else []), direct=direct if valid == VALID else None, valid=valid))
        # x.Ite(a, b)
        for _ in range(3):
            c, a, b = pools.pick(rnd, BOOL), pools.pick(rnd, t), pools.pick(rnd, t)
            out.append(Spec("method:Ite", sname(t), "(%s).Ite(%s, %s)" % (c.serialize(), a.serialize(), b.serialize()), (lambda c=c, a=a, b=b: c.Ite(a, b)),
                            (lambda nm, c=c, a=a, b=b: "infix_ite %s (OpT %s) (OpT %s)" % (nm[c], nm[a], nm[b])), operands=[c, a, b],
                            direct=(lambda v: v[1] if v[0] else v[2]), valid=VALID))
        c, a = pools.pick(rnd, BOOL), pools.pick(rnd, t)
        out.append(Spec("method:Ite", sname(t) + "/literal", "(%s).Ite(%s, 1)" % (c.serialize(), a.serialize()), (lambda c=c, a=a: c.Ite(a, 1)),
                        (lambda nm, c=c, a=a: "infix_ite %s (OpT %s) (OpInt 1%%Z)" % (nm[c], nm[a])), operands=[c, a], valid=INVALID))
    # methods with Python integer parameters
    for t in pools.sorts:
        for left in pools.shapes(t)[:1] + [pools.pick(rnd, t)]:
            for k in range(-1, 4):
                out.append(Spec("method:BVRepeat", "%s/%s" % (sname(t), "count>=1" if k >= 1 else "count<=0"), "(%s).BVRepeat(%d)" % (left.serialize(), k),
                                (lambda left=left, k=k: left.BVRepeat(k)), (lambda nm, left=left, k=k: "mk_bvrepeat %s %s" % (nm[left], zc(k))),
                                operands=[left], direct=(lambda v, k=k: d_repeat(v[0], k)) if (t.is_bv_type() and k >= 1) else None,
                                valid=(VALID if k >= 1 else INVALID) if t.is_bv_type() else (ANY if k == 1 else INVALID)))
                out.append(Spec("method:BVExtract", "%s/%d" % (sname(t), k), "(%s).BVExtract(%d, %d)" % (left.serialize(), k, k + 1),
                                (lambda left=left, k=k: left.BVExtract(k, k + 1)),
                                (lambda nm, left=left, k=k: "mk_bvextract %s %s (Some %s)" % (nm[left], zc(k), zc(k + 1))), operands=[left],
                                direct=(lambda v, k=k: BV(2, (v[0].value >> k) & 3)) if (t.is_bv_type() and 0 <= k and k + 1 < t.width) else None,
                                valid=(VALID if (0 <= k and k + 1 < t.width) else INVALID) if t.is_bv_type() else INVALID))
    # __call__
    f1 = m.Symbol("f1", FunctionType(BOOL, [INT, REAL]))
    f2 = m.Symbol("f2", FunctionType(INT, [pools.sorts[-1], BOOL]))
    xs = {s: pools.P[s]["sym"][0] for s in pools.sorts}
    calls = [(f1, (xs[INT], xs[REAL])), (f1, (3, Fraction(1, 2))), (f1, (3, 2)), (f1, (xs[INT], 0.25)), (f1, (xs[INT],)), (f1, (xs[REAL], xs[REAL])),
             (f1, (Fraction(1, 2), xs[REAL])), (f2, (1, True)), (f2, (xs[pools.sorts[-1]], xs[BOOL])), (f2, (1 << 9, False)),
             (f2, (0, 1)), (xs[INT], (xs[INT],)), (xs[INT], ()), (f1, ())]
    if not any(c.is_int_constant() and c.constant_value() == 1 for c in pools.P[INT]["const"]):
        calls.append((f1, (True, xs[REAL])))       # Int(True): only without a cached Int(1)
    for f, args in calls:
        out.append(Spec("infix:__call__", "%s/%s" % (f.symbol_name(), ",".join(type(a).__name__ for a in args)), "%s(%s)" % (f.symbol_name(), ", ".join(lit_text(a) for a in args)),
                        (lambda f=f, args=args: f(*args)), (lambda nm, f=f, args=args: "infix_call %s %s" % (nm[f], clist([operand_coq(nm, a) for a in args]))),
                        operands=[f] + [a for a in args if hasattr(a, "node_type")], valid=ANY))


def syntax_specs(env, out):
    """The same forms written with Python's own syntax (dispatch through the interpreter)."""
    m = env.formula_manager
    x, y = m.Symbol("sx", BVType(3)), m.Symbol("sy", BVType(3))
    i, r, p, q = m.Symbol("si", INT), m.Symbol("sr", REAL), m.Symbol("sp", BOOL), m.Symbol("sq", BOOL)
    S = [
        ("5 - si", lambda: 5 - i, lambda nm: "infix %s IRsub (OpInt 5%%Z)" % nm[i], [i], lambda v: 5 - v[0]),
        ("5 - sx", lambda: 5 - x, lambda nm: "infix %s IRsub (OpInt 5%%Z)" % nm[x], [x], lambda v: bvv(3, 5 - v[0].value)),
        ("Fraction(1,2) - sr", lambda: Fraction(1, 2) - r, lambda nm: "infix %s IRsub (OpFrac 1%%Z 2%%Z)" % nm[r], [r], lambda v: Fraction(1, 2) - v[0]),
        ("2 + si", lambda: 2 + i, lambda nm: "infix %s (IPy PRadd) (OpInt 2%%Z)" % nm[i], [i], lambda v: 2 + v[0]),
        ("3 * sx", lambda: 3 * x, lambda nm: "infix %s (IPy PRmul) (OpInt 3%%Z)" % nm[x], [x], lambda v: bvv(3, 3 * v[0].value)),
        ("sx - sy", lambda: x - y, lambda nm: "infix %s (IPy PSub) (OpT %s)" % (nm[x], nm[y]), [x, y], lambda v: bvv(3, v[0].value - v[1].value)),
        ("si - 7", lambda: i - 7, lambda nm: "infix %s (IPy PSub) (OpInt 7%%Z)" % nm[i], [i], lambda v: v[0] - 7),
        ("sr / 4", lambda: r / 4, lambda nm: "infix %s (IPy PDiv) (OpInt 4%%Z)" % nm[r], [r], lambda v: v[0] / 4),
        ("sx / sy", lambda: x / y, lambda nm: "infix %s (IPy PDiv) (OpT %s)" % (nm[x], nm[y]), [x, y], lambda v: py_sem("PDiv", v[0], v[1])),
        ("sx % sy", lambda: x % y, lambda nm: "infix %s (IPy PMod) (OpT %s)" % (nm[x], nm[y]), [x, y], lambda v: py_sem("PMod", v[0], v[1])),
        ("sx << 1", lambda: x << 1, lambda nm: "infix %s (IPy PLshift) (OpInt 1%%Z)" % nm[x], [x], lambda v: bvv(3, v[0].value << 1)),
        ("sx >> sy", lambda: x >> y, lambda nm: "infix %s (IPy PRshift) (OpT %s)" % (nm[x], nm[y]), [x, y], lambda v: py_sem("PRshift", v[0], v[1])),
        ("si > 2", lambda: i > 2, lambda nm: "infix %s (IPy PGt) (OpInt 2%%Z)" % nm[i], [i], lambda v: v[0] > 2),
        ("2 > si", lambda: 2 > i, lambda nm: "infix %s (IPy PLt) (OpInt 2%%Z)" % nm[i], [i], lambda v: 2 > v[0]),
        ("sx >= sy", lambda: x >= y, lambda nm: "infix %s (IPy PGe) (OpT %s)" % (nm[x], nm[y]), [x, y], lambda v: v[0].value >= v[1].value),
        ("sp & sq", lambda: p & q, lambda nm: "infix %s (IPy PAnd) (OpT %s)" % (nm[p], nm[q]), [p, q], lambda v: v[0] and v[1]),
        ("sp | True", lambda: p | True, lambda nm: "infix %s (IPy POr) (OpBool true)" % nm[p], [p], lambda v: True),
        ("sp ^ sq", lambda: p ^ q, lambda nm: "infix %s (IPy PXor) (OpT %s)" % (nm[p], nm[q]), [p, q], lambda v: v[0] != v[1]),
        ("~sp", lambda: ~p, lambda nm: "infix_invert %s" % nm[p], [p], lambda v: not v[0]),
        ("~sx", lambda: ~x, lambda nm: "infix_invert %s" % nm[x], [x], lambda v: bvv(3, ~v[0].value)),
        ("-si", lambda: -i, lambda nm: "infix_neg %s" % nm[i], [i], lambda v: -v[0]),
        ("-sx", lambda: -x, lambda nm: "infix_neg %s" % nm[x], [x], lambda v: bvv(3, -v[0].value)),
        ("sx[0:1]", lambda: x[0:1], lambda nm: "infix_getitem %s (IdxSlice (Some 0%%Z) (Some 1%%Z))" % nm[x], [x], lambda v: BV(2, v[0].value & 3)),
        ("sx[1:]", lambda: x[1:], lambda nm: "infix_getitem %s (IdxSlice (Some 1%%Z) None)" % nm[x], [x], lambda v: BV(2, v[0].value >> 1)),
        ("sx[2]", lambda: x[2], lambda nm: "infix_getitem %s (IdxPoint 2%%Z)" % nm[x], [x], lambda v: BV(1, v[0].value >> 2)),
    ]
    for desc, impl, model, ops, direct in S:
        out.append(Spec("syntax", desc, desc, impl, model, operands=ops, direct=direct, valid=VALID, canonical=True))


# ------------------------------------------------------------------------------ running
def run_specs(env, specs):
    with env:
        for s in specs:
            try:
                s.result = s.impl()
            except Exception as ex:   # noqa: any exception = the call is rejected
                s.result, s.exc = None, type(ex).__name__


def same_value(got, exp):
    if isinstance(exp, tuple) and not isinstance(exp, BV) and exp and exp[0] == "signed":
        return isinstance(got, BV) and got.width == exp[1] and got.signed() == exp[2]
    if isinstance(exp, BV) or isinstance(got, BV):
        return isinstance(exp, BV) and isinstance(got, BV) and got.width == exp.width and got.value == exp.value
    if type(exp) is bool or type(got) is bool:
        return type(exp) is bool and type(got) is bool and exp == got
    if isinstance(exp, Fraction) or isinstance(got, Fraction):
        return isinstance(got, Fraction) and isinstance(exp, (Fraction, int)) and not type(exp) is bool and got == exp
    return type(got) is type(exp) and got == exp


def oracle(chk, rnd, s, limit, nsample, stats):
    """Property-level check of one spec on the implementation; True iff a violation was reported."""
    key = "%s:%s" % (s.name, s.sig)
    if s.result is None:
        if s.valid == VALID:
            return chk.violation({"kind": "input", "what": "%s raised %s on operands in the domain of the named function" % (s.desc, s.exc),
                                  "repro": s.desc, "expected": "a formula denoting the function", "observed": "raises " + str(s.exc)}, key="raises:" + key)
        return False
    if s.valid == INVALID:
        return chk.violation({"kind": "input", "what": "%s is outside the documented domain but returned the formula %s" % (s.desc, s.result.serialize()[:300]),
                              "repro": s.desc, "expected": "an exception", "observed": s.result.serialize()[:300]}, key="accepts:" + key)
    if s.direct is None:
        return False
    forms = s.operands + [s.result]
    interps = refeval.exhaustive_interps(forms, limit=limit)
    exhaustive = interps is not None
    if interps is None:
        interps = refeval.random_interps(rnd, forms, nsample)
    stats["exhaustive" if exhaustive else "sampled"] += 1
    cache = refeval.EvalCache()
    for it in interps:
        try:
            vals = [refeval.evaluate(o, it, cache) for o in s.operands]
            got = refeval.evaluate(s.result, it, cache)
        except refeval.DivisionByZeroEvaluated:
            continue
        exp = s.direct(vals)
        stats["evaluations"] += 1
        if exp is SKIP:
            continue
        if exp is MUST_RAISE or not same_value(got, exp):
            return chk.violation({"kind": "input", "what": "%s built %s, whose value differs from the named function" % (s.desc, s.result.serialize()[:300]),
                                  "repro": s.desc, "interpretation": it.describe(), "operand_values": [repr(v) for v in vals],
                                  "expected": "no value (outside the domain)" if exp is MUST_RAISE else repr(exp), "observed": repr(got),
                                  "oracle": "refeval value of the built formula vs direct Python definition"}, key="value:" + key)
    return False


def correspondence(chk, specs, tag):
    cases = []
    for s in specs:
        roots = [o for o in s.operands] + ([s.result] if s.result is not None else [])

        def body(nm, s=s):
            return "(checked (%s), %s)" % (s.model(nm), "None" if s.result is None else "Some %s" % nm[s.result])
        cases.append((roots, body))
    ok_def = ("Definition ok (c : option term * option term) : bool :=\n"
              "  match c with (Some a, Some b) => term_eqb a b | (None, None) => true | _ => false end.\n")
    files = termcases.write(chk.dir, tag, "From PySMT.core Require Import PyPrims.\nFrom PySMT.models Require Import TypeChecker Ctors Derived.\nOpen Scope Z_scope.",
                            "option term * option term", ok_def, cases, shard=400)
    return files


def build_all(tier, rnd):
    """[(env, specs)] for all groups, each in its own fresh Environment."""
    widths = [1, 2, 3] + ([4] if tier == "thorough" else [])
    groups = []

    def group(fn, **kw):
        env = Environment()
        env.enable_infix_notation = True
        specs = []
        with env:
            pools = Pools(env, widths, **kw)
            fn(env, pools, specs)
        groups.append((env, specs))
    group(lambda env, pools, out: nary_specs(pools, rnd, tier, out))
    group(lambda env, pools, out: binary_specs(pools, rnd, tier, out))

    def misc(env, pools, out):
        import pysmt.shortcuts as sc
        misc_specs(pools, rnd, tier, out, sc.Abs, max(widths))
    group(misc)
    # infix with int / rational literals; no Boolean / integral-Fraction literal next to Int / Real operands here
    group(lambda env, pools, out: infix_specs(pools, rnd, tier, out, [0, 1, 2, 3, 7, 8, -1, Fraction(1, 2), 0.25]), small_consts=True)
    # literals whose promotion depends on the constant caches: an environment without the constants 0, 1, 5
    group(lambda env, pools, out: infix_specs(pools, rnd, "quick", out, [True, False, Fraction(5), Fraction(-3, 4), 6.0], light=True), small_consts=False)
    group(lambda env, pools, out: syntax_specs(env, out))
    return groups


def run(tier, only=None):
    chk = lib.Check("C06", tier)
    rnd = random.Random(chk.seed)
    warnings.simplefilter("ignore")
    gen_all.regen_all()
    ok = chk.prove()
    lib.clean_cases(chk.dir)
    groups = build_all(tier, rnd)
    files, allspecs = [], []
    for gi, (env, specs) in enumerate(groups):
        run_specs(env, specs)
        files += [(p, first + len(allspecs), n) for p, first, n in correspondence(chk, specs, "g%d" % gi)]
        allspecs += specs
    chk.note("%d calls on the implementation; running the model on them" % len(allspecs))
    bad, errs = termcases.run(files)
    chk.note("model evaluated in Coq (%d case files): %d disagreements, %d file errors" % (len(files), len(bad), len(errs)))
    for s in allspecs:
        chk.count((s.name, s.desc), nontrivial=bool(s.operands) or s.result is not None)
    # ---------------- property-level oracle (independent of the model)
    stats = {"exhaustive": 0, "sampled": 0, "evaluations": 0}
    lim_canon, lim_other, nsample = (4096, 256, 48) if tier == "quick" else (65536, 4096, 400)
    nviol = 0
    for s in allspecs:
        if oracle(chk, rnd, s, lim_canon if s.canonical else lim_other, nsample, stats):
            nviol += 1
    chk.note("oracle: %d calls checked exhaustively, %d sampled, %d evaluations" % (stats["exhaustive"], stats["sampled"], stats["evaluations"]))
    names = {}
    for s in allspecs:
        d = names.setdefault(s.name, {"calls": 0, "built": 0, "raised": 0})
        d["calls"] += 1
        d["built" if s.result is not None else "raised"] += 1
    chk.cov["correspondence"] = {"calls": len(allspecs), "built": sum(1 for s in allspecs if s.result is not None),
                                 "raised": sum(1 for s in allspecs if s.result is None), "disagreements": len(bad),
                                 "case_file_errors": len(errs), "examples": [allspecs[i].desc for i in bad[:6]], "per_constructor": names}
    chk.cov["oracle"] = stats
    for s in (allspecs[7], allspecs[len(allspecs) // 3], allspecs[len(allspecs) // 2], allspecs[-3]):
        chk.sample({"call": s.desc[:200], "built": None if s.result is None else s.result.serialize()[:200], "raised": s.exc})
    for e in errs[:2]:
        chk.note("case file error: " + e["error"][-400:])
    # a disagreement with the model is searched for a property-level failure first (done above on every
    # call); what remains is reported with the concrete call
    for i in bad[:6]:
        s = allspecs[i]
        chk.note("model/implementation disagree on %s -> %s" % (s.desc, s.result.serialize()[:160] if s.result is not None else "raises %s" % s.exc))
    if (not ok or bad or errs) and not chk.violations and not chk.known_hits:
        what = []
        if not ok:
            what.append("proof obligations no longer check: " + lib.proof_failure_summary(chk))
        if bad or errs:
            what.append("correspondence models/Derived.v <-> pysmt differs on %d calls, e.g. %s" % (len(bad) + len(errs), [
                {"call": allspecs[i].desc, "implementation": allspecs[i].result.serialize()[:200] if allspecs[i].result is not None else "raises %s" % allspecs[i].exc}
                for i in bad[:3]]))
        chk.violation({"kind": "obligation", "theorem_or_correspondence": what}, found_input=False)
    return chk.finish(TRUSTED, ASSUME, RULE)


def replay(path):
    print(json.dumps(json.load(open(path)), indent=1))
    return run("quick")
