"""C06 - derived constructors and infix operators denote what their names say.

Two independent checks on the implementation in lib.REPO, both in FRESH Environments with infix
notation enabled:
 (1) correspondence: the formula built by every derived constructor / infix form is structurally
     identical (term_eqb) to the one models/Derived.v builds, and raises exactly when the model
     (plus the type check of the result) says None;
 (2) property-level oracle, independent of the model: the value of the built formula under the
     reference evaluator (harness/refeval.py) equals a DIRECT Python definition of the named
     function applied to the values of the operands - exhaustively over all Bool / small-BV
     assignments, sampled for Int / Real.
Operand shapes: symbols / constants / compounds (pools), results of OTHER derived constructors
(comp_specs: depth 2 and 3, all shift / rotate amounts at widths 1-4) and explicitly built n-ary
nodes with unit / absorbing constants at every position (nary_operand_specs).  The oracle runs in
forked workers while coqc evaluates the model.
"""
import json
import random
import warnings
from fractions import Fraction

from pysmt.environment import Environment
from pysmt.typing import BOOL, INT, REAL, STRING, ArrayType, BVType, FunctionType

from . import gen_all, lib, refeval, termcases, tocoq
from .refeval import BV

TRUSTED = [
    "Coq 8.16.1 kernel (coqc); vm_compute only inside the bounded enumeration lemmas that say so; no native_compute",
    "core/Sem.v: the semantic specification (eval, op_sem and the bit-vector functions on Z) every *_sem theorem is stated against",
    "hand model models/Derived.v (+ models/Ctors.v, models/TypeChecker.v) of the derived FormulaManager constructors, shortcuts.Abs and the FNode infix forms, tied to pysmt/formula.py, pysmt/shortcuts.py, pysmt/fnode.py by this run's exact structural correspondence",
    "standard-library axioms reported by Print Assumptions for the semantic theorems (they enter through core/Sem.v: Coq's real numbers and excluded_middle_informative): ClassicalDedekindReals.sig_forall_dec, FunctionalExtensionality.functional_extensionality_dep, Description.constructive_definite_description, Classical_Prop.classic; C06_sbv is closed under the global context; no axiom is declared by this development",
    "harness/tocoq.py (FNode -> Gallina literal); harness/refeval.py (independent evaluator) and the direct Python definitions in harness/c06.py for the property-level oracle",
]
ASSUME = [
    "infix notation is enabled and the environment under get_env() is the one that owns the operands",
    "literal promotion is modelled for a constant cache without cross-type hits (Int(True) after Int(1), Int(Fraction(2)) after Int(2) return the cached node: history dependence, properties C04/C14)",
    "theorems carry explicit sort hypotheses on the operand VALUES (VBool/VInt/VReal/VBV of the stated width and range) and, for bit-vector constructors that read bv_width(), tc a = Some (TBV w); Not nodes have one argument",
    "BVRepeat: accepted iff count >= 1 (C06_repeat); count <= 0 returning one copy was the finding repaired in /repo commit 9f23fdc and is now a regression case of the domain oracle (keys accepts:BVRepeat:*/count<=0); BVRepeat(i, 1) on a non-bit-vector i returning i was repaired in 7e93ce0 and is a regression case too (accepts:BVRepeat:<sort>/count>=1)",
]
RULE = ("every derived constructor and infix form x arities 0-6 x argument shapes (symbol / constant / compound) over Bool, Int, Real, BV1-3 "
        "(BV4 in thorough), both calling conventions F(a,b,c) and F([a,b,c]); exact structural equality with the model; oracle exhaustive over all "
        "assignments when the operands have at most LIMIT of them (Bool, BV), sampled otherwise and for Int/Real; distinct = distinct (call, argument keys). "
        "COMPOSITIONS: every derived constructor / infix form applied to the implementation's result of another one (depth 2: inside one family - shift, rotate, "
        "extend, repeat, neg/not, extract, min/max, binary-with-a-second-symbol - with ALL integer amounts 0..2^w-1 plus the out-of-range ones at widths 1-4, "
        "across families all at widths 1-2 and sampled at 3-4 in quick; depth 3 inside the shift / rotate / extend / repeat / neg-not / min-max families and the "
        "Int/Real negation family and the Boolean family), the model call being the outer constructor on the implementation's inner result, the oracle the "
        "composition of the direct definitions on the leaf values (exhaustive over x and y). N-ARY OPERANDS: every infix operator (unary, binary with a symbol and "
        "with a Python literal, reflected forms) on operands built by explicit Plus/Times/And/Or/BVAdd/BVMul/BVAnd/BVOr calls of arity 1-5 with 1/-1/0 "
        "(TRUE/FALSE; 0/1/all-ones) at every position, nested once, evaluated on a grid where no factor is 1. "
        "THEORY-HEADED OPERANDS: every unary-closable derived constructor / infix form (the arithmetic, Boolean and bit-vector operator families above plus relations, "
        "3-ary Min/Max/AllDifferent/ExactlyOne/AtMostOne/BVAdd and reflected forms, operand in either position) on operands of the right sort whose top node is an "
        "operator of another theory: Int from str.len, str.to_int, str.indexof, bv2nat, ite, select, UF, div, nested string conversions; Real from to_real of those, "
        "ite, select, UF, div, pow; Bool from str.contains/prefixof/suffixof, string/BV/Int/Real relations, select, UF predicate, forall/exists over Bool/BV, ite; BV1-3 "
        "from select, ite, UF, concat/extract/extend/rotate/comp and core BV operators; values by refeval on sampled interpretations plus a fixed grid of strings "
        "('', 'abc', '-7', '12', '007', 'a1', '9') and integers that reaches str.to_int = -1, str.indexof = -1, the empty string and the bv2nat boundaries")

VALID, INVALID, ANY = "valid", "invalid", "any"
MUST_RAISE = object()
SKIP = object()


class Spec(object):
    __slots__ = ("name", "sig", "desc", "impl", "model", "operands", "direct", "valid", "result", "exc", "canonical", "extra", "limit", "grid")

    def __init__(self, name, sig, desc, impl, model, operands=(), direct=None, valid=ANY, canonical=False, extra=(), limit=None, grid=None):
        self.name, self.sig, self.desc, self.impl, self.model = name, sig, desc, impl, model
        self.operands, self.direct, self.valid, self.canonical = list(operands), direct, valid, canonical
        self.result, self.exc = None, None
        # extra: further formulas the model call mentions; limit: own bound for the exhaustive enumeration;
        # grid: explicit assignments {symbol: value} tried in addition to the sampled ones
        self.extra, self.limit, self.grid = list(extra), limit, grid


# ------------------------------------------------------------------------------ small helpers
def zc(n):
    return "(%d)%%Z" % n


def clist(xs):
    return "[" + "; ".join(xs) + "]"


def sort_of(f):
    return f.get_type()


def sname(t):
    if t.is_bool_type():
        return "Bool"
    if t.is_int_type():
        return "Int"
    if t.is_real_type():
        return "Real"
    if t.is_bv_type():
        return "BV%d" % t.width
    return str(t)


def operand_coq(nm, r):
    """Gallina [operand] of a right operand (formula or Python literal)."""
    if hasattr(r, "node_type"):
        return "(OpT %s)" % nm[r]
    if type(r) is bool:
        return "(OpBool %s)" % ("true" if r else "false")
    if type(r) is int:
        return "(OpInt %s)" % zc(r)
    q = Fraction(r)
    return "(OpFrac %s %s)" % (zc(q.numerator), zc(q.denominator))


def lit_text(r):
    return r.serialize() if hasattr(r, "node_type") else repr(r)


def mask(w):
    return (1 << w) - 1


def bvv(w, v):
    return BV(w, v & mask(w))


# ------------------------------------------------------------------------------ direct definitions
def smt_div(a, b):
    return a // b if b > 0 else -(a // -b)


def d_smod(a, b):
    """SMT-LIB bvsmod: remainder with the sign of the divisor; bvsmod s 0 = s."""
    sa, sb = a.signed(), b.signed()
    if sb == 0:
        return a
    return bvv(a.width, sa % sb)          # Python's % has the sign of the divisor


def d_repeat(a, count):
    v = 0
    for _ in range(count):
        v = (v << a.width) | a.value
    return BV(a.width * count, v)


def d_concat(vals):
    v, w = 0, 0
    for a in vals:
        v, w = (v << a.width) | a.value, w + a.width
    return BV(w, v)


def py_sem(op, a, b):
    """Meaning of the Python operator `op` on two values of one sort, by its name."""
    if isinstance(a, BV):
        if not isinstance(b, BV) or a.width != b.width:
            return MUST_RAISE
        w, x, y = a.width, a.value, b.value
        if op in ("PAdd", "PRadd"):
            return bvv(w, x + y)
        if op == "PSub":
            return bvv(w, x - y)
        if op == "IRsub":
            return bvv(w, y - x)
        if op in ("PMul", "PRmul"):
            return bvv(w, x * y)
        if op == "PDiv":
            return BV(w, mask(w) if y == 0 else x // y)
        if op == "PMod":
            return BV(w, x if y == 0 else x % y)
        if op in ("PAnd", "PRand"):
            return BV(w, x & y)
        if op in ("POr", "PRor"):
            return BV(w, x | y)
        if op in ("PXor", "PRxor"):
            return BV(w, x ^ y)
        if op == "PLshift":
            return bvv(w, x << y) if y < w else BV(w, 0)
        if op == "PRshift":
            return BV(w, x >> y) if y < w else BV(w, 0)
        return {"PGt": x > y, "PGe": x >= y, "PLt": x < y, "PLe": x <= y}[op]
    if type(a) is bool:
        if type(b) is not bool:
            return MUST_RAISE
        if op in ("PAnd", "PRand"):
            return a and b
        if op in ("POr", "PRor"):
            return a or b
        if op in ("PXor", "PRxor"):
            return a != b
        return MUST_RAISE
    if type(a) is int and type(b) is int or isinstance(a, Fraction) and isinstance(b, Fraction):
        if op in ("PAdd", "PRadd"):
            return a + b
        if op == "PSub":
            return a - b
        if op == "IRsub":
            return b - a
        if op in ("PMul", "PRmul"):
            return a * b
        if op == "PDiv":
            if b == 0:
                return SKIP
            return smt_div(a, b) if type(a) is int else a / b
        if op in ("PGt", "PGe", "PLt", "PLe"):
            return {"PGt": a > b, "PGe": a >= b, "PLt": a < b, "PLe": a <= b}[op]
        return MUST_RAISE
    return MUST_RAISE


def promote(lit, t):
    """Value a Python literal stands for next to an operand of sort t (None: not allowed)."""
    if t.is_bv_type():
        return BV(t.width, lit) if type(lit) is int and 0 <= lit < (1 << t.width) else None
    if t.is_bool_type():
        return lit if type(lit) is bool else None
    if t.is_int_type():
        return lit if type(lit) is int else None
    if t.is_real_type():
        return Fraction(lit) if type(lit) in (int, float, Fraction) else None
    return None


# ------------------------------------------------------------------------------ argument pools
class Pools(object):
    def __init__(self, env, widths, small_consts=True):
        m = env.formula_manager
        self.m = m
        self.P = {}
        p = [m.Symbol("p%d" % i, BOOL) for i in range(6)]
        self.P[BOOL] = {"sym": p, "const": [m.TRUE(), m.FALSE()],
                        "comp": [m.Not(p[0]), m.Not(p[1]), m.And(p[0], p[1]), m.Or(p[2], p[3]), m.Iff(p[1], p[2]), m.Not(m.And(p[4], p[5]))]}
        i = [m.Symbol("i%d" % k, INT) for k in range(6)]
        self.P[INT] = {"sym": i, "const": [m.Int(2), m.Int(-3), m.Int(7)] + ([m.Int(0), m.Int(1)] if small_consts else []),
                       "comp": [m.Plus(i[0], m.Int(2)), m.Times(i[1], i[2]), m.Ite(p[0], i[0], i[1]), m.Minus(i[3], i[0])]}
        r = [m.Symbol("r%d" % k, REAL) for k in range(6)]
        self.P[REAL] = {"sym": r, "const": [m.Real(Fraction(1, 2)), m.Real(-2)] + ([m.Real(0), m.Real(1)] if small_consts else []),
                        "comp": [m.Plus(r[0], r[1]), m.ToReal(i[0]), m.Times(r[2], m.Real(Fraction(3, 4))), m.Ite(p[1], r[0], r[3])]}
        for w in widths:
            t = BVType(w)
            x = [m.Symbol("x%d_%d" % (w, k), t) for k in range(6)]
            vals = range(1 << w) if w <= 2 else sorted(set([0, 1, 2, mask(w), 1 << (w - 1), (1 << (w - 1)) - 1, (1 << (w - 1)) + 1]))
            self.P[t] = {"sym": x, "const": [m.BV(v, w) for v in vals],
                         "comp": [m.BVNot(x[0]), m.BVAdd(x[0], x[1]), m.Ite(p[0], x[0], x[1]), m.BVNeg(x[2])]}
        self.sorts = [BOOL, INT, REAL] + [BVType(w) for w in widths]

    def pick(self, rnd, t, syms=None):
        u = rnd.random()
        pl = self.P[t]
        if u < 0.55:
            return rnd.choice(pl["sym"] if syms is None else pl["sym"][:syms])
        if u < 0.75:
            return rnd.choice(pl["const"])
        return rnd.choice(pl["comp"])

    def shapes(self, t):
        pl = self.P[t]
        return [pl["sym"][0], pl["const"][0], pl["comp"][0]]


# ------------------------------------------------------------------------------ case generation
def nary_specs(pools, rnd, tier, out):
    m = pools.m
    bvs = [t for t in pools.sorts if t.is_bv_type()]

    def add(name, coq_fn, sorts_ok, direct, min_arity, call, extra_sig="", mixed_ok=False, sorts=None):
        for t in (sorts or pools.sorts):
            for n in range(0, 7):
                argsets = [(list(pools.P[t]["sym"][:n]), True)]
                reps = 3 if tier == "quick" else 10
                for _ in range(reps if n else 0):
                    argsets.append(([pools.pick(rnd, t, syms=3 if rnd.random() < 0.5 else None) for _ in range(n)], False))
                if n >= 2 and not mixed_ok:      # one ill-sorted argument
                    other = rnd.choice([s for s in pools.sorts if s != t])
                    a = [pools.pick(rnd, t) for _ in range(n)]
                    a[rnd.randrange(n)] = pools.pick(rnd, other)
                    argsets.append((a, False))
                for args, canon in argsets:
                    same = all(sort_of(a) == t for a in args)
                    if not same:
                        valid = INVALID if n >= 2 else ANY
                    elif not sorts_ok(t):
                        valid = INVALID if n >= max(2, min_arity) else ANY
                    else:
                        valid = VALID if n >= min_arity else INVALID
                    for conv in ("star", "list"):
                        if conv == "list" and (n == 0 or rnd.random() < 0.5) and not canon:
                            continue
                        out.append(Spec(name, "%s%s/%d%s" % (sname(t), extra_sig, n, "" if same else "/mixed"),
                                        "%s(%s%s)" % (name, "*" if conv == "star" else "", [a.serialize() for a in args]),
                                        (lambda args=args, conv=conv: call(*args) if conv == "star" else call(list(args))),
                                        (lambda nm, args=args: coq_fn(clist([nm[a] for a in args]))),
                                        operands=args, direct=(direct if same and sorts_ok(t) else None), valid=valid, canonical=canon))

    arith = lambda t: t.is_int_type() or t.is_real_type()
    isbool = lambda t: t.is_bool_type()
    isbv = lambda t: t.is_bv_type()
    add("Min", lambda l: "mk_min %s" % l, arith, lambda v: min(v), 1, m.Min)
    add("Max", lambda l: "mk_max %s" % l, arith, lambda v: max(v), 1, m.Max)
    for sign in (False, True):
        key = (lambda x: x.signed()) if sign else (lambda x: x.value)
        sg = "true" if sign else "false"
        add("MinBV", lambda l, sg=sg: "mk_minbv %s %s" % (sg, l), isbv, lambda v, key=key: min(v, key=key), 1,
            lambda *a, sign=sign: m.MinBV(sign, *a), extra_sig="/signed" if sign else "/unsigned", sorts=bvs + [INT])
        add("MaxBV", lambda l, sg=sg: "mk_maxbv %s %s" % (sg, l), isbv, lambda v, key=key: max(v, key=key), 1,
            lambda *a, sign=sign: m.MaxBV(sign, *a), extra_sig="/signed" if sign else "/unsigned", sorts=bvs + [INT])
    add("AtMostOne", lambda l: "Some (mk_at_most_one %s)" % l, isbool, lambda v: sum(1 for x in v if x) <= 1, 0, m.AtMostOne, sorts=[BOOL, INT])
    add("ExactlyOne", lambda l: "Some (mk_exactly_one %s)" % l, isbool, lambda v: sum(1 for x in v if x) == 1, 0, m.ExactlyOne, sorts=[BOOL, INT])
    add("AllDifferent", lambda l: "Some (mk_all_different %s)" % l, lambda t: True, lambda v: len(set(v)) == len(v), 0, m.AllDifferent)

    def fold(f):
        def g(v):
            acc = v[0]
            for x in v[1:]:
                acc = f(acc, x)
            return acc
        return g
    add("BVAnd", lambda l: "mk_bvand_n %s" % l, isbv, fold(lambda a, b: BV(a.width, a.value & b.value)), 1, m.BVAnd, sorts=bvs + [BOOL])
    add("BVOr", lambda l: "mk_bvor_n %s" % l, isbv, fold(lambda a, b: BV(a.width, a.value | b.value)), 1, m.BVOr, sorts=bvs + [BOOL])
    add("BVAdd", lambda l: "mk_bvadd_n %s" % l, isbv, lambda v: bvv(v[0].width, sum(x.value for x in v)), 1, m.BVAdd, sorts=bvs + [INT])
    add("BVMul", lambda l: "mk_bvmul_n %s" % l, isbv, fold(lambda a, b: bvv(a.width, a.value * b.value)), 1, m.BVMul, sorts=bvs + [INT])
    add("BVConcat", lambda l: "mk_bvconcat_n %s" % l, isbv, d_concat, 2, m.BVConcat, sorts=bvs, mixed_ok=True)
    # concatenation of different widths is legal
    for n in range(2, 7):
        for _ in range(4 if tier == "quick" else 20):
            args = [pools.pick(rnd, rnd.choice(bvs)) for _ in range(n)]
            out.append(Spec("BVConcat", "mixedwidth/%d" % n, "BVConcat(%s)" % [a.serialize() for a in args],
                            (lambda args=args: m.BVConcat(*args)), (lambda nm, args=args: "mk_bvconcat_n %s" % clist([nm[a] for a in args])),
                            operands=args, direct=d_concat, valid=VALID))


def binary_specs(pools, rnd, tier, out):
    m = pools.m
    arith = lambda t: t.is_int_type() or t.is_real_type()
    table = [
        ("NotEquals", "Some (mk_neq %s %s)", m.NotEquals, lambda t: not t.is_bool_type(), lambda a, b: a != b),
        ("GE", "Some (mk_ge %s %s)", m.GE, arith, lambda a, b: a >= b),
        ("GT", "Some (mk_gt %s %s)", m.GT, arith, lambda a, b: a > b),
        ("Xor", "Some (mk_xor %s %s)", m.Xor, lambda t: t.is_bool_type(), lambda a, b: a != b),
        ("EqualsOrIff", "Some (mk_equals_or_iff %s %s)", m.EqualsOrIff, lambda t: True, lambda a, b: a == b),
        ("BVUGT", "Some (mk_bvugt %s %s)", m.BVUGT, lambda t: t.is_bv_type(), lambda a, b: a.value > b.value),
        ("BVUGE", "Some (mk_bvuge %s %s)", m.BVUGE, lambda t: t.is_bv_type(), lambda a, b: a.value >= b.value),
        ("BVSGT", "Some (mk_bvsgt %s %s)", m.BVSGT, lambda t: t.is_bv_type(), lambda a, b: a.signed() > b.signed()),
        ("BVSGE", "Some (mk_bvsge %s %s)", m.BVSGE, lambda t: t.is_bv_type(), lambda a, b: a.signed() >= b.signed()),
        ("BVNand", "Some (mk_bvnand %s %s)", m.BVNand, lambda t: t.is_bv_type(), lambda a, b: bvv(a.width, ~(a.value & b.value))),
        ("BVNor", "Some (mk_bvnor %s %s)", m.BVNor, lambda t: t.is_bv_type(), lambda a, b: bvv(a.width, ~(a.value | b.value))),
        ("BVXnor", "Some (mk_bvxnor %s %s)", m.BVXnor, lambda t: t.is_bv_type(), lambda a, b: bvv(a.width, ~(a.value ^ b.value))),
        ("BVSMod", "mk_bvsmod %s %s", m.BVSMod, lambda t: t.is_bv_type(), d_smod),
    ]
    for name, fmt, call, sort_ok, direct in table:
        for t1 in pools.sorts:
            for t2 in pools.sorts:
                pairs = []
                if t1 == t2:
                    s = pools.P[t1]["sym"]
                    pairs.append((s[0], s[1], True))
                    pairs.append((s[0], s[0], False))
                    if t1.is_bv_type() and sort_ok(t1):
                        cs = pools.P[t1]["const"]
                        pairs += [(a, b, False) for a in cs for b in cs] if t1.width <= 2 or tier == "thorough" else \
                                 [(rnd.choice(cs), rnd.choice(cs), False) for _ in range(12)]
                    for _ in range(4 if tier == "quick" else 12):
                        pairs.append((pools.pick(rnd, t1), pools.pick(rnd, t2), False))
                else:
                    pairs.append((pools.pick(rnd, t1), pools.pick(rnd, t2), False))
                for a, b, canon in pairs:
                    ok = t1 == t2 and sort_ok(t1)
                    out.append(Spec(name, "%s,%s" % (sname(t1), sname(t2)), "%s(%s, %s)" % (name, a.serialize(), b.serialize()),
                                    (lambda a=a, b=b, call=call: call(a, b)), (lambda nm, a=a, b=b, fmt=fmt: fmt % (nm[a], nm[b])),
                                    operands=[a, b], direct=((lambda v, direct=direct: direct(v[0], v[1])) if ok else None),
                                    valid=VALID if ok else INVALID, canonical=canon))


def misc_specs(pools, rnd, tier, out, shortcuts_abs, maxw):
    m = pools.m
    # Abs (pysmt.shortcuts: works on the environment under get_env())
    for t in pools.sorts:
        for a in pools.shapes(t) + [pools.pick(rnd, t) for _ in range(3)]:
            ok = t.is_int_type() or t.is_real_type()
            out.append(Spec("Abs", sname(t), "Abs(%s)" % a.serialize(), (lambda a=a: shortcuts_abs(a)), (lambda nm, a=a: "mk_abs %s" % nm[a]),
                            operands=[a], direct=(lambda v: abs(v[0])) if ok else None, valid=VALID if ok else INVALID, canonical=True))
    # SBV / BVOne / BVZero
    for w in range(0, maxw + 2):
        lo, hi = -(1 << w) - 2, (1 << w) + 2
        for z in range(lo, hi + 1):
            inr = w >= 1 and -(1 << (w - 1)) <= z < (1 << (w - 1))
            out.append(Spec("SBV", "w%d/%s" % (w, "in" if inr else "out"), "SBV(%d, %d)" % (z, w), (lambda z=z, w=w: m.SBV(z, w)),
                            (lambda nm, z=z, w=w: "mk_sbv %s %s" % (zc(z), zc(w))),
                            direct=(lambda v, z=z, w=w: ("signed", w, z)), valid=VALID if inr else INVALID, canonical=True))
        out.append(Spec("BVOne", "w%d" % w, "BVOne(%d)" % w, (lambda w=w: m.BVOne(w)), (lambda nm, w=w: "mk_bvone %s" % zc(w)),
                        direct=(lambda v, w=w: BV(w, 1)) if w >= 1 else None, valid=VALID if w >= 1 else INVALID))
        out.append(Spec("BVZero", "w%d" % w, "BVZero(%d)" % w, (lambda w=w: m.BVZero(w)), (lambda nm, w=w: "mk_bvzero %s" % zc(w)),
                        direct=(lambda v, w=w: BV(w, 0)) if w >= 1 else None, valid=VALID if w >= 1 else ANY))
    # BVRepeat, shifts by a Python integer
    for t in pools.sorts:
        isbv = t.is_bv_type()
        for a in pools.shapes(t) + [pools.pick(rnd, t) for _ in range(2)]:
            for count in range(-2, 5):
                if isbv:
                    valid, direct = (VALID, (lambda v, count=count: d_repeat(v[0], count))) if count >= 1 else (INVALID, None)
                else:
                    valid, direct = INVALID, None      # not a bit-vector: must raise for every count (count = 1 included: /repo 7e93ce0)
                out.append(Spec("BVRepeat", "%s/%s" % ("BV" if isbv else sname(t), "count>=1" if count >= 1 else "count<=0"),
                                "BVRepeat(%s, %d)" % (a.serialize(), count), (lambda a=a, count=count: m.BVRepeat(a, count)),
                                (lambda nm, a=a, count=count: "mk_bvrepeat %s %s" % (nm[a], zc(count))),
                                operands=[a], direct=direct, valid=valid, canonical=True))
            for bad in (True, 2.0):       # not a Python integer: PysmtValueError (outside the model's Z-typed count)
                out.append(Spec("BVRepeat", "%s/count:%s" % ("BV" if isbv else sname(t), type(bad).__name__), "BVRepeat(%s, %r)" % (a.serialize(), bad),
                                (lambda a=a, bad=bad: m.BVRepeat(a, bad)), (lambda nm: "None"), operands=[a], valid=INVALID))
            w = t.width if isbv else 2
            for k in range(-1, (1 << w) + 2):
                for name, fn, call in (("BVLShl", "mk_bvshl_int", m.BVLShl), ("BVLShr", "mk_bvlshr_int", m.BVLShr), ("BVAShr", "mk_bvashr_int", m.BVAShr)):
                    inr = isbv and 0 <= k < (1 << w)

                    def direct(v, k=k, name=name):
                        x, ww = v[0], v[0].width
                        if name == "BVLShl":
                            return bvv(ww, x.value << k) if k < ww else BV(ww, 0)
                        if name == "BVLShr":
                            return BV(ww, x.value >> k) if k < ww else BV(ww, 0)
                        return bvv(ww, x.signed() >> min(k, ww))
                    out.append(Spec(name + "/int", "%s/%s" % ("BV" if isbv else sname(t), "inrange" if inr else "outofrange"),
                                    "%s(%s, %d)" % (name, a.serialize(), k), (lambda a=a, k=k, call=call: call(a, k)),
                                    (lambda nm, a=a, k=k, fn=fn: "%s %s %s" % (fn, nm[a], zc(k))),
                                    operands=[a], direct=direct if inr else None, valid=VALID if inr else INVALID, canonical=True))


PYOPS = {
    "PAdd": "__add__", "PRadd": "__radd__", "PSub": "__sub__", "PMul": "__mul__", "PRmul": "__rmul__", "PDiv": "__truediv__",
    "PGt": "__gt__", "PGe": "__ge__", "PLt": "__lt__", "PLe": "__le__", "PAnd": "__and__", "PRand": "__rand__", "POr": "__or__",
    "PRor": "__ror__", "PXor": "__xor__", "PRxor": "__rxor__", "PLshift": "__lshift__", "PRshift": "__rshift__", "PMod": "__mod__",
}
ARITH_OPS = ("PAdd", "PRadd", "PSub", "IRsub", "PMul", "PRmul", "PDiv", "PGt", "PGe", "PLt", "PLe")
BITS_OPS = ("PAnd", "PRand", "POr", "PRor", "PXor", "PRxor")
BVONLY_OPS = ("PLshift", "PRshift", "PMod")


def op_defined(op, t):
    if t.is_bv_type():
        return True
    if t.is_bool_type():
        return op in BITS_OPS
    if t.is_int_type() or t.is_real_type():
        return op in ARITH_OPS
    return False


def infix_specs(pools, rnd, tier, out, literals, light=False):
    m = pools.m
    ops = list(PYOPS) + ["IRsub"]
    for t in pools.sorts:
        lefts = pools.shapes(t)[:(2 if light else 3)] + [pools.pick(rnd, t) for _ in range(0 if light else 1 if tier == "quick" else 6)]
        for left in lefts:
            rights = [pools.pick(rnd, t), pools.pick(rnd, t), pools.pick(rnd, rnd.choice([s for s in pools.sorts if s != t]))] + list(literals)
            for op in ops:
                for r in rights:
                    isnode = hasattr(r, "node_type")
                    rv = None if isnode else promote(r, t)
                    if isnode:
                        valid = VALID if (sort_of(r) == t and op_defined(op, t)) else INVALID
                    else:
                        valid = VALID if (rv is not None and op_defined(op, t)) else INVALID
                    meth = "__rsub__" if op == "IRsub" else PYOPS[op]
                    coqop = "IRsub" if op == "IRsub" else "(IPy %s)" % op

                    def direct(v, op=op, r=r, rv=rv, isnode=isnode):
                        return py_sem(op, v[0], v[1] if isnode else rv)
                    out.append(Spec("infix:" + meth, "%s,%s" % (sname(t), sname(sort_of(r)) if isnode else type(r).__name__ + ("" if rv is not None else "!")),
                                    "(%s).%s(%s)" % (left.serialize(), meth, lit_text(r)),
                                    (lambda left=left, meth=meth, r=r: getattr(left, meth)(r)),
                                    (lambda nm, left=left, coqop=coqop, r=r: "infix %s %s %s" % (nm[left], coqop, operand_coq(nm, r))),
                                    operands=[left] + ([r] if isnode else []), direct=direct if valid == VALID else None, valid=valid))
            # unary
            isbv, isb, isar = t.is_bv_type(), t.is_bool_type(), t.is_int_type() or t.is_real_type()
            out.append(Spec("infix:__neg__", sname(t), "-(%s)" % left.serialize(), (lambda left=left: -left), (lambda nm, left=left: "infix_neg %s" % nm[left]),
                            operands=[left], direct=(lambda v: bvv(v[0].width, -v[0].value) if isinstance(v[0], BV) else -v[0]) if (isbv or isar) else None,
                            valid=VALID if (isbv or isar) else INVALID, canonical=True))
            out.append(Spec("infix:__invert__", sname(t), "~(%s)" % left.serialize(), (lambda left=left: ~left), (lambda nm, left=left: "infix_invert %s" % nm[left]),
                            operands=[left], direct=(lambda v: bvv(v[0].width, ~v[0].value) if isinstance(v[0], BV) else (not v[0])) if (isbv or isb) else None,
                            valid=VALID if (isbv or isb) else INVALID, canonical=True))
            # __getitem__
            w = t.width if isbv else 3
            idxs = [(i,) for i in range(-1, w + 1)] + [(a, b) for a in (None, 0, 1, 2, w - 1, w) for b in (None, -1, 0, 1, 2, w - 1, w)]
            for idx in idxs:
                if len(idx) == 1:
                    py, coq, s, e = idx[0], "(IdxPoint %s)" % zc(idx[0]), idx[0], idx[0]
                else:
                    a, b = idx
                    py = slice(a, b)
                    coq = "(IdxSlice %s %s)" % tuple("None" if x is None else "(Some %s)" % zc(x) for x in idx)
                    s, e = (0 if a is None else a), (w - 1 if b is None else b)
                ok = isbv and 0 <= s <= e < w
                out.append(Spec("infix:__getitem__", "%s/%s" % ("BV" if isbv else sname(t), "inrange" if (0 <= s <= e < w) else "outofrange"),
                                "(%s)[%s]" % (left.serialize(), py), (lambda left=left, py=py: left[py]),
                                (lambda nm, left=left, coq=coq: "infix_getitem %s %s" % (nm[left], coq)), operands=[left],
                                direct=(lambda v, s=s, e=e: BV(e - s + 1, (v[0].value >> s) & mask(e - s + 1))) if ok else None,
                                valid=VALID if ok else INVALID, canonical=True))
    # named methods: x.Name(y) = FormulaManager.Name(x, y') after promotion
    named = [("Implies", "CImplies", BOOL, lambda a, b: (not a) or b), ("Iff", "CIff", BOOL, lambda a, b: a == b),
             ("And", "CAnd", BOOL, lambda a, b: a and b), ("Or", "COr", BOOL, lambda a, b: a or b),
             ("Equals", "CEquals", None, lambda a, b: a == b), ("NotEquals", "CNotEquals", None, lambda a, b: a != b)]
    bvnamed = [("BVAnd", "(CBV BAnd)", lambda a, b: BV(a.width, a.value & b.value)), ("BVOr", "(CBV BOr)", lambda a, b: BV(a.width, a.value | b.value)),
               ("BVXor", "(CBV BXor)", lambda a, b: BV(a.width, a.value ^ b.value)), ("BVAdd", "(CBV BAdd)", lambda a, b: bvv(a.width, a.value + b.value)),
               ("BVSub", "(CBV BSub)", lambda a, b: bvv(a.width, a.value - b.value)), ("BVMul", "(CBV BMul)", lambda a, b: bvv(a.width, a.value * b.value)),
               ("BVUDiv", "(CBV BUdiv)", lambda a, b: BV(a.width, mask(a.width) if b.value == 0 else a.value // b.value)),
               ("BVURem", "(CBV BUrem)", lambda a, b: BV(a.width, a.value if b.value == 0 else a.value % b.value)),
               ("BVLShl", "(CBV BLshl)", lambda a, b: bvv(a.width, a.value << b.value) if b.value < a.width else BV(a.width, 0)),
               ("BVLShr", "(CBV BLshr)", lambda a, b: BV(a.width, a.value >> b.value) if b.value < a.width else BV(a.width, 0)),
               ("BVAShr", "(CBV BAshr)", lambda a, b: bvv(a.width, a.signed() >> min(b.value, a.width))),
               ("BVSDiv", "(CBV BSdiv)", None), ("BVSRem", "(CBV BSrem)", None),
               ("BVComp", "(CBV BComp)", lambda a, b: BV(1, 1 if a == b else 0)), ("BVConcat", "(CBV BConcat)", lambda a, b: d_concat([a, b])),
               ("BVULT", "(CBVRel BUlt)", lambda a, b: a.value < b.value), ("BVULE", "(CBVRel BUle)", lambda a, b: a.value <= b.value),
               ("BVSLT", "(CBVRel BSlt)", lambda a, b: a.signed() < b.signed()), ("BVSLE", "(CBVRel BSle)", lambda a, b: a.signed() <= b.signed()),
               ("BVUGT", "CBVUGT", lambda a, b: a.value > b.value), ("BVUGE", "CBVUGE", lambda a, b: a.value >= b.value),
               ("BVSGT", "CBVSGT", lambda a, b: a.signed() > b.signed()), ("BVSGE", "CBVSGE", lambda a, b: a.signed() >= b.signed()),
               ("BVNand", "CBVNand", lambda a, b: bvv(a.width, ~(a.value & b.value))), ("BVNor", "CBVNor", lambda a, b: bvv(a.width, ~(a.value | b.value))),
               ("BVXnor", "CBVXnor", lambda a, b: bvv(a.width, ~(a.value ^ b.value))), ("BVSMod", "CBVSMod", d_smod)]

    def sdiv(a, b):      # truncating division / remainder with the sign of the dividend
        sa, sb = a.signed(), b.signed()
        if sb == 0:
            return bvv(a.width, -1 if sa >= 0 else 1), a
        q = abs(sa) // abs(sb)
        q = q if (sa < 0) == (sb < 0) else -q
        return bvv(a.width, q), bvv(a.width, sa - q * sb)
    for t in pools.sorts:
        for left in pools.shapes(t)[:(1 if light else 2)] + [pools.pick(rnd, t)]:
            rights = [pools.pick(rnd, t), pools.pick(rnd, rnd.choice([s for s in pools.sorts if s != t]))] + list(literals)
            for r in rights:
                isnode = hasattr(r, "node_type")
                rv = None if isnode else promote(r, t)
                same = (sort_of(r) == t) if isnode else (rv is not None)
                cands = [(n, c, (dom is None and not t.is_bool_type()) or dom == t, d) for n, c, dom, d in named]
                cands += [(n, c, t.is_bv_type(), d) for n, c, d in bvnamed]
                for n, c, sort_ok, d in cands:
                    if n in ("BVSDiv", "BVSRem"):
                        d = (lambda a, b, n=n: sdiv(a, b)[0 if n == "BVSDiv" else 1])
                    if n == "BVConcat" and isnode and sort_of(r).is_bv_type() and t.is_bv_type():
                        same_ok = True
                    else:
                        same_ok = same
                    valid = VALID if (same_ok and sort_ok) else INVALID

                    def direct(v, d=d, rv=rv, isnode=isnode):
                        return d(v[0], v[1] if isnode else rv)
                    out.append(Spec("method:" + n, "%s,%s" % (sname(t), sname(sort_of(r)) if isnode else type(r).__name__ + ("" if rv is not None else "!")),
                                    "(%s).%s(%s)" % (left.serialize(), n, lit_text(r)), (lambda left=left, n=n, r=r: getattr(left, n)(r)),
                                    (lambda nm, left=left, c=c, r=r: "infix %s (IMeth %s) %s" % (nm[left], c, operand_coq(nm, r))),
                                    operands=[left] + ([r] if isnode else []), direct=direct if valid == VALID else None, valid=valid))
        # x.Ite(a, b)
        for _ in range(3):
            c, a, b = pools.pick(rnd, BOOL), pools.pick(rnd, t), pools.pick(rnd, t)
            out.append(Spec("method:Ite", sname(t), "(%s).Ite(%s, %s)" % (c.serialize(), a.serialize(), b.serialize()), (lambda c=c, a=a, b=b: c.Ite(a, b)),
                            (lambda nm, c=c, a=a, b=b: "infix_ite %s (OpT %s) (OpT %s)" % (nm[c], nm[a], nm[b])), operands=[c, a, b],
                            direct=(lambda v: v[1] if v[0] else v[2]), valid=VALID))
        c, a = pools.pick(rnd, BOOL), pools.pick(rnd, t)
        out.append(Spec("method:Ite", sname(t) + "/literal", "(%s).Ite(%s, 1)" % (c.serialize(), a.serialize()), (lambda c=c, a=a: c.Ite(a, 1)),
                        (lambda nm, c=c, a=a: "infix_ite %s (OpT %s) (OpInt 1%%Z)" % (nm[c], nm[a])), operands=[c, a], valid=INVALID))
    # methods with Python integer parameters
    for t in pools.sorts:
        for left in pools.shapes(t)[:1] + [pools.pick(rnd, t)]:
            for k in range(-1, 4):
                out.append(Spec("method:BVRepeat", "%s/%s" % (sname(t), "count>=1" if k >= 1 else "count<=0"), "(%s).BVRepeat(%d)" % (left.serialize(), k),
                                (lambda left=left, k=k: left.BVRepeat(k)), (lambda nm, left=left, k=k: "mk_bvrepeat %s %s" % (nm[left], zc(k))),
                                operands=[left], direct=(lambda v, k=k: d_repeat(v[0], k)) if (t.is_bv_type() and k >= 1) else None,
                                valid=(VALID if k >= 1 else INVALID) if t.is_bv_type() else INVALID))
                out.append(Spec("method:BVExtract", "%s/%d" % (sname(t), k), "(%s).BVExtract(%d, %d)" % (left.serialize(), k, k + 1),
                                (lambda left=left, k=k: left.BVExtract(k, k + 1)),
                                (lambda nm, left=left, k=k: "mk_bvextract %s %s (Some %s)" % (nm[left], zc(k), zc(k + 1))), operands=[left],
                                direct=(lambda v, k=k: BV(2, (v[0].value >> k) & 3)) if (t.is_bv_type() and 0 <= k and k + 1 < t.width) else None,
                                valid=(VALID if (0 <= k and k + 1 < t.width) else INVALID) if t.is_bv_type() else INVALID))
    # __call__
    f1 = m.Symbol("f1", FunctionType(BOOL, [INT, REAL]))
    f2 = m.Symbol("f2", FunctionType(INT, [pools.sorts[-1], BOOL]))
    xs = {s: pools.P[s]["sym"][0] for s in pools.sorts}
    calls = [(f1, (xs[INT], xs[REAL])), (f1, (3, Fraction(1, 2))), (f1, (3, 2)), (f1, (xs[INT], 0.25)), (f1, (xs[INT],)), (f1, (xs[REAL], xs[REAL])),
             (f1, (Fraction(1, 2), xs[REAL])), (f2, (1, True)), (f2, (xs[pools.sorts[-1]], xs[BOOL])), (f2, (1 << 9, False)),
             (f2, (0, 1)), (xs[INT], (xs[INT],)), (xs[INT], ()), (f1, ())]
    if not any(c.is_int_constant() and c.constant_value() == 1 for c in pools.P[INT]["const"]):
        calls.append((f1, (True, xs[REAL])))       # Int(True): only without a cached Int(1)
    for f, args in calls:
        out.append(Spec("infix:__call__", "%s/%s" % (f.symbol_name(), ",".join(type(a).__name__ for a in args)), "%s(%s)" % (f.symbol_name(), ", ".join(lit_text(a) for a in args)),
                        (lambda f=f, args=args: f(*args)), (lambda nm, f=f, args=args: "infix_call %s %s" % (nm[f], clist([operand_coq(nm, a) for a in args]))),
                        operands=[f] + [a for a in args if hasattr(a, "node_type")], valid=ANY))


def syntax_specs(env, out):
    """The same forms written with Python's own syntax (dispatch through the interpreter)."""
    m = env.formula_manager
    x, y = m.Symbol("sx", BVType(3)), m.Symbol("sy", BVType(3))
    i, r, p, q = m.Symbol("si", INT), m.Symbol("sr", REAL), m.Symbol("sp", BOOL), m.Symbol("sq", BOOL)
    S = [
        ("5 - si", lambda: 5 - i, lambda nm: "infix %s IRsub (OpInt 5%%Z)" % nm[i], [i], lambda v: 5 - v[0]),
        ("5 - sx", lambda: 5 - x, lambda nm: "infix %s IRsub (OpInt 5%%Z)" % nm[x], [x], lambda v: bvv(3, 5 - v[0].value)),
        ("Fraction(1,2) - sr", lambda: Fraction(1, 2) - r, lambda nm: "infix %s IRsub (OpFrac 1%%Z 2%%Z)" % nm[r], [r], lambda v: Fraction(1, 2) - v[0]),
        ("2 + si", lambda: 2 + i, lambda nm: "infix %s (IPy PRadd) (OpInt 2%%Z)" % nm[i], [i], lambda v: 2 + v[0]),
        ("3 * sx", lambda: 3 * x, lambda nm: "infix %s (IPy PRmul) (OpInt 3%%Z)" % nm[x], [x], lambda v: bvv(3, 3 * v[0].value)),
        ("sx - sy", lambda: x - y, lambda nm: "infix %s (IPy PSub) (OpT %s)" % (nm[x], nm[y]), [x, y], lambda v: bvv(3, v[0].value - v[1].value)),
        ("si - 7", lambda: i - 7, lambda nm: "infix %s (IPy PSub) (OpInt 7%%Z)" % nm[i], [i], lambda v: v[0] - 7),
        ("sr / 4", lambda: r / 4, lambda nm: "infix %s (IPy PDiv) (OpInt 4%%Z)" % nm[r], [r], lambda v: v[0] / 4),
        ("sx / sy", lambda: x / y, lambda nm: "infix %s (IPy PDiv) (OpT %s)" % (nm[x], nm[y]), [x, y], lambda v: py_sem("PDiv", v[0], v[1])),
        ("sx % sy", lambda: x % y, lambda nm: "infix %s (IPy PMod) (OpT %s)" % (nm[x], nm[y]), [x, y], lambda v: py_sem("PMod", v[0], v[1])),
        ("sx << 1", lambda: x << 1, lambda nm: "infix %s (IPy PLshift) (OpInt 1%%Z)" % nm[x], [x], lambda v: bvv(3, v[0].value << 1)),
        ("sx >> sy", lambda: x >> y, lambda nm: "infix %s (IPy PRshift) (OpT %s)" % (nm[x], nm[y]), [x, y], lambda v: py_sem("PRshift", v[0], v[1])),
        ("si > 2", lambda: i > 2, lambda nm: "infix %s (IPy PGt) (OpInt 2%%Z)" % nm[i], [i], lambda v: v[0] > 2),
        ("2 > si", lambda: 2 > i, lambda nm: "infix %s (IPy PLt) (OpInt 2%%Z)" % nm[i], [i], lambda v: 2 > v[0]),
        ("sx >= sy", lambda: x >= y, lambda nm: "infix %s (IPy PGe) (OpT %s)" % (nm[x], nm[y]), [x, y], lambda v: v[0].value >= v[1].value),
        ("sp & sq", lambda: p & q, lambda nm: "infix %s (IPy PAnd) (OpT %s)" % (nm[p], nm[q]), [p, q], lambda v: v[0] and v[1]),
        ("sp | True", lambda: p | True, lambda nm: "infix %s (IPy POr) (OpBool true)" % nm[p], [p], lambda v: True),
        ("sp ^ sq", lambda: p ^ q, lambda nm: "infix %s (IPy PXor) (OpT %s)" % (nm[p], nm[q]), [p, q], lambda v: v[0] != v[1]),
        ("~sp", lambda: ~p, lambda nm: "infix_invert %s" % nm[p], [p], lambda v: not v[0]),
        ("~sx", lambda: ~x, lambda nm: "infix_invert %s" % nm[x], [x], lambda v: bvv(3, ~v[0].value)),
        ("-si", lambda: -i, lambda nm: "infix_neg %s" % nm[i], [i], lambda v: -v[0]),
        ("-sx", lambda: -x, lambda nm: "infix_neg %s" % nm[x], [x], lambda v: bvv(3, -v[0].value)),
        ("sx[0:1]", lambda: x[0:1], lambda nm: "infix_getitem %s (IdxSlice (Some 0%%Z) (Some 1%%Z))" % nm[x], [x], lambda v: BV(2, v[0].value & 3)),
        ("sx[1:]", lambda: x[1:], lambda nm: "infix_getitem %s (IdxSlice (Some 1%%Z) None)" % nm[x], [x], lambda v: BV(2, v[0].value >> 1)),
        ("sx[2]", lambda: x[2], lambda nm: "infix_getitem %s (IdxPoint 2%%Z)" % nm[x], [x], lambda v: BV(1, v[0].value >> 2)),
    ]
    for desc, impl, model, ops, direct in S:
        out.append(Spec("syntax", desc, desc, impl, model, operands=ops, direct=direct, valid=VALID, canonical=True))



# ------------------------------------------------------------------------------ compositions
# Every derived constructor / infix form applied to an operand that is itself the RESULT of a derived
# constructor (depth 2; depth 3 inside one family).  The model call is the outer constructor applied to
# the implementation's inner result, so a constructor that inspects / merges with its operand's shape
# shows up in the exact correspondence; the oracle compares the value of the built formula with the
# composition of the direct Python definitions on the leaf values.
class Op(object):
    __slots__ = ("name", "group", "impl", "model", "direct", "text", "y", "valid", "extra")

    def __init__(self, name, group, impl, model, direct, text, y=None, valid=VALID, extra=()):
        self.name, self.group, self.impl, self.model, self.direct, self.text = name, group, impl, model, direct, text
        self.y, self.valid, self.extra = y, valid, list(extra)


def _shl(x, k):
    return bvv(x.width, x.value << k) if k < x.width else BV(x.width, 0)


def _lshr(x, k):
    return BV(x.width, x.value >> k) if k < x.width else BV(x.width, 0)


def _ashr(x, k):
    return bvv(x.width, x.signed() >> min(k, x.width))


def _rol(x, k):
    w = x.width
    k %= w
    return bvv(w, (x.value << k) | (x.value >> (w - k)))


def _ror(x, k):
    return _rol(x, (x.width - k % x.width) % x.width)


def bv_ops(m, pools, t, outer):
    """The unary derived forms (binary ones closed with a second symbol y) on an operand of sort BV(w)."""
    w = t.width
    ops = []

    def A(*a, **kw):
        ops.append(Op(*a, **kw))
    ks = list(range(1 << w)) if w <= 4 else sorted(set([0, 1, 2, w - 1, w, w + 1, mask(w) - 1, mask(w)]))
    for k in ks + ([1 << w, (1 << w) + 1, -1] if outer else []):
        inr = 0 <= k < (1 << w)
        v = VALID if inr else INVALID
        for nm_, fn, call, d, py in (("BVLShl", "mk_bvshl_int", m.BVLShl, _shl, "PLshift"), ("BVLShr", "mk_bvlshr_int", m.BVLShr, _lshr, "PRshift"),
                                     ("BVAShr", "mk_bvashr_int", m.BVAShr, _ashr, None)):
            A(nm_ + "/int", "shift", (lambda f, k=k, call=call: call(f, k)), (lambda n, nm, k=k, fn=fn: "%s %s %s" % (fn, n, zc(k))),
              (lambda x, c, k=k, d=d: d(x, k)) if inr else None, (lambda a, k=k, nm_=nm_: "%s(%s, %d)" % (nm_, a, k)), valid=v)
            if py is not None and outer:
                sym = "<<" if py == "PLshift" else ">>"
                A("infix" + sym + "int", "shift", (lambda f, k=k, sym=sym: (f << k) if sym == "<<" else (f >> k)),
                  (lambda n, nm, k=k, py=py: "infix %s (IPy %s) (OpInt %s)" % (n, py, zc(k))),
                  (lambda x, c, k=k, d=d: d(x, k)) if inr else None, (lambda a, k=k, sym=sym: "(%s %s %d)" % (a, sym, k)), valid=v)
        if outer and inr:
            A("method:BVLShl/int", "shift", (lambda f, k=k: f.BVLShl(k)), (lambda n, nm, k=k: "infix %s (IMeth (CBV BLshl)) (OpInt %s)" % (n, zc(k))),
              (lambda x, c, k=k: _shl(x, k)), (lambda a, k=k: "(%s).BVLShl(%d)" % (a, k)))
    for k in range(0, w + 1):
        A("BVRol", "rotate", (lambda f, k=k: m.BVRol(f, k)), (lambda n, nm, k=k: "Some (mk_bvrol %s %s)" % (n, zc(k))), (lambda x, c, k=k: _rol(x, k)),
          (lambda a, k=k: "BVRol(%s, %d)" % (a, k)))
        A("BVRor", "rotate", (lambda f, k=k: m.BVRor(f, k)), (lambda n, nm, k=k: "Some (mk_bvror %s %s)" % (n, zc(k))), (lambda x, c, k=k: _ror(x, k)),
          (lambda a, k=k: "BVRor(%s, %d)" % (a, k)))
    for k in range(0, 3):
        A("BVZExt", "extend", (lambda f, k=k: m.BVZExt(f, k)), (lambda n, nm, k=k: "Some (mk_bvzext %s %s)" % (n, zc(k))),
          (lambda x, c, k=k: BV(x.width + k, x.value)), (lambda a, k=k: "BVZExt(%s, %d)" % (a, k)))
        A("BVSExt", "extend", (lambda f, k=k: m.BVSExt(f, k)), (lambda n, nm, k=k: "Some (mk_bvsext %s %s)" % (n, zc(k))),
          (lambda x, c, k=k: bvv(x.width + k, x.signed())), (lambda a, k=k: "BVSExt(%s, %d)" % (a, k)))
    for k in ([0, 1, 2] if outer else [1, 2]):
        A("BVRepeat", "repeat", (lambda f, k=k: m.BVRepeat(f, k)), (lambda n, nm, k=k: "mk_bvrepeat %s %s" % (n, zc(k))),
          (lambda x, c, k=k: d_repeat(x, k)) if k >= 1 else None, (lambda a, k=k: "BVRepeat(%s, %d)" % (a, k)), valid=VALID if k >= 1 else INVALID)
    A("BVNeg", "negnot", (lambda f: m.BVNeg(f)), (lambda n, nm: "Some (mk_bvun BNeg %s)" % n), (lambda x, c: bvv(x.width, -x.value)), (lambda a: "BVNeg(%s)" % a))
    A("BVNot", "negnot", (lambda f: m.BVNot(f)), (lambda n, nm: "Some (mk_bvun BNot %s)" % n), (lambda x, c: bvv(x.width, ~x.value)), (lambda a: "BVNot(%s)" % a))
    A("infix:__neg__", "negnot", (lambda f: -f), (lambda n, nm: "infix_neg %s" % n), (lambda x, c: bvv(x.width, -x.value)), (lambda a: "(-%s)" % a))
    A("infix:__invert__", "negnot", (lambda f: ~f), (lambda n, nm: "infix_invert %s" % n), (lambda x, c: bvv(x.width, ~x.value)), (lambda a: "(~%s)" % a))
    cuts = [(a, b) for a in range(w) for b in range(a, w)]
    if w > 3:
        cuts = [(a, b) for a, b in cuts if a in (0, 1, w - 1) or b in (w - 1, w - 2)]
    for a, b in cuts:
        A("infix:__getitem__", "extract", (lambda f, a=a, b=b: f[a:b]),
          (lambda n, nm, a=a, b=b: "infix_getitem %s (IdxSlice (Some %s) (Some %s))" % (n, zc(a), zc(b))),
          (lambda x, c, a=a, b=b: BV(b - a + 1, (x.value >> a) & mask(b - a + 1))), (lambda t_, a=a, b=b: "%s[%d:%d]" % (t_, a, b)))
    if t in pools.P:
        y = pools.P[t]["sym"][1]
        ys = y.serialize()
        for sign in (False, True):
            key = (lambda v: v.signed()) if sign else (lambda v: v.value)
            sg = "true" if sign else "false"
            A("MinBV", "minmax", (lambda f, sign=sign: m.MinBV(sign, f, y)), (lambda n, nm, sg=sg: "mk_minbv %s [%s; %s]" % (sg, n, nm[y])),
              (lambda x, c, key=key: min([x, c[y]], key=key)), (lambda a, sign=sign: "MinBV(%s, %s, %s)" % (sign, a, ys)), y=y)
            A("MaxBV", "minmax", (lambda f, sign=sign: m.MaxBV(sign, y, f)), (lambda n, nm, sg=sg: "mk_maxbv %s [%s; %s]" % (sg, nm[y], n)),
              (lambda x, c, key=key: max([c[y], x], key=key)), (lambda a, sign=sign: "MaxBV(%s, %s, %s)" % (sign, ys, a)), y=y)
        two = [("BVNand", m.BVNand, "Some (mk_bvnand %s %s)", lambda a, b: bvv(a.width, ~(a.value & b.value))),
               ("BVNor", m.BVNor, "Some (mk_bvnor %s %s)", lambda a, b: bvv(a.width, ~(a.value | b.value))),
               ("BVXnor", m.BVXnor, "Some (mk_bvxnor %s %s)", lambda a, b: bvv(a.width, ~(a.value ^ b.value))),
               ("BVSMod", m.BVSMod, "mk_bvsmod %s %s", d_smod),
               ("BVAdd", m.BVAdd, "mk_bvadd_n [%s; %s]", lambda a, b: bvv(a.width, a.value + b.value)),
               ("BVMul", m.BVMul, "mk_bvmul_n [%s; %s]", lambda a, b: bvv(a.width, a.value * b.value)),
               ("BVAnd", m.BVAnd, "mk_bvand_n [%s; %s]", lambda a, b: BV(a.width, a.value & b.value)),
               ("BVOr", m.BVOr, "mk_bvor_n [%s; %s]", lambda a, b: BV(a.width, a.value | b.value)),
               ("BVConcat", m.BVConcat, "mk_bvconcat_n [%s; %s]", lambda a, b: d_concat([a, b])),
               ("infix:__sub__", (lambda a, b: a - b), "infix %s (IPy PSub) (OpT %s)", lambda a, b: bvv(a.width, a.value - b.value)),
               ("infix:__lshift__", (lambda a, b: a << b), "infix %s (IPy PLshift) (OpT %s)", lambda a, b: _shl(a, b.value))]
        for nm_, call, fmt, d in two:
            A(nm_, "binary", (lambda f, call=call: call(f, y)), (lambda n, nm, fmt=fmt: fmt % (n, nm[y])), (lambda x, c, d=d: d(x, c[y])),
              (lambda a, nm_=nm_: "%s(%s, %s)" % (nm_, a, ys)), y=y)
        A("BVSMod/flip", "binary", (lambda f: m.BVSMod(y, f)), (lambda n, nm: "mk_bvsmod %s %s" % (nm[y], n)), (lambda x, c: d_smod(c[y], x)),
          (lambda a: "BVSMod(%s, %s)" % (ys, a)), y=y)
        A("infix:__rsub__/int", "binary", (lambda f: 1 - f), (lambda n, nm: "infix %s IRsub (OpInt 1%%Z)" % n), (lambda x, c: bvv(x.width, 1 - x.value)),
          (lambda a: "(1 - %s)" % a))
    return ops


def arith_ops(m, pools, t, abs_fn):
    """Unary derived / infix forms on an Int or Real operand (binary ones closed with a second symbol y)."""
    y = pools.P[t]["sym"][1]
    ys = y.serialize()
    C = (lambda v: m.Int(v)) if t.is_int_type() else (lambda v: m.Real(v))
    m1 = C(-1)
    ops = []

    def A(*a, **kw):
        ops.append(Op(*a, **kw))
    A("infix:__neg__", "neg", (lambda f: -f), (lambda n, nm: "infix_neg %s" % n), (lambda x, c: -x), (lambda a: "(-%s)" % a))
    A("infix:__mul__/int", "neg", (lambda f: f * -1), (lambda n, nm: "infix %s (IPy PMul) (OpInt (-1)%%Z)" % n), (lambda x, c: -x), (lambda a: "(%s * -1)" % a))
    A("infix:__rmul__/int", "neg", (lambda f: -1 * f), (lambda n, nm: "infix %s (IPy PRmul) (OpInt (-1)%%Z)" % n), (lambda x, c: -x), (lambda a: "(-1 * %s)" % a))
    A("Times/-1", "neg", (lambda f: m.Times(f, m1)), (lambda n, nm: "mk_times [%s; %s]" % (n, nm[m1])), (lambda x, c: -x), (lambda a: "Times(%s, -1)" % a), extra=[m1])
    A("Times/-1/first", "neg", (lambda f: m.Times(m1, f)), (lambda n, nm: "mk_times [%s; %s]" % (nm[m1], n)), (lambda x, c: -x), (lambda a: "Times(-1, %s)" % a), extra=[m1])
    A("Times/-1/nary", "neg", (lambda f: m.Times(f, m1, y)), (lambda n, nm: "mk_times [%s; %s; %s]" % (n, nm[m1], nm[y])), (lambda x, c: -x * c[y]),
      (lambda a: "Times(%s, -1, %s)" % (a, ys)), y=y, extra=[m1])
    A("Plus/-1/nary", "neg", (lambda f: m.Plus(f, m1, y)), (lambda n, nm: "mk_plus [%s; %s; %s]" % (n, nm[m1], nm[y])), (lambda x, c: x - 1 + c[y]),
      (lambda a: "Plus(%s, -1, %s)" % (a, ys)), y=y, extra=[m1])
    A("infix:__rsub__/int", "neg", (lambda f: 7 - f), (lambda n, nm: "infix %s IRsub (OpInt 7%%Z)" % n), (lambda x, c: 7 - x), (lambda a: "(7 - %s)" % a))
    A("infix:__rsub__/zero", "neg", (lambda f: 0 - f), (lambda n, nm: "infix %s IRsub (OpInt 0%%Z)" % n), (lambda x, c: -x), (lambda a: "(0 - %s)" % a))
    A("Abs", "neg", (lambda f: abs_fn(f)), (lambda n, nm: "mk_abs %s" % n), (lambda x, c: abs(x)), (lambda a: "Abs(%s)" % a))
    A("Min", "neg", (lambda f: m.Min(f, y)), (lambda n, nm: "mk_min [%s; %s]" % (n, nm[y])), (lambda x, c: min(x, c[y])), (lambda a: "Min(%s, %s)" % (a, ys)), y=y)
    A("Max", "neg", (lambda f: m.Max(y, f)), (lambda n, nm: "mk_max [%s; %s]" % (nm[y], n)), (lambda x, c: max(x, c[y])), (lambda a: "Max(%s, %s)" % (ys, a)), y=y)
    A("infix:__sub__", "arith", (lambda f: f - y), (lambda n, nm: "infix %s (IPy PSub) (OpT %s)" % (n, nm[y])), (lambda x, c: x - c[y]), (lambda a: "(%s - %s)" % (a, ys)), y=y)
    A("infix:__sub__/int", "arith", (lambda f: f - 7), (lambda n, nm: "infix %s (IPy PSub) (OpInt 7%%Z)" % n), (lambda x, c: x - 7), (lambda a: "(%s - 7)" % a))
    A("infix:__add__/int", "arith", (lambda f: f + 1), (lambda n, nm: "infix %s (IPy PAdd) (OpInt 1%%Z)" % n), (lambda x, c: x + 1), (lambda a: "(%s + 1)" % a))
    A("infix:__mul__", "arith", (lambda f: f * y), (lambda n, nm: "infix %s (IPy PMul) (OpT %s)" % (n, nm[y])), (lambda x, c: x * c[y]), (lambda a: "(%s * %s)" % (a, ys)), y=y)
    A("Plus", "arith", (lambda f: m.Plus(y, f)), (lambda n, nm: "mk_plus [%s; %s]" % (nm[y], n)), (lambda x, c: x + c[y]), (lambda a: "Plus(%s, %s)" % (ys, a)), y=y)
    return ops


def bool_ops(m, pools):
    q = pools.P[BOOL]["sym"][1]
    qs = q.serialize()
    ops = []

    def A(*a, **kw):
        ops.append(Op(*a, **kw))
    A("infix:__invert__", "bool", (lambda f: ~f), (lambda n, nm: "infix_invert %s" % n), (lambda x, c: not x), (lambda a: "(~%s)" % a))
    A("Not", "bool", (lambda f: m.Not(f)), (lambda n, nm: "Some (mk_not %s)" % n), (lambda x, c: not x), (lambda a: "Not(%s)" % a))
    for nm_, call, fmt, d in (("infix:__and__", (lambda a, b: a & b), "infix %s (IPy PAnd) (OpT %s)", lambda a, b: a and b),
                              ("infix:__or__", (lambda a, b: a | b), "infix %s (IPy POr) (OpT %s)", lambda a, b: a or b),
                              ("infix:__xor__", (lambda a, b: a ^ b), "infix %s (IPy PXor) (OpT %s)", lambda a, b: a != b),
                              ("Xor", m.Xor, "Some (mk_xor %s %s)", lambda a, b: a != b),
                              ("method:Implies", (lambda a, b: a.Implies(b)), "infix %s (IMeth CImplies) (OpT %s)", lambda a, b: (not a) or b),
                              ("method:Iff", (lambda a, b: a.Iff(b)), "infix %s (IMeth CIff) (OpT %s)", lambda a, b: a == b),
                              ("EqualsOrIff", m.EqualsOrIff, "Some (mk_equals_or_iff %s %s)", lambda a, b: a == b),
                              ("AtMostOne", m.AtMostOne, "Some (mk_at_most_one [%s; %s])", lambda a, b: not (a and b)),
                              ("ExactlyOne", m.ExactlyOne, "Some (mk_exactly_one [%s; %s])", lambda a, b: a != b),
                              ("AllDifferent", m.AllDifferent, "Some (mk_all_different [%s; %s])", lambda a, b: a != b)):
        A(nm_, "bool", (lambda f, call=call: call(f, q)), (lambda n, nm, fmt=fmt: fmt % (n, nm[q])), (lambda x, c, d=d: d(x, c[q])),
          (lambda a, nm_=nm_: "%s(%s, %s)" % (nm_, a, qs)), y=q)
    A("infix:__and__/bool", "bool", (lambda f: f & True), (lambda n, nm: "infix %s (IPy PAnd) (OpBool true)" % n), (lambda x, c: x), (lambda a: "(%s & True)" % a))
    A("infix:__ror__/bool", "bool", (lambda f: False | f), (lambda n, nm: "infix %s (IPy PRor) (OpBool false)" % n), (lambda x, c: x), (lambda a: "(False | %s)" % a))
    return ops


def comp_specs(pools, rnd, tier, out, abs_fn):
    m = pools.m
    quick = tier == "quick"
    D3 = ("shift", "rotate", "extend", "repeat", "negnot", "minmax", "neg", "bool")
    counts = {}

    def emit(chain, operand, leaf):
        """Spec for chain[-1] applied to `operand` (the implementation's result of chain[:-1] on leaf)."""
        o = chain[-1]
        ys = []
        for c_ in chain:
            if c_.y is not None and c_.y not in ys:
                ys.append(c_.y)
        txt = leaf.serialize()
        for c_ in chain:
            txt = c_.text(txt)
        direct = None
        if all(c_.direct is not None for c_ in chain):
            def direct(v, chain=chain, ys=ys):
                ctx = dict(zip(ys, v[1:]))
                x = v[0]
                for c_ in chain:
                    x = c_.direct(x, ctx)
                return x
        extra = [operand] + [e for c_ in chain for e in c_.extra]
        sp = Spec("comp%d:%s" % (len(chain), o.name), "/".join(c_.group for c_ in reversed(chain)) + ":" + sname(sort_of(leaf)), txt,
                  (lambda o=o, operand=operand: o.impl(operand)), (lambda nm, o=o, operand=operand: o.model(nm[operand], nm)),
                  operands=[leaf] + ys, direct=direct, valid=o.valid, canonical=True, extra=extra, limit=4096,
                  grid=None if leaf.get_type().is_bv_type() or leaf.get_type().is_bool_type() else
                  [{s_: v_ for s_ in [leaf] + ys} for v_ in ((-3, 2, 5) if leaf.get_type().is_int_type() else (Fraction(-3), Fraction(1, 2), Fraction(5)))])
        out.append(sp)
        counts[len(chain)] = counts.get(len(chain), 0) + 1
        try:
            return o.impl(operand)
        except Exception:  # noqa
            return None

    def family(leaf, ops_of, cross_keep, d3_keep, inner_filter=None, same_keep=None):
        lvl1 = []
        for o in ops_of(sort_of(leaf), True):
            r = emit([o], leaf, leaf)
            if r is not None and o.valid == VALID and (inner_filter is None or inner_filter(o)):
                lvl1.append(([o], r))
        lvl2 = []
        for chain, r in lvl1:
            tr = sort_of(r)
            for o2 in ops_of(tr, True):
                same = o2.group == chain[0].group
                if not same and (o2.valid != VALID or rnd.random() >= cross_keep):
                    continue
                if same and same_keep is not None and rnd.random() >= same_keep(o2):
                    continue
                r2 = emit(chain + [o2], r, leaf)
                if same and o2.group in D3 and r2 is not None and o2.valid == VALID and (inner_filter is None or inner_filter(o2)):
                    lvl2.append((chain + [o2], r2))
        for chain, r in lvl2:
            for o3 in ops_of(sort_of(r), False):
                if o3.group != chain[0].group or o3.valid != VALID or rnd.random() >= d3_keep(chain[0].group):
                    continue
                emit(chain + [o3], r, leaf)

    named = lambda o: not o.name.startswith("infix<<") and not o.name.startswith("infix>>") and not o.name.startswith("method:")
    for t in [s_ for s_ in pools.sorts if s_.is_bv_type()]:
        w = t.width
        cross = 1.0 if (w <= 2 or not quick) else (0.15 if w == 3 else 0.04)
        # depth 3 inside the shift family: 3 * 2^w amounts per level
        n3 = float((3 << w) ** 3)
        shift3 = min(1.0, (450.0 if quick else 20000.0) / n3)
        family(pools.P[t]["sym"][0], (lambda tt, outer: bv_ops(m, pools, tt, outer) if tt.is_bv_type() else []), cross,
               (lambda g, shift3=shift3: shift3 if g == "shift" else (0.5 if quick else 1.0)), inner_filter=named,
               # width 4, quick: the infix / method routes into the shift constructors are sampled (all named forms kept)
               same_keep=(lambda o2: 0.35 if not named(o2) else 1.0) if (quick and w == 4) else None)
    for t in (INT, REAL):
        family(pools.P[t]["sym"][0], (lambda tt, outer, t=t: arith_ops(m, pools, t, abs_fn) if tt == t else []), 1.0, (lambda g: 0.5 if quick else 1.0))
    family(pools.P[BOOL]["sym"][0], (lambda tt, outer: bool_ops(m, pools) if tt.is_bool_type() else []), 1.0, (lambda g: 0.4 if quick else 1.0))
    return counts


# ------------------------------------------------------------------------------ infix forms on explicit n-ary operands
def nary_operand_specs(pools, rnd, tier, out):
    """Every infix operator (unary, binary with a symbol / a Python literal, reflected) applied to operands
    built by the explicit n-ary constructors - shapes infix notation itself never produces: arity 1-5, the
    constants 1 / -1 / 0 (TRUE / FALSE; 0 / 1 / all-ones) at every position, nested once."""
    m = pools.m
    counts = {"operands": 0, "calls": 0}

    def variants(ctor, base, consts):
        res = []
        for n in range(1, len(base) + 1):
            args = list(base[:n])
            res.append((ctor(*args) if n > 1 else ctor(args), n, None))
            for p_ in range(n):
                for c in consts:
                    a2 = list(args)
                    a2[p_] = c
                    res.append((ctor(*a2) if n > 1 else ctor(a2), n, p_))
        return res

    def apply_all(node, t, z, lit, ops_lit, ops_sym, grid):
        counts["operands"] += 1
        nd = node.serialize()
        forms = []
        isbv, isb = t.is_bv_type(), t.is_bool_type()
        if not isb:
            forms.append(("infix:__neg__", "-(%s)" % nd, (lambda: -node), (lambda nm: "infix_neg %s" % nm[node]), [node],
                          (lambda v: bvv(v[0].width, -v[0].value) if isinstance(v[0], BV) else -v[0])))
        if isb or isbv:
            forms.append(("infix:__invert__", "~(%s)" % nd, (lambda: ~node), (lambda nm: "infix_invert %s" % nm[node]), [node],
                          (lambda v: bvv(v[0].width, ~v[0].value) if isinstance(v[0], BV) else (not v[0]))))
        for op in ops_lit:
            meth = "__rsub__" if op == "IRsub" else PYOPS[op]
            coqop = "IRsub" if op == "IRsub" else "(IPy %s)" % op
            rv = promote(lit, t)
            forms.append(("infix:" + meth, "(%s).%s(%r)" % (nd, meth, lit), (lambda meth=meth: getattr(node, meth)(lit)),
                          (lambda nm, coqop=coqop: "infix %s %s %s" % (nm[node], coqop, operand_coq(nm, lit))), [node],
                          (lambda v, op=op, rv=rv: py_sem(op, v[0], rv))))
        for op in ops_sym:
            meth = "__rsub__" if op == "IRsub" else PYOPS[op]
            coqop = "IRsub" if op == "IRsub" else "(IPy %s)" % op
            forms.append(("infix:" + meth, "(%s).%s(%s)" % (nd, meth, z.serialize()), (lambda meth=meth: getattr(node, meth)(z)),
                          (lambda nm, coqop=coqop: "infix %s %s (OpT %s)" % (nm[node], coqop, nm[z])), [node, z],
                          (lambda v, op=op: py_sem(op, v[0], v[1]))))
        for name, desc, impl, model, operands, direct in forms:
            out.append(Spec("nary-operand:" + name, "%s/%s" % (sname(t), op_to_name(node)), desc, impl, model, operands=operands, direct=direct,
                            valid=VALID, limit=64, grid=grid))
            counts["calls"] += 1

    def op_to_name(node):
        import pysmt.operators as pop
        return pop.op_to_str(node.node_type())

    for t in (INT, REAL):
        syms = pools.P[t]["sym"]
        C = (lambda v: m.Int(v)) if t.is_int_type() else (lambda v: m.Real(v))
        consts = [C(1), C(-1), C(0)]
        z = syms[5]
        V = (lambda v: v) if t.is_int_type() else (lambda v: Fraction(v))
        allsyms = list(syms)
        grid = [{s_: V(-3) for s_ in allsyms}, {s_: V(2) for s_ in allsyms}, {s_: V(-3 if i % 2 else 2) for i, s_ in enumerate(allsyms)},
                {s_: V(2 if i % 2 else -3) for i, s_ in enumerate(allsyms)}, {s_: V(v_) for s_, v_ in zip(allsyms, (5, -2, 3, -3, 2, 4))}]
        nodes = []
        for ctor in (m.Plus, m.Times):
            vs = variants(ctor, syms[:5], consts)
            nodes += [n_ for n_, _, _ in vs]
            other = m.Times if ctor is m.Plus else m.Plus
            for n_, ar, p_ in vs:
                if ar == 3 and p_ in (None, 1):
                    nodes += [other(n_, z), other(z, n_), ctor(n_, z)]
        seen = set()
        for n_ in nodes:
            if n_ in seen or not n_.args():
                continue
            seen.add(n_)
            apply_all(n_, t, z, 7, ARITH_OPS, ("PSub", "PMul", "IRsub", "PGt"), grid)
    syms = pools.P[BOOL]["sym"]
    q = syms[5]
    nodes = []
    for ctor in (m.And, m.Or):
        vs = variants(ctor, syms[:5], [m.TRUE(), m.FALSE()])
        nodes += [n_ for n_, _, _ in vs]
        other = m.Or if ctor is m.And else m.And
        nodes += [other(n_, q) for n_, ar, p_ in vs if ar == 3 and p_ in (None, 1)] + [ctor(n_, q) for n_, ar, p_ in vs if ar == 3 and p_ is None]
    seen = set()
    for n_ in nodes:
        if n_ in seen or not n_.args():
            continue
        seen.add(n_)
        apply_all(n_, BOOL, q, True, ("PAnd", "POr", "PXor", "PRand"), BITS_OPS, None)
    for t in [s_ for s_ in pools.sorts if s_.is_bv_type() and s_.width in (1, 2)]:
        w = t.width
        syms = pools.P[t]["sym"]
        z = syms[5]
        consts = [m.BV(v, w) for v in sorted(set([0, 1, mask(w)]))]
        nodes = []
        for ctor in (m.BVAdd, m.BVMul, m.BVAnd, m.BVOr):
            nodes += [n_ for n_, _, _ in variants(ctor, syms[:4], consts)]
        seen = set()
        for n_ in nodes:
            if n_ in seen or not n_.args():
                continue
            seen.add(n_)
            apply_all(n_, t, z, 1, ("PAdd", "PSub", "IRsub", "PMul", "PAnd", "POr", "PXor", "PLshift", "PRshift", "PMod", "PDiv", "PLt", "PGe"),
                      ("PSub", "PMul", "PLshift"), None)
    return counts



# ------------------------------------------------------------------------------ operands headed by operators of other theories
# Every derived constructor / infix form on an operand of the right sort whose TOP node is an operator of
# another theory (strings, arrays, UF, quantifiers, bv2nat, ite, div, pow, to_real, BV relations ...): a
# constructor that special-cases the head operator of its operand shows up in the exact correspondence
# (the model builds the plain term) and in the value oracle (operand value by refeval, on grids that reach
# the operators' special values: str.to_int = -1, str.indexof = -1, bv2nat boundaries, empty strings).
def head_pools(m, pools):
    P = pools.P
    p, i, r = P[BOOL]["sym"], P[INT]["sym"], P[REAL]["sym"]
    bv1, bv2, bv3 = P[BVType(1)]["sym"], P[BVType(2)]["sym"], P[BVType(3)]["sym"]
    s, t = m.Symbol("s", STRING), m.Symbol("t", STRING)
    ai, ar, ab = m.Symbol("ai", ArrayType(INT, INT)), m.Symbol("ar", ArrayType(INT, REAL)), m.Symbol("ab", ArrayType(INT, BOOL))
    abi, av, avv = m.Symbol("abi", ArrayType(BVType(2), INT)), m.Symbol("av", ArrayType(INT, BVType(2))), m.Symbol("avv", ArrayType(BVType(2), BVType(2)))
    fi, fs = m.Symbol("fi", FunctionType(INT, [INT])), m.Symbol("fs", FunctionType(INT, [STRING]))
    fr, fb = m.Symbol("fr", FunctionType(REAL, [REAL, INT])), m.Symbol("fb", FunctionType(BOOL, [INT]))
    fv, fiv = m.Symbol("fv", FunctionType(BVType(2), [BVType(2)])), m.Symbol("fiv", FunctionType(BVType(2), [INT]))
    qb, qv = m.Symbol("qb", BOOL), m.Symbol("qv", BVType(2))
    H = {}
    H[INT] = [m.StrLength(s), m.StrToInt(s), m.StrIndexOf(s, t, i[2]), m.BVToNatural(bv2[0]), m.BVToNatural(bv3[1]), m.Ite(p[0], i[0], i[2]),
              m.Select(ai, i[0]), m.Select(abi, bv2[0]), m.Function(fi, [i[0]]), m.Function(fs, [s]), m.Div(i[0], m.Int(3)), m.Div(i[0], i[2]),
              m.StrToInt(m.IntToStr(i[0])), m.StrLength(m.StrConcat(s, t)), m.StrToInt(m.StrSubstr(s, m.Int(0), m.Int(1))), m.Minus(i[0], i[2]),
              m.Times(i[0], m.Int(-1)), m.Ite(m.StrContains(s, t), m.StrToInt(s), m.StrIndexOf(t, s, m.Int(0)))]
    H[REAL] = [m.ToReal(i[0]), m.ToReal(m.StrToInt(s)), m.ToReal(m.StrLength(s)), m.ToReal(m.BVToNatural(bv2[0])), m.ToReal(m.StrIndexOf(s, t, m.Int(0))),
               m.Ite(p[0], r[0], r[2]), m.Select(ar, i[0]), m.Function(fr, [r[0], i[0]]), m.Div(r[0], r[2]), m.Div(r[0], m.Real(3)), m.Pow(r[0], m.Real(2)),
               m.Pow(m.ToReal(i[0]), m.Real(3)), m.Minus(r[0], r[2]), m.Times(r[0], m.Real(-1))]
    H[BOOL] = [m.StrContains(s, t), m.StrPrefixOf(s, t), m.StrSuffixOf(t, s), m.Equals(s, t), m.BVULT(bv2[0], bv2[1]), m.BVSLE(bv2[0], bv2[1]),
               m.Equals(i[0], i[2]), m.LE(r[0], r[2]), m.LT(m.StrToInt(s), m.Int(0)), m.Select(ab, i[0]), m.Function(fb, [i[0]]),
               m.ForAll([qb], m.Or(qb, p[3])), m.Exists([qv], m.BVULT(qv, bv2[0])), m.Ite(p[0], p[2], p[3]), m.Equals(bv2[0], bv2[1]),
               m.Not(m.StrContains(s, t)), m.Iff(p[0], p[2]), m.Implies(p[0], p[2])]
    H[BVType(2)] = [m.Select(av, i[0]), m.Select(avv, bv2[0]), m.Ite(p[0], bv2[0], bv2[2]), m.Function(fv, [bv2[0]]), m.Function(fiv, [i[0]]),
                    m.BVConcat(bv1[0], bv1[2]), m.BVExtract(bv3[0], 0, 1), m.BVExtract(bv3[0], 1, 2), m.BVZExt(bv1[0], 1), m.BVSExt(bv1[0], 1),
                    m.BVRol(bv2[0], 1), m.BVXor(bv2[0], bv2[2]), m.BVUDiv(bv2[0], bv2[2]), m.BVSRem(bv2[0], bv2[2]), m.BVNeg(bv2[0]),
                    m.BVLShl(bv2[0], bv2[2]), m.BVLShl(bv2[0], m.BV(1, 2)), m.BVAShr(bv2[0], m.BV(3, 2)), m.BVAdd(bv2[0], m.BV(1, 2))]
    H[BVType(1)] = [m.BVComp(bv2[0], bv2[1]), m.BVExtract(bv3[0], 2, 2), m.Ite(p[0], bv1[0], bv1[2])]
    H[BVType(3)] = [m.BVConcat(bv1[0], bv2[0]), m.BVZExt(bv2[0], 1), m.BVSExt(bv1[0], 2), m.Ite(m.BVULT(bv3[0], bv3[2]), bv3[0], bv3[2])]
    V = lambda a, b, c, d: {s: a, t: b, i[0]: c, i[2]: d}
    grid = [V("", "", -1, 0), V("abc", "b", 0, 3), V("-7", "7", 5, -2), V("12", "2", -4, 1), V("007", "00", 1, 2), V("a1", "1", 2, 0), V("9", "", 3, -1)]
    return H, grid


def rel_ops(m, pools, t):
    """Relations / n-ary constructors / reflected forms with the operand in either position (two more symbols)."""
    ops = []

    def A(*a, **kw):
        ops.append(Op(*a, **kw))
    y, z = pools.P[t]["sym"][1], pools.P[t]["sym"][3]
    ys, zs = y.serialize(), z.serialize()
    if t.is_int_type() or t.is_real_type():
        for nm_, call, fmt, d in (("GE", m.GE, "Some (mk_ge %s %s)", lambda a, b: a >= b), ("GT", m.GT, "Some (mk_gt %s %s)", lambda a, b: a > b),
                                  ("NotEquals", m.NotEquals, "Some (mk_neq %s %s)", lambda a, b: a != b),
                                  ("EqualsOrIff", m.EqualsOrIff, "Some (mk_equals_or_iff %s %s)", lambda a, b: a == b),
                                  ("infix:__ge__", (lambda a, b: a >= b), "infix %s (IPy PGe) (OpT %s)", lambda a, b: a >= b),
                                  ("infix:__lt__", (lambda a, b: a < b), "infix %s (IPy PLt) (OpT %s)", lambda a, b: a < b)):
            A(nm_, "rel", (lambda f, call=call: call(f, y)), (lambda n, nm, fmt=fmt: fmt % (n, nm[y])), (lambda x, c, d=d: d(x, c[y])),
              (lambda a, nm_=nm_: "%s(%s, %s)" % (nm_, a, ys)), y=y)
            A(nm_ + "/flip", "rel", (lambda f, call=call: call(y, f)), (lambda n, nm, fmt=fmt: fmt % (nm[y], n)), (lambda x, c, d=d: d(c[y], x)),
              (lambda a, nm_=nm_: "%s(%s, %s)" % (nm_, ys, a)), y=y)
        A("infix:__ge__/reflected", "rel", (lambda f: 3 <= f), (lambda n, nm: "infix %s (IPy PGe) (OpInt 3%%Z)" % n), (lambda x, c: 3 <= x), (lambda a: "(3 <= %s)" % a))
        A("infix:__gt__/int", "rel", (lambda f: f > -1), (lambda n, nm: "infix %s (IPy PGt) (OpInt (-1)%%Z)" % n), (lambda x, c: x > -1), (lambda a: "(%s > -1)" % a))
        A("infix:__le__/int", "rel", (lambda f: f <= 0), (lambda n, nm: "infix %s (IPy PLe) (OpInt 0%%Z)" % n), (lambda x, c: x <= 0), (lambda a: "(%s <= 0)" % a))
        A("AllDifferent/3", "rel", (lambda f: m.AllDifferent(y, f, z)), (lambda n, nm: "Some (mk_all_different [%s; %s; %s])" % (nm[y], n, nm[z])),
          (lambda x, c: len(set([c[y], x, c[z]])) == 3), (lambda a: "AllDifferent(%s, %s, %s)" % (ys, a, zs)), y=(y, z))
        A("Min/3", "rel", (lambda f: m.Min(y, f, z)), (lambda n, nm: "mk_min [%s; %s; %s]" % (nm[y], n, nm[z])), (lambda x, c: min(c[y], x, c[z])),
          (lambda a: "Min(%s, %s, %s)" % (ys, a, zs)), y=(y, z))
        A("Max/3", "rel", (lambda f: m.Max(z, y, f)), (lambda n, nm: "mk_max [%s; %s; %s]" % (nm[z], nm[y], n)), (lambda x, c: max(c[y], x, c[z])),
          (lambda a: "Max(%s, %s, %s)" % (zs, ys, a)), y=(y, z))
    elif t.is_bool_type():
        A("ExactlyOne/3", "rel", (lambda f: m.ExactlyOne(y, f, z)), (lambda n, nm: "Some (mk_exactly_one [%s; %s; %s])" % (nm[y], n, nm[z])),
          (lambda x, c: [c[y], x, c[z]].count(True) == 1), (lambda a: "ExactlyOne(%s, %s, %s)" % (ys, a, zs)), y=(y, z))
        A("AtMostOne/3", "rel", (lambda f: m.AtMostOne(y, z, f)), (lambda n, nm: "Some (mk_at_most_one [%s; %s; %s])" % (nm[y], nm[z], n)),
          (lambda x, c: [c[y], x, c[z]].count(True) <= 1), (lambda a: "AtMostOne(%s, %s, %s)" % (ys, zs, a)), y=(y, z))
        for nm_, call, fmt, d in (("Xor", m.Xor, "Some (mk_xor %s %s)", lambda a, b: a != b),
                                  ("EqualsOrIff", m.EqualsOrIff, "Some (mk_equals_or_iff %s %s)", lambda a, b: a == b),
                                  ("AllDifferent", m.AllDifferent, "Some (mk_all_different [%s; %s])", lambda a, b: a != b),
                                  ("infix:__and__", (lambda a, b: a & b), "infix %s (IPy PAnd) (OpT %s)", lambda a, b: a and b),
                                  ("method:Implies", (lambda a, b: a.Implies(b)), "infix %s (IMeth CImplies) (OpT %s)", lambda a, b: (not a) or b)):
            A(nm_ + "/flip", "rel", (lambda f, call=call: call(y, f)), (lambda n, nm, fmt=fmt: fmt % (nm[y], n)), (lambda x, c, d=d: d(c[y], x)),
              (lambda a, nm_=nm_: "%s(%s, %s)" % (nm_, ys, a)), y=y)
    else:
        for nm_, call, fmt, d in (("BVUGT", m.BVUGT, "Some (mk_bvugt %s %s)", lambda a, b: a.value > b.value),
                                  ("BVUGE", m.BVUGE, "Some (mk_bvuge %s %s)", lambda a, b: a.value >= b.value),
                                  ("BVSGT", m.BVSGT, "Some (mk_bvsgt %s %s)", lambda a, b: a.signed() > b.signed()),
                                  ("BVSGE", m.BVSGE, "Some (mk_bvsge %s %s)", lambda a, b: a.signed() >= b.signed()),
                                  ("NotEquals", m.NotEquals, "Some (mk_neq %s %s)", lambda a, b: a != b),
                                  ("EqualsOrIff", m.EqualsOrIff, "Some (mk_equals_or_iff %s %s)", lambda a, b: a == b),
                                  ("infix:__ge__", (lambda a, b: a >= b), "infix %s (IPy PGe) (OpT %s)", lambda a, b: a.value >= b.value)):
            A(nm_, "rel", (lambda f, call=call: call(f, y)), (lambda n, nm, fmt=fmt: fmt % (n, nm[y])), (lambda x, c, d=d: d(x, c[y])),
              (lambda a, nm_=nm_: "%s(%s, %s)" % (nm_, a, ys)), y=y)
            A(nm_ + "/flip", "rel", (lambda f, call=call: call(y, f)), (lambda n, nm, fmt=fmt: fmt % (nm[y], n)), (lambda x, c, d=d: d(c[y], x)),
              (lambda a, nm_=nm_: "%s(%s, %s)" % (nm_, ys, a)), y=y)
        A("AllDifferent/3", "rel", (lambda f: m.AllDifferent(y, f, z)), (lambda n, nm: "Some (mk_all_different [%s; %s; %s])" % (nm[y], n, nm[z])),
          (lambda x, c: len(set([c[y], x, c[z]])) == 3), (lambda a: "AllDifferent(%s, %s, %s)" % (ys, a, zs)), y=(y, z))
        A("BVAdd/3", "rel", (lambda f: m.BVAdd(y, f, z)), (lambda n, nm: "mk_bvadd_n [%s; %s; %s]" % (nm[y], n, nm[z])),
          (lambda x, c: bvv(x.width, c[y].value + x.value + c[z].value)), (lambda a: "BVAdd(%s, %s, %s)" % (ys, a, zs)), y=(y, z))
    return ops


def head_specs(pools, rnd, tier, out, abs_fn):
    import pysmt.operators as pop
    m = pools.m
    H, grid = head_pools(m, pools)
    counts = {"operands": 0, "calls": 0}
    for t, heads in H.items():
        if t.is_bv_type():
            ops = bv_ops(m, pools, t, True)
        elif t.is_bool_type():
            ops = bool_ops(m, pools)
        else:
            ops = arith_ops(m, pools, t, abs_fn)
        ops = ops + rel_ops(m, pools, t)
        for h in heads:
            counts["operands"] += 1
            hname = pop.op_to_str(h.node_type())
            for o in ops:
                ys = [] if o.y is None else (list(o.y) if isinstance(o.y, tuple) else [o.y])
                direct = None
                if o.direct is not None:
                    def direct(v, o=o, ys=ys):
                        return o.direct(v[0], dict(zip(ys, v[1:])))
                out.append(Spec("head:" + o.name, "%s:%s" % (hname, sname(t)), o.text(h.serialize()), (lambda o=o, h=h: o.impl(h)),
                                (lambda nm, o=o, h=h: o.model(nm[h], nm)), operands=[h] + ys, direct=direct, valid=o.valid, extra=o.extra,
                                limit=1024, grid=grid))
                counts["calls"] += 1
    return counts


# ------------------------------------------------------------------------------ running
def run_specs(env, specs):
    with env:
        for s in specs:
            try:
                s.result = s.impl()
            except Exception as ex:   # noqa: any exception = the call is rejected
                s.result, s.exc = None, type(ex).__name__


def same_value(got, exp):
    if isinstance(exp, tuple) and not isinstance(exp, BV) and exp and exp[0] == "signed":
        return isinstance(got, BV) and got.width == exp[1] and got.signed() == exp[2]
    if isinstance(exp, BV) or isinstance(got, BV):
        return isinstance(exp, BV) and isinstance(got, BV) and got.width == exp.width and got.value == exp.value
    if type(exp) is bool or type(got) is bool:
        return type(exp) is bool and type(got) is bool and exp == got
    if isinstance(exp, Fraction) or isinstance(got, Fraction):
        return isinstance(got, Fraction) and isinstance(exp, (Fraction, int)) and not type(exp) is bool and got == exp
    return type(got) is type(exp) and got == exp


def oracle(rnd, s, limit, nsample, stats):
    """Property-level check of one spec on the implementation; (replay record, key) of a violation or None."""
    key = "%s:%s" % (s.name, s.sig)
    if s.result is None:
        if s.valid == VALID:
            return ({"kind": "input", "what": "%s raised %s on operands in the domain of the named function" % (s.desc, s.exc),
                     "repro": s.desc, "expected": "a formula denoting the function", "observed": "raises " + str(s.exc)}, "raises:" + key)
        return None
    if s.valid == INVALID:
        return ({"kind": "input", "what": "%s is outside the documented domain but returned the formula %s" % (s.desc, s.result.serialize()[:300]),
                 "repro": s.desc, "expected": "an exception", "observed": s.result.serialize()[:300]}, "accepts:" + key)
    if s.direct is None:
        return None
    forms = s.operands + [s.result]
    interps = refeval.exhaustive_interps(forms, limit=s.limit if s.limit is not None else limit)
    exhaustive = interps is not None
    if interps is None:
        interps = refeval.random_interps(rnd, forms, nsample if s.grid is None else max(8, nsample // 4))
        for g in (s.grid or ()):
            it = refeval.random_interp(rnd, forms)
            for sym, v in g.items():
                it.set_symbol(sym, v)
            interps.append(it)
    stats["exhaustive" if exhaustive else "sampled"] += 1
    cache = refeval.EvalCache()
    for it in interps:
        try:
            vals = [refeval.evaluate(o, it, cache) for o in s.operands]
            got = refeval.evaluate(s.result, it, cache)
        except refeval.DivisionByZeroEvaluated:
            continue
        exp = s.direct(vals)
        stats["evaluations"] += 1
        if exp is SKIP:
            continue
        if exp is MUST_RAISE or not same_value(got, exp):
            return ({"kind": "input", "what": "%s built %s, whose value differs from the named function" % (s.desc, s.result.serialize()[:300]),
                     "repro": s.desc, "interpretation": it.describe(), "operand_values": [repr(v) for v in vals],
                     "expected": "no value (outside the domain)" if exp is MUST_RAISE else repr(exp), "observed": repr(got),
                     "oracle": "refeval value of the built formula vs direct Python definition"}, "value:" + key)
    return None


_ORACLE = {}


def _oracle_chunk(r):
    """Worker (forked: the specs are inherited, only indexes and records cross the process boundary)."""
    specs, seed, lim_canon, lim_other, nsample, k = (_ORACLE[x] for x in ("specs", "seed", "lim_canon", "lim_other", "nsample", "k"))
    stats = {"exhaustive": 0, "sampled": 0, "evaluations": 0}
    found = []
    for i in range(r, len(specs), k):
        s = specs[i]
        try:
            rec = oracle(random.Random(seed * 1000003 + i), s, lim_canon if s.canonical else lim_other, nsample, stats)
        except Exception as ex:   # noqa: an oracle crash is reported, never swallowed
            rec = ({"kind": "input", "what": "oracle failed on %s: %r" % (s.desc, ex), "repro": s.desc}, "oracle-error:%s:%s" % (s.name, s.sig))
        if rec is not None:
            found.append((i, rec))
    return found, stats


def correspondence(chk, specs, tag):
    cases = []
    for s in specs:
        roots = [o for o in s.operands] + list(s.extra) + ([s.result] if s.result is not None else [])

        def body(nm, s=s):
            return "(checked (%s), %s)" % (s.model(nm), "None" if s.result is None else "Some %s" % nm[s.result])
        cases.append((roots, body))
    ok_def = ("Definition ok (c : option term * option term) : bool :=\n"
              "  match c with (Some a, Some b) => term_eqb a b | (None, None) => true | _ => false end.\n")
    files = termcases.write(chk.dir, tag, "From PySMT.core Require Import PyPrims.\nFrom PySMT.models Require Import TypeChecker Ctors Derived.\nOpen Scope Z_scope.",
                            "option term * option term", ok_def, cases, shard=400)
    return files


def build_all(tier, rnd):
    """[(env, specs)] for all groups, each in its own fresh Environment."""
    widths = [1, 2, 3] + ([4] if tier == "thorough" else [])
    groups = []

    def group(fn, **kw):
        env = Environment()
        env.enable_infix_notation = True
        specs = []
        with env:
            pools = Pools(env, widths, **kw)
            fn(env, pools, specs)
        groups.append((env, specs))
    group(lambda env, pools, out: nary_specs(pools, rnd, tier, out))
    group(lambda env, pools, out: binary_specs(pools, rnd, tier, out))

    def misc(env, pools, out):
        import pysmt.shortcuts as sc
        misc_specs(pools, rnd, tier, out, sc.Abs, max(widths))
    group(misc)
    # infix with int / rational literals; no Boolean / integral-Fraction literal next to Int / Real operands here
    group(lambda env, pools, out: infix_specs(pools, rnd, tier, out, [0, 1, 2, 3, 7, 8, -1, Fraction(1, 2), 0.25]), small_consts=True)
    # literals whose promotion depends on the constant caches: an environment without the constants 0, 1, 5
    group(lambda env, pools, out: infix_specs(pools, rnd, "quick", out, [True, False, Fraction(5), Fraction(-3, 4), 6.0], light=True), small_consts=False)
    group(lambda env, pools, out: syntax_specs(env, out))
    fam = {}

    def comp(env, pools, out):
        import pysmt.shortcuts as sc
        pools4 = Pools(env, [1, 2, 3, 4])
        fam["compositions"] = comp_specs(pools4, rnd, tier, out, sc.Abs)
    group(comp)

    def naryop(env, pools, out):
        fam["nary_operands"] = nary_operand_specs(pools, rnd, tier, out)
    group(naryop)

    def heads(env, pools, out):
        import pysmt.shortcuts as sc
        fam["theory_headed_operands"] = head_specs(pools, rnd, tier, out, sc.Abs)
    group(heads)
    build_all.families = fam
    return groups


def run(tier, only=None):
    chk = lib.Check("C06", tier)
    rnd = random.Random(chk.seed)
    warnings.simplefilter("ignore")
    gen_all.regen_all()
    ok = chk.prove()
    lib.clean_cases(chk.dir)
    groups = build_all(tier, rnd)
    files, allspecs = [], []
    for gi, (env, specs) in enumerate(groups):
        run_specs(env, specs)
        files += [(p, first + len(allspecs), n) for p, first, n in correspondence(chk, specs, "g%d" % gi)]
        allspecs += specs
    chk.note("%d calls on the implementation; running the model on them" % len(allspecs))
    # ---------------- property-level oracle (independent of the model), in forked workers, while coqc evaluates the model
    lim_canon, lim_other, nsample = (4096, 256, 48) if tier == "quick" else (65536, 4096, 400)
    nw = max(1, min(12, lib.NPROC - 4))
    _ORACLE.update(specs=allspecs, seed=chk.seed, lim_canon=lim_canon, lim_other=lim_other, nsample=nsample, k=nw * 8)
    import multiprocessing
    pool = multiprocessing.get_context("fork").Pool(nw)
    pending = pool.map_async(_oracle_chunk, range(nw * 8), chunksize=1)
    bad, errs = termcases.run(files)
    chk.note("model evaluated in Coq (%d case files): %d disagreements, %d file errors" % (len(files), len(bad), len(errs)))
    for s in allspecs:
        chk.count((s.name, s.desc), nontrivial=bool(s.operands) or s.result is not None)
    stats = {"exhaustive": 0, "sampled": 0, "evaluations": 0}
    found = []
    for fnd, st in pending.get():
        found += fnd
        for k_ in stats:
            stats[k_] += st[k_]
    pool.close()
    pool.join()
    for i, (rec, key) in sorted(found, key=lambda x: x[0]):
        chk.violation(rec, key=key)
    chk.note("oracle: %d calls checked exhaustively, %d sampled, %d evaluations" % (stats["exhaustive"], stats["sampled"], stats["evaluations"]))
    names = {}
    for s in allspecs:
        d = names.setdefault(s.name, {"calls": 0, "built": 0, "raised": 0})
        d["calls"] += 1
        d["built" if s.result is not None else "raised"] += 1
    chk.cov["correspondence"] = {"calls": len(allspecs), "built": sum(1 for s in allspecs if s.result is not None),
                                 "raised": sum(1 for s in allspecs if s.result is None), "disagreements": len(bad),
                                 "case_file_errors": len(errs), "examples": [allspecs[i].desc for i in bad[:6]], "per_constructor": names}
    chk.cov["oracle"] = stats
    chk.cov["families"] = getattr(build_all, "families", {})
    for s in (allspecs[7], allspecs[len(allspecs) // 3], allspecs[len(allspecs) // 2], allspecs[-3]):
        chk.sample({"call": s.desc[:200], "built": None if s.result is None else s.result.serialize()[:200], "raised": s.exc})
    for e in errs[:2]:
        chk.note("case file error: " + e["error"][-400:])
    # a disagreement with the model is searched for a property-level failure first (done above on every
    # call); what remains is reported with the concrete call
    for i in bad[:6]:
        s = allspecs[i]
        chk.note("model/implementation disagree on %s -> %s" % (s.desc, s.result.serialize()[:160] if s.result is not None else "raises %s" % s.exc))
    if (not ok or bad or errs) and not chk.violations and not chk.known_hits:
        what = []
        if not ok:
            what.append("proof obligations no longer check: " + lib.proof_failure_summary(chk))
        if bad or errs:
            what.append("correspondence models/Derived.v <-> pysmt differs on %d calls, e.g. %s" % (len(bad) + len(errs), [
                {"call": allspecs[i].desc, "implementation": allspecs[i].result.serialize()[:200] if allspecs[i].result is not None else "raises %s" % allspecs[i].exc}
                for i in bad[:3]]))
        chk.violation({"kind": "obligation", "theorem_or_correspondence": what}, found_input=False)
    return chk.finish(TRUSTED, ASSUME, RULE)


def replay(path):
    print(json.dumps(json.load(open(path)), indent=1))
    return run("quick")
