"""Regenerate every coq/gen/*.v from the repository under test (write-if-changed)."""
import json
import os

from . import lib


def regen_logics():
    from .translate import logics_tr
    text, report, fields = logics_tr.translate(lib.REPO)
    changed = lib.write_if_changed(os.path.join(lib.COQ, "gen", "Logics.v"), text)
    report["changed"] = changed
    return report


def regen_all():
    reports = {}
    for name, fn in GENERATORS.items():
        try:
            reports[name] = fn()
        except Exception as ex:  # fail closed: the caller sees the failure
            reports[name] = {"failed": ["%s: %r" % (name, ex)]}
    lib.mkdir(lib.BUILD)
    with open(os.path.join(lib.BUILD, "gen_report.json"), "w") as f:
        json.dump(reports, f, indent=1, default=str)
    return reports


GENERATORS = {"Logics": regen_logics}
