"""Regenerate every coq/gen/*.v from the repository under test (write-if-changed)."""
import json
import os

from . import lib


def regen_logics():
    from .translate import logics_tr
    text, report, fields = logics_tr.translate(lib.REPO)
    changed = lib.write_if_changed(os.path.join(lib.COQ, "gen", "Logics.v"), text)
    report["changed"] = changed
    return report


def _ident(msg):
    import re
    return re.sub(r"[^A-Za-z0-9]+", "_", msg)[:180].strip("_")


def regen_dispatch():
    """coq/gen/Operators.v and coq/gen/Dispatch.v.  Fail-closed: when the operator table cannot be translated, or a
    translated table differs from the running implementation, the generated file does not compile (the reason is
    spelled in the unknown identifier Coq complains about); a class that cannot be translated gets no table, so the
    proofs about that class stop compiling."""
    from .translate import dispatch_tr
    from .translate.pyast import Untranslatable
    gen = os.path.join(lib.COQ, "gen")
    try:
        texts, report = dispatch_tr.translate(lib.REPO)
    except (Untranslatable, Exception) as ex:   # noqa
        msg = "%s: %s" % (type(ex).__name__, ex)
        bad = "(* GENERATED - the translator FAILED: %s *)\nDefinition translator_failed := TRANSLATOR_FAILED__%s.\n" % (msg.replace("*)", "* )"), _ident(msg))
        changed = lib.write_if_changed(os.path.join(gen, "Operators.v"), bad)
        lib.write_if_changed(os.path.join(gen, "Dispatch.v"), "From PySMT.gen Require Import Operators.\n")
        return {"failed": [msg], "changed": changed}
    tail = ""
    for f in report["failed"]:
        tail += "(* NOT TRANSLATED: %s *)\n" % f.replace("*)", "* )")
    if report["validation"]:
        tail += "Definition translated_tables_validated := TRANSLATED_TABLE_DIFFERS_FROM_THE_RUNNING_IMPLEMENTATION__%s.\n" % _ident(report["validation"][0])
    changed = lib.write_if_changed(os.path.join(gen, "Operators.v"), texts["Operators.v"])
    changed = lib.write_if_changed(os.path.join(gen, "Dispatch.v"), texts["Dispatch.v"] + tail) or changed
    report["changed"] = changed
    return report


def regen_all():
    reports = {}
    for name, fn in GENERATORS.items():
        try:
            reports[name] = fn()
        except Exception as ex:  # fail closed: the caller sees the failure
            reports[name] = {"failed": ["%s: %r" % (name, ex)]}
    for name, r in reports.items():
        for msg in (r.get("failed") or [])[:6]:
            print("[gen] translator %s (fail-closed, the generated file will not compile or lacks the table): %s" % (name, str(msg)[:400]), flush=True)
    lib.mkdir(lib.BUILD)
    with open(os.path.join(lib.BUILD, "gen_report.json"), "w") as f:
        json.dump(reports, f, indent=1, default=str)
    return reports


GENERATORS = {"Logics": regen_logics, "Dispatch": regen_dispatch}
