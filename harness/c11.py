"""C11 - CNF conversion (CNFizer, PolarityCNFizer) and Ackermannization preserve satisfiability
model by model.

Proof: coq/props/C11.v (models/Cnf.v, models/Ackermann.v, proofs/Cnf_proofs.v,
proofs/Ackermann_proofs.v).  Correspondence: the models are run inside Coq on generated
formulas, started from the SAME manager state (_fresh_guess, symbol names) as the
implementation, and must return the same clause sets (sets of sets of literals), the same
formula (up to the order of And/Or arguments) and the same next _fresh_guess: fresh names are
compared EXACTLY, not up to renaming.  The simplifier called by `Not(a).simplify()` enters the
model as the table of the implementation's answers on the atoms of the case.
SEARCH oracle (independent of the model): truth-table enumeration over the original atoms and
the auxiliary symbols (refeval interpretations for theory atoms / Ackermannization).
"""
import itertools
import json
import random

from . import lib, termcases, tocoq
from .gen.formulas import Config, FormulaGen

TRUSTED = [
    "Coq 8.16.1 kernel (vm_compute only in the closed refutation witnesses and in the case files); core/Sem.v is the specification of truth under an interpretation",
    "hand models models/Cnf.v (CNFizer.walk_*, convert, convert_as_formula, PolarityCNFizer, FormulaManager.new_fresh_symbol) and models/Ackermann.v, tied to rewritings.py by this run's correspondence (exact fresh names, clause sets as sets of sets; Ackermann result up to And/Or order and orientation of = / <->)",
    "C11_cnf_*/C11_pol_* carry the hypothesis simp_sound (the simplifier applied by Not(a).simplify() to a theory atom preserves the truth value: C01's subject) and, for the shape theorems, shape_hyp (it returns an atom, a negated atom or a Boolean constant; checked on every generated case by the shape oracle on the implementation's own output); the C11_*_simplifier corollaries discharge simp_sound with C01's theorem (proofs/CnfSimp_proofs.v) for the simplifier model on well-typed division-free Bool terms of C01's fragment and well-sorted interpretations",
    "the memoising DAG walker computes the same function as the tree recursion of the models (core/DagWalk.v, walk_refines)",
    "standard-library axioms pulled in by core/Sem.v (classical reals, excluded middle via ClassicalDescription, functional extensionality)",
]
ASSUMPTIONS = [
    "quantifier-free formulas (both converters raise NotImplementedError on a quantifier; the model returns None)",
    "theorems are conditional on the conversion returning (model result Some _); cnf_total shows it does for every formula whose connectives have Boolean-structure/atom children",
    "cnf_sound / pol_sound are full theorems for the repaired clean-up (pysmt 7e10806: FALSE_CNF when a clause is emptied); the former witnesses And(a, FALSE), And(FALSE, FALSE), Or(FALSE, FALSE) are directed regression cases (Coq: regression_emptied; harness: first batch)",
    "Ackermannization: models/Ackermann.v is the code repaired by build/fixes/C11_ackermann_nested.diff; ack_shape, ack_complete (f quantifier-free, well-typed, in the C01 fragment okt; I wf_interp; manager knows the symbols of f) and ack_sound (f quantifier-free, J wf_interp) are theorems, nested applications included",
    "FNode.simplify()/get_type() use the GLOBAL environment, so the check makes the fresh Environment of each batch the global one",
]
RULE = ("cases: harness/gen/formulas.py restricted to quantifier-free (theory atoms of every theory, Boolean structure nested in atoms, sharing) "
        "+ a propositional generator with Boolean constants at every position, ITE, IFF, 0/1-ary And/Or and user symbols named FV<n>; "
        "a fresh pysmt Environment per batch; distinct = distinct (converter, formula structure)")

KNOWN_EMPTIED = "cnf-cleanup:emptied-clause-dropped"     # fixed in 7e10806: a hit is a regression and is reported
KNOWN_ACK_NESTED = "ackermann:application-nested-in-non-application-argument"


# ------------------------------------------------------------------------------------------
# environments and generators
# ------------------------------------------------------------------------------------------
def fresh_env():
    """A fresh Environment that is also the global one (FNode.simplify / get_type use get_env())."""
    import pysmt.environment as E
    E.pop_env()
    E.push_env()
    return E.get_env()


class PropGen(object):
    """Propositional formulas over few Bool symbols with constants at every position."""

    def __init__(self, env, rnd, nsyms=3, tricky_names=False):
        self.m = env.formula_manager
        self.rnd = rnd
        names = ["a", "b", "c", "d", "e"][:nsyms]
        if tricky_names:
            names = names[:-1] + [rnd.choice(["FV0", "FV1", "FV2", "FV10"])]
        self.syms = [self.m.Symbol(n) for n in names]
        self.pool = []

    def gen(self, d):
        r, m = self.rnd, self.m
        if d <= 0 or r.random() < 0.15:
            x = r.random()
            if x < 0.2:
                return m.Bool(r.random() < 0.5)
            return r.choice(self.syms)
        if self.pool and r.random() < 0.25:
            return r.choice(self.pool)
        k = r.choice(["and", "or", "not", "implies", "iff", "ite", "and", "or", "not"])
        g = lambda: self.gen(d - 1)
        if k == "and":
            f = m.And([g() for _ in range(r.choice([2, 2, 3, 1, 0]))])
        elif k == "or":
            f = m.Or([g() for _ in range(r.choice([2, 2, 3, 1, 0]))])
        elif k == "not":
            f = m.Not(g())
        elif k == "implies":
            f = m.Implies(g(), g())
        elif k == "iff":
            f = m.Iff(g(), g())
        else:
            f = m.Ite(g(), g(), g())
        self.pool.append(f)
        return f


# ------------------------------------------------------------------------------------------
# running the implementation
# ------------------------------------------------------------------------------------------
CONNECTIVES = None


def _ops():
    global CONNECTIVES
    import pysmt.operators as op
    if CONNECTIVES is None:
        CONNECTIVES = frozenset([op.AND, op.OR, op.NOT, op.IMPLIES, op.IFF, op.FORALL, op.EXISTS])
    return op


def simp_table(env, f):
    """(t, t.simplify()) for every Bool sub-term of f that is not a negation / symbol / Boolean
    constant, closed under stripping the negation of the answers."""
    op = _ops()
    tab, todo = {}, []
    for n in tocoq.topo([f]):
        if env.stc.get_type(n).is_bool_type():
            todo.append(n)
    while todo:
        n = todo.pop()
        while n.is_not():
            n = n.arg(0)
        if n in tab or n.is_symbol() or n.is_bool_constant():
            continue
        s = n.simplify()
        tab[n] = s
        todo.append(s)
    return tab


def run_converter(kind, env, f):
    """One conversion by a new converter object.  Returns dict with the manager state before,
    the clause set, the formula, the state after, or error."""
    from pysmt.rewritings import CNFizer, PolarityCNFizer
    m = env.formula_manager
    before = (m._fresh_guess, list(m.symbols.keys()))
    conv = (CNFizer if kind == "cnf" else PolarityCNFizer)(env)
    try:
        cl = conv.convert(f)
        fm = conv.convert_as_formula(f)
        err = None
    except (AssertionError, ValueError, TypeError, NotImplementedError, AttributeError) as ex:
        cl, fm, err = None, None, type(ex).__name__
    return {"kind": kind, "f": f, "before": before, "clauses": cl, "formula": fm, "err": err,
            "guess_after": m._fresh_guess, "conv": conv}


def case_text(env, r):
    """(roots, body_fn) for termcases.write."""
    f = r["f"]
    tab = simp_table(env, f)
    roots = [f]
    for a, b in tab.items():
        roots += [a, b]
    lits = []
    if r["clauses"] is not None:
        cls = [list(c) for c in r["clauses"]]
        for c in cls:
            roots += c
        roots.append(r["formula"])
    guess, names = r["before"]

    def body(nm, r=r, tab=tab):
        t = "[%s]" % "; ".join("(%s, %s)" % (nm[a], nm[b]) for a, b in tab.items())
        if r["clauses"] is None:
            exp = "None"
        else:
            exp = "(Some ([%s], %s, %d%%nat))" % ("; ".join("[%s]" % "; ".join(nm[l] for l in c) for c in r["clauses"]),
                                                  nm[r["formula"]], r["guess_after"])
        return "(%s, %s, %d%%nat, [%s], %s, %s)" % ("true" if r["kind"] == "pol" else "false", nm[f], guess,
                                                     "; ".join(tocoq.cstr(n) for n in names), t, exp)
    return roots, body


CASE_T = "bool * term * nat * list string * list (term * term) * option (list (list term) * term * nat)"
OK_DEF = """
Definition ok (c : CASE_T) : bool :=
  let '(pol, f, guess, names, tab, exp) := c in
  let conv := if pol then pol_convert (table_simp tab) else cnf_convert (table_simp tab) in
  match conv f (init_state guess names), exp with
  | Some (cl, st), Some (ecl, ef, eguess) =>
      set_eqb clause_eqb cl ecl && ac_eqb (as_formula cl) ef && Nat.eqb (fresh_guess (mgr st)) eguess
  | None, None => true
  | _, _ => false
  end.
"""


# ------------------------------------------------------------------------------------------
# property-level oracle on the implementation (independent of the model)
# ------------------------------------------------------------------------------------------
def is_connective(env, n):
    op = _ops()
    nt = n.node_type()
    if nt in CONNECTIVES:
        return True
    if nt == op.ITE and env.stc.get_type(n).is_bool_type():
        return True
    return False


def bool_atoms(env, roots):
    """Maximal sub-terms of the Boolean structure that are not connectives."""
    out, seen, todo = [], set(), list(roots)
    while todo:
        n = todo.pop()
        if n in seen:
            continue
        seen.add(n)
        if is_connective(env, n):
            todo.extend(n.args())
        elif not n.is_bool_constant():
            out.append(n)
    return out


def beval(env, n, val, memo):
    """Truth value of Boolean structure n given the truth values `val` of its atoms."""
    op = _ops()
    if n in memo:
        return memo[n]
    nt = n.node_type()
    if n.is_bool_constant():
        v = n.constant_value()
    elif nt == op.AND:
        v = all(beval(env, a, val, memo) for a in n.args())
    elif nt == op.OR:
        v = any(beval(env, a, val, memo) for a in n.args())
    elif nt == op.NOT:
        v = not beval(env, n.arg(0), val, memo)
    elif nt == op.IMPLIES:
        v = (not beval(env, n.arg(0), val, memo)) or beval(env, n.arg(1), val, memo)
    elif nt == op.IFF:
        v = beval(env, n.arg(0), val, memo) == beval(env, n.arg(1), val, memo)
    elif nt == op.ITE and is_connective(env, n):
        v = beval(env, n.arg(1), val, memo) if beval(env, n.arg(0), val, memo) else beval(env, n.arg(2), val, memo)
    else:
        v = val[n]
    memo[n] = v
    return v


def shape_error(env, clauses):
    """None, or the first literal that is not an atom / a negated atom."""
    for c in clauses:
        for l in c:
            a = l.arg(0) if l.is_not() else l
            if is_connective(env, a):
                return l
    return None


def atom_valuations(env, rnd, atoms, formulas, max_exhaustive=10, samples=6):
    """Truth assignments of the given atoms that are realisable: all of them when every atom is
    a Bool symbol, else the values under random refeval interpretations."""
    if all(a.is_symbol() for a in atoms):
        if len(atoms) <= max_exhaustive:
            for bits in itertools.product([False, True], repeat=len(atoms)):
                yield dict(zip(atoms, bits)), None
            return
        for _ in range(64):
            yield dict((a, rnd.random() < 0.5) for a in atoms), None
        return
    from . import refeval
    got = 0
    for _ in range(samples * 3):
        if got >= samples:
            break
        it = refeval.random_interp(rnd, formulas, int_range=(-3, 3), div0="raise")
        try:
            val = {}
            cache = refeval.EvalCache()
            exact = True
            for a in atoms:
                v, ex = refeval.evaluate_ex(a, it, cache)
                exact = exact and ex
                val[a] = v
            if not exact or not all(type(v) is bool for v in val.values()):
                continue
        except refeval.RefEvalError:
            continue
        got += 1
        yield val, it


def check_equisat(env, rnd, f, clauses, max_aux=10):
    """(a) every (realisable) valuation satisfying f extends over the auxiliary symbols to one
    satisfying every clause; (b) every valuation + auxiliary assignment satisfying every clause
    satisfies f.  Returns None (fine), ('skip', why) or (kind, witness)."""
    fsyms = set(s for s in tocoq.topo([f]) if s.is_symbol())
    lits = set(l for c in clauses for l in c)
    aux = sorted(set(s for l in lits for s in tocoq.topo([l]) if s.is_symbol() and s not in fsyms), key=lambda s: s.symbol_name())
    if len(aux) > max_aux:
        return ("skip", "too many auxiliary symbols")
    for s in aux:
        if not s.symbol_type().is_bool_type():
            return ("shape", "auxiliary symbol %s is not Boolean" % s)
    out_atoms = [a for a in bool_atoms(env, list(lits)) if a not in aux]
    atoms = list(dict.fromkeys(bool_atoms(env, [f]) + out_atoms))
    cls = [list(c) for c in clauses]
    n = 0
    for val, it in atom_valuations(env, rnd, atoms, [f] + list(lits)):
        n += 1
        fv = beval(env, f, val, {})
        ext = False
        for bits in itertools.product([False, True], repeat=len(aux)):
            v2 = dict(val)
            v2.update(zip(aux, bits))
            memo = {}
            sat = all(any(beval(env, l, v2, memo) for l in c) for c in cls)
            if sat and not fv:
                return ("sound", {"valuation": {str(k): v for k, v in v2.items()},
                                  "interp": it.describe() if it is not None else None})
            if sat:
                ext = True
                break_ok = True
        if fv and not ext:
            return ("complete", {"valuation": {str(k): v for k, v in val.items()},
                                 "interp": it.describe() if it is not None else None})
    if n == 0:
        return ("skip", "no exact interpretation")
    return None


def emptied_class(conv, f):
    """Independent statement of the known finding's input class: the un-cleaned definitional
    clause set (the walk's own result) has a clause whose literals are all FALSE or the negated
    top literal - the clean-up empties it and `if simp:` drops it."""
    tl, cnf = conv.walk(f)
    ntl = conv.mgr.Not(tl).simplify()
    for c in cnf:
        if len(c) and all((l.is_false() or l == ntl) for l in c):
            return True
    return False


def search_cnf(chk, env, rnd, r, stats):
    f, cl = r["f"], r["clauses"]
    if cl is None:
        return
    kind = r["kind"]
    bad = shape_error(env, cl)
    if bad is not None:
        chk.violation({"kind": "input", "what": "%s: result is not a set of clauses of literals: %s" % (kind, bad.serialize()),
                       "formula": f.serialize(), "repro": repro(kind, f)}, key="%s-shape:%s" % (kind, short_key(f)))
        return
    res = check_equisat(env, rnd, f, cl)
    if res is None:
        stats["searched"] += 1
        return
    if res[0] == "skip":
        stats["skipped"] += 1
        return
    what, wit = res
    if what == "sound" and emptied_class(r["conv"], f):
        key = KNOWN_EMPTIED
    else:
        key = "%s-%s:%s" % (kind, what, short_key(f))
    expl = {"sound": "an assignment satisfies the output but not the input",
            "complete": "an assignment satisfying the input has no extension over the fresh symbols satisfying the output",
            "shape": "malformed output"}[what]
    chk.violation({"kind": "input", "what": "%s: %s" % (kind, expl), "formula": f.serialize(),
                   "output": sorted(sorted(l.serialize() for l in c) for c in cl), "witness": wit,
                   "repro": repro(kind, f), "oracle": "truth-table enumeration over atoms and auxiliary symbols"}, key=key)


def short_key(f):
    import hashlib
    return hashlib.md5(repr(tocoq.skey(f)).encode()).hexdigest()[:10]


def repro(kind, f):
    if kind == "cnf":
        return "from pysmt.rewritings import cnf_as_set; cnf_as_set(<formula>)   # formula: %s" % f.serialize()
    if kind == "pol":
        return "from pysmt.rewritings import PolarityCNFizer; PolarityCNFizer().convert(<formula>)   # formula: %s" % f.serialize()
    return "from pysmt.rewritings import Ackermannizer; Ackermannizer().do_ackermannization(<formula>)   # formula: %s" % f.serialize()


# ------------------------------------------------------------------------------------------
# the check
# ------------------------------------------------------------------------------------------
def cnf_part(chk, rnd, tier):
    nbatches = 10 if tier == "quick" else 80
    per_batch = 40
    cases, meta = [], []
    stats = {"searched": 0, "skipped": 0, "errors": 0}
    directed_done = False
    for b in range(nbatches):
        env = fresh_env()
        m = env.formula_manager
        pg = PropGen(env, rnd, nsyms=rnd.choice([2, 3, 4]), tricky_names=(b % 2 == 1))
        fg = FormulaGen(env, rnd, Config(quantifiers=False, max_arity=3), prefix="") if b % 2 == 0 else None
        fs = []
        if not directed_done:
            a, bb = m.Symbol("a"), m.Symbol("b")
            T, F = m.TRUE(), m.FALSE()
            fs += [T, F, a, m.Not(a), m.And(a, F), m.And(F, F), m.And(T, T), m.Or(a, T), m.Or(F, F), m.Not(m.And(a, bb)),
                   m.Implies(a, F), m.Implies(T, a), m.Iff(a, F), m.Iff(a, a), m.Ite(a, T, F), m.Ite(T, a, bb),
                   m.And(a, m.Not(a)), m.Or(a, m.Not(a)), m.And(m.Or(a, bb), m.Or(a, bb)), m.Not(m.Not(m.Or(a, F)))]
            directed_done = True
        for i in range(per_batch):
            if fg is not None and i % 2 == 0:
                fs.append(fg.gen(fg.types[0], rnd.randint(1, 4)))
            else:
                fs.append(pg.gen(rnd.randint(1, 4)))
        for f in fs:
            for kind in ("cnf", "pol"):
                r = run_converter(kind, env, f)
                if r["err"]:
                    stats["errors"] += 1
                cases.append(case_text(env, r))
                meta.append((kind, f.serialize()[:400]))
                chk.count((kind, tocoq.skey(f)), nontrivial=len(f.args()) > 0)
                search_cnf(chk, env, rnd, r, stats)
                r["conv"] = None
        if b == 0:
            chk.sample({"kind": "cnf", "formula": fs[-1].serialize()[:300]})
    files = termcases.write(chk.dir, "cnf", "From PySMT.models Require Import Oracles Cnf.", CASE_T, OK_DEF.replace("CASE_T", CASE_T), cases, shard=60)
    bad, errs = termcases.run(files)
    chk.cov.setdefault("correspondence", {}).update({"cnf_cases": len(cases), "cnf_disagreements": len(bad) + len(errs),
                                                     "cnf_impl_raised": stats["errors"]})
    chk.cov["search_cnf"] = stats
    for i in bad[:4]:
        chk.note("CNF model/implementation disagreement (%s) on %s" % meta[i])
        chk.cov["correspondence"].setdefault("cnf_examples", []).append(list(meta[i]))
    for e in errs[:2]:
        chk.note("CNF case file error: %s" % e["error"][-400:])
    return not bad and not errs


# ------------------------------------------------------------------------------------------
# Ackermannization
# ------------------------------------------------------------------------------------------
class UFGen(object):
    """QF formulas over Int with nested applications of several function symbols."""

    def __init__(self, env, rnd, flat=False):
        from pysmt.typing import INT, BOOL, FunctionType
        self.m = m = env.formula_manager
        self.rnd = rnd
        self.flat = flat
        self.xs = [m.Symbol(n, INT) for n in ("x", "y", "z")]
        self.bs = [m.Symbol(n, BOOL) for n in ("p", "q")]
        self.f = m.Symbol("f", FunctionType(INT, [INT]))
        self.g = m.Symbol("g", FunctionType(INT, [INT, INT]))
        self.h = m.Symbol("h", FunctionType(INT, [INT, BOOL]))
        self.pr = m.Symbol("pr", FunctionType(BOOL, [INT]))

    def term(self, d, inside_app=False):
        r, m = self.rnd, self.m
        if d <= 0 or r.random() < 0.2:
            return r.choice(self.xs + [m.Int(0), m.Int(1)])
        k = r.choice(["f", "f", "g", "h", "plus", "ite"])
        if inside_app and self.flat and k in ("plus", "ite"):
            k = "f"
        if k == "f":
            return m.Function(self.f, [self.term(d - 1, True)])
        if k == "g":
            return m.Function(self.g, [self.term(d - 1, True), self.term(d - 1, True)])
        if k == "h":
            return m.Function(self.h, [self.term(d - 1, True), r.choice(self.bs) if self.flat or r.random() < 0.5 else self.atom(d - 1)])
        if k == "plus":
            return m.Plus(self.term(d - 1), self.term(d - 1))
        return m.Ite(self.atom(d - 1), self.term(d - 1), self.term(d - 1))

    def atom(self, d):
        r, m = self.rnd, self.m
        k = r.choice(["eq", "le", "pr", "b"])
        if k == "eq":
            return m.Equals(self.term(d), self.term(d))
        if k == "le":
            return m.LE(self.term(d), self.term(d))
        if k == "pr":
            return m.Function(self.pr, [self.term(d, True)])
        return r.choice(self.bs)

    def formula(self, d):
        r, m = self.rnd, self.m
        if d <= 0 or r.random() < 0.3:
            return self.atom(r.randint(0, 2))
        k = r.choice(["and", "or", "not", "implies", "iff"])
        if k == "and":
            return m.And(self.formula(d - 1), self.formula(d - 1))
        if k == "or":
            return m.Or(self.formula(d - 1), self.formula(d - 1))
        if k == "not":
            return m.Not(self.formula(d - 1))
        if k == "implies":
            return m.Implies(self.formula(d - 1), self.formula(d - 1))
        return m.Iff(self.formula(d - 1), self.formula(d - 1))


ACK_T = "term * nat * list string * term * nat"
ACK_OK = """
Definition ok (c : ACK_T) : bool :=
  let '(f, guess, names, exp, eguess) := c in
  let (res, st) := ackermannize f (init_astate guess names) in
  sac_eqb res exp && Nat.eqb (fresh_guess (amgr st)) eguess.
"""


def nested_class(f):
    """Independent statement of the known finding's input class: some application has an
    argument that is not an application but contains one."""
    has = {}
    for n in tocoq.topo([f]):
        has[n] = n.is_function_application() or any(has[a] for a in n.args())
    for n in tocoq.topo([f]):
        if n.is_function_application():
            for a in n.args():
                if not a.is_function_application() and has[a]:
                    return True
    return False


def search_ack(chk, env, rnd, f, out, acker, stats):
    from . import refeval
    apps_left = [n for n in tocoq.topo([out]) if n.is_function_application()]
    if apps_left:
        key = KNOWN_ACK_NESTED if nested_class(f) else "ack-shape:%s" % short_key(f)
        chk.violation({"kind": "input", "what": "ackermannization: the result still contains the application %s" % apps_left[0].serialize(),
                       "formula": f.serialize(), "output": out.serialize(), "repro": repro("ack", f)}, key=key)
    c2t = acker.get_const_to_term_dict()
    apps = sorted(c2t.items(), key=lambda kv: len(tocoq.topo([kv[1]])))
    # (a) completeness: each constant := the value of its application
    for _ in range(4):
        it = refeval.random_interp(rnd, [f], int_range=(-2, 2), div0="raise")
        try:
            vf, ex = refeval.evaluate_ex(f, it)
            if not ex:
                continue
            it2 = refeval.interp_updated(it, dict((c, refeval.evaluate_ex(t, it)[0]) for c, t in c2t.items()))
            vo, ex2 = refeval.evaluate_ex(out, it2)
        except refeval.RefEvalError:
            stats["skipped"] += 1
            continue
        stats["complete_checked"] += 1
        if vf is True and vo is not True:
            chk.violation({"kind": "input", "what": "ackermannization: an interpretation satisfying the input, extended by c_app := value(app), falsifies the output",
                           "formula": f.serialize(), "output": out.serialize(), "interp": it.describe(), "repro": repro("ack", f),
                           "oracle": "harness/refeval.py"}, key="ack-complete:%s" % short_key(f))
            return
    if apps_left:
        return
    # (b) soundness: an interpretation of the output's symbols satisfying it, with the tables
    # F(value of args) := value of c_app, satisfies the input
    for _ in range(12):
        it = refeval.random_interp(rnd, [out], int_range=(-1, 1), div0="raise")
        try:
            vo, ex = refeval.evaluate_ex(out, it)
            if vo is not True or not ex:
                continue
            it2 = it.copy()
            it2.functions = {}
            tabs = {}
            conflict = False
            for c, t in apps:
                fn = t.function_name()
                vals = tuple(refeval.evaluate_ex(a, it2)[0] for a in t.args())
                tab = tabs.setdefault(fn, {})
                v = it.value(c)
                if vals in tab and tab[vals] != v:
                    conflict = True
                else:
                    tab[vals] = v
                it2.set_function(fn, tab)
            vf, ex2 = refeval.evaluate_ex(f, it2)
        except refeval.RefEvalError:
            stats["skipped"] += 1
            continue
        stats["sound_checked"] += 1
        if vf is not True:
            chk.violation({"kind": "input", "what": "ackermannization: an interpretation satisfies the output but the function tables read off the constants do not satisfy the input%s" % (" (tables inconsistent)" if conflict else ""),
                           "formula": f.serialize(), "output": out.serialize(), "interp": it.describe(), "repro": repro("ack", f),
                           "oracle": "harness/refeval.py"}, key="ack-sound:%s" % short_key(f))
            return


def ack_part(chk, rnd, tier):
    from pysmt.rewritings import Ackermannizer
    nbatches = 6 if tier == "quick" else 50
    cases, meta = [], []
    stats = {"complete_checked": 0, "sound_checked": 0, "skipped": 0, "nested_inputs": 0}
    for b in range(nbatches):
        env = fresh_env()
        m = env.formula_manager
        fs = []
        ug = UFGen(env, rnd, flat=(b % 2 == 1))
        if b == 0:
            x, y = ug.xs[0], ug.xs[1]
            F = lambda t: m.Function(ug.f, [t])
            fs += [m.Equals(F(m.Plus(F(x), m.Int(1))), x), m.And(m.Equals(F(F(x)), x), m.Equals(F(x), m.Int(3))),
                   m.Equals(F(x), F(y)), m.Not(m.Implies(m.Equals(x, y), m.Equals(F(x), F(y)))), m.Equals(x, y),
                   m.Iff(m.Function(ug.pr, [x]), m.Function(ug.pr, [F(y)]))]
        for i in range(30):
            fs.append(ug.formula(rnd.randint(0, 3)))
        if b % 3 == 2:
            fg = FormulaGen(env, rnd, Config(quantifiers=False, strings=False, arrays=False, div=False, nonlinear=False, max_arity=3))
            for i in range(20):
                fs.append(fg.gen(fg.types[0], rnd.randint(1, 4)))
        for f in fs:
            before = (m._fresh_guess, list(m.symbols.keys()))
            acker = Ackermannizer(env)
            out = acker.do_ackermannization(f)
            after = m._fresh_guess
            cases.append(([f, out], (lambda nm, f=f, out=out, before=before, after=after:
                                     "(%s, %d%%nat, [%s], %s, %d%%nat)" % (nm[f], before[0], "; ".join(tocoq.cstr(n) for n in before[1]), nm[out], after))))
            meta.append((f.serialize()[:400], nested_class(f)))
            chk.count(("ack", tocoq.skey(f)), nontrivial=bool(acker.get_term_to_const_dict()))
            if nested_class(f):
                stats["nested_inputs"] += 1
            search_ack(chk, env, rnd, f, out, acker, stats)
        if b == 0:
            chk.sample({"kind": "ackermannization", "formula": fs[-1].serialize()[:300]})
    files = termcases.write(chk.dir, "ack", "From PySMT.models Require Import Oracles Cnf Ackermann.", ACK_T, ACK_OK.replace("ACK_T", ACK_T), cases, shard=40)
    bad, errs = termcases.run(files)
    # models/Ackermann.v is the REPAIRED code (build/fixes/C11_ackermann_nested.diff): while the
    # repository is unrepaired, disagreements on the known finding's input class belong to it
    if KNOWN_ACK_NESTED in chk.known_hits:
        attributed = [i for i in bad if meta[i][1]]
        bad = [i for i in bad if not meta[i][1]]
        chk.cov.setdefault("correspondence", {})["ack_disagreements_attributed_to_known_finding"] = len(attributed)
    chk.cov.setdefault("correspondence", {}).update({"ack_cases": len(cases), "ack_disagreements": len(bad) + len(errs)})
    chk.cov["search_ack"] = stats
    for i in bad[:4]:
        chk.note("Ackermann model/implementation disagreement on %s" % meta[i][0])
        chk.cov["correspondence"].setdefault("ack_examples", []).append(meta[i][0])
    for e in errs[:2]:
        chk.note("Ackermann case file error: %s" % e["error"][-400:])
    return not bad and not errs


def run(tier):
    chk = lib.Check("C11", tier)
    rnd = random.Random(chk.seed)
    lib.clean_cases(chk.dir)
    ok = chk.prove(extra_targets=["models/Cnf.vo", "models/Ackermann.vo"])
    corr_ok = cnf_part(chk, rnd, tier)
    corr_ok = ack_part(chk, rnd, tier) and corr_ok
    fresh_env()
    if (not ok or not corr_ok) and not chk.violations and not chk.known_hits:
        what = []
        if not ok:
            what.append("proof obligations no longer check: " + lib.proof_failure_summary(chk))
        if not corr_ok:
            what.append("correspondence model<->implementation differs: %s" % chk.cov.get("correspondence"))
        chk.violation({"kind": "obligation", "theorem_or_correspondence": what}, found_input=False)
    return chk.finish(TRUSTED, ASSUMPTIONS, RULE)


def replay(path):
    r = json.load(open(path))
    print(json.dumps(r, indent=1))
    return run("quick")
