"""C11 - CNF conversion (CNFizer, PolarityCNFizer) and Ackermannization preserve satisfiability
model by model.

Proof: coq/props/C11.v (models/Cnf.v, models/Ackermann.v, proofs/Cnf_proofs.v,
proofs/Ackermann_proofs.v).  Correspondence: the models are run inside Coq on generated
formulas, started from the SAME manager state (_fresh_guess, symbol names) as the
implementation, and must return the same clause sets (sets of sets of literals), the same
formula (up to the order of And/Or arguments) and the same next _fresh_guess: fresh names are
compared EXACTLY, not up to renaming.  The simplifier called by `Not(a).simplify()` enters the
model as the table of the implementation's answers on the atoms of the case.
SEARCH oracle (independent of the model): truth-table enumeration over the original atoms and
the auxiliary symbols (refeval interpretations for theory atoms / Ackermannization).
"""
import itertools
import json
import random

from . import lib, termcases, tocoq
from .gen.formulas import Config, FormulaGen

TRUSTED = [
    "Coq 8.16.1 kernel (vm_compute only in the closed refutation witnesses and in the case files); core/Sem.v is the specification of truth under an interpretation",
    "hand models models/Cnf.v (CNFizer.walk_*, convert, convert_as_formula, PolarityCNFizer, FormulaManager.new_fresh_symbol) and models/Ackermann.v, tied to rewritings.py by this run's correspondence (exact fresh names, clause sets as sets of sets; Ackermann result up to And/Or order and orientation of = / <->)",
    "C11_cnf_*/C11_pol_* carry the hypothesis simp_sound (the simplifier applied by Not(a).simplify() to a theory atom preserves the truth value: C01's subject) and, for the shape theorems, shape_hyp (it returns an atom, a negated atom or a Boolean constant; checked on every generated case by the shape oracle on the implementation's own output); the C11_*_simplifier corollaries discharge simp_sound with C01's theorem (proofs/CnfSimp_proofs.v) for the simplifier model on well-typed division-free Bool terms of C01's fragment and well-sorted interpretations",
    "the memoising DAG walker computes the same function as the tree recursion of the models (core/DagWalk.v, walk_refines)",
    "standard-library axioms pulled in by core/Sem.v (classical reals, excluded middle via ClassicalDescription, functional extensionality)",
]
ASSUMPTIONS = [
    "quantifier-free formulas (both converters raise NotImplementedError on a quantifier; the model returns None)",
    "theorems are conditional on the conversion returning (model result Some _); cnf_total shows it does for every formula whose connectives have Boolean-structure/atom children",
    "cnf_sound / pol_sound are full theorems for the repaired clean-up (pysmt 7e10806: FALSE_CNF when a clause is emptied); the former witnesses And(a, FALSE), And(FALSE, FALSE), Or(FALSE, FALSE) are directed regression cases (Coq: regression_emptied; harness: first batch)",
    "Ackermannization: models/Ackermann.v is the code repaired by build/fixes/C11_ackermann_nested.diff; ack_shape, ack_complete (f quantifier-free, well-typed, in the C01 fragment okt; I wf_interp; manager knows the symbols of f) and ack_sound (f quantifier-free, J wf_interp) are theorems, nested applications included",
    "shape: C11_cnf_shape_simplifier / C11_pol_shape_simplifier need the atoms of the input to be symbols, constants, applications, relations, equalities or string predicates (atoms_ok); refuted otherwise (shape_hyp_refuted, cnf_shape_refuted: a Bool-sorted Select on a constant array value is replaced by the stored element) - open finding cnf-shape:bool-select-of-array-value",
    "FNode.simplify()/get_type() use the GLOBAL environment, so the check makes the fresh Environment of each batch the global one",
    "reuse of one object for several formulas (solvers/pico.py keeps one CNFizer) is covered by theorems as well: C11_cnf_*_reuse / C11_pol_*_reuse for any state of a history of successful conversions (cnf_hist, reuse_ok: f mentions no variable introduced earlier) and C11_ack_sound_history / C11_ack_complete_history (ack_hist; completeness for formulas over the symbols known when the object was created); the history families tie the threaded models to the implementation and run the oracles on every call; not covered by theorems: the state left behind by a call that RAISES",
]
RULE = ("cases: harness/gen/formulas.py restricted to quantifier-free (theory atoms of every theory, Boolean structure nested in atoms, sharing) "
        "+ a propositional generator with Boolean constants at every position, ITE, IFF, 0/1-ary And/Or and user symbols named FV<n>; "
        "a fresh pysmt Environment per batch; distinct = distinct (converter, formula structure); "
        "wide-function family: 2-3 applications of a function of arity 3-4 over 4-5 argument variables with repeated arguments across positions "
        "(35% the cross arrangement f(a,c,a)/f(b,d,c)), checked exactly over the domain {0,1} with injective and random function tables; "
        "deep-difference family (identity by printed form: str()/repr() of an FNode is serialize(threshold=5)): pairs and triples of Boolean (Or/And) and "
        "arithmetic (Plus/Minus) nestings identical down to depth d = 3..9 that differ at one leaf, as arguments of two or three applications of one "
        "function (Ackermann), as two atoms and as two conjuncts of one CNF input (both converters), at most 8 symbols, decided exactly over {0,1} "
        "(CNF: DPLL over the auxiliary symbols), plus symbols NAMED like another term's printed form next to that term; "
        "history families: 2-4 calls on ONE Ackermannizer (later formulas over applications seen before: all/some/none) and on ONE CNFizer / "
        "PolarityCNFizer (later formulas built from earlier formulas and shared sub-formulas); when the Ackermann correspondence differs an "
        "escalated search (exact oracle / 80+160 small-domain interpretations per disagreeing input) runs before no-failing-input-found")

KNOWN_EMPTIED = "cnf-cleanup:emptied-clause-dropped"     # fixed in 7e10806: a hit is a regression and is reported
KNOWN_ACK_NESTED = "ackermann:application-nested-in-non-application-argument"
KNOWN_SHAPE_SELECT = "cnf-shape:bool-select-of-array-value"


# ------------------------------------------------------------------------------------------
# environments and generators
# ------------------------------------------------------------------------------------------
def fresh_env():
    """A fresh Environment that is also the global one (FNode.simplify / get_type use get_env())."""
    import pysmt.environment as E
    E.pop_env()
    E.push_env()
    return E.get_env()


class PropGen(object):
    """Propositional formulas over few Bool symbols with constants at every position."""

    def __init__(self, env, rnd, nsyms=3, tricky_names=False):
        self.m = env.formula_manager
        self.rnd = rnd
        names = ["a", "b", "c", "d", "e"][:nsyms]
        if tricky_names:
            names = names[:-1] + [rnd.choice(["FV0", "FV1", "FV2", "FV10"])]
        self.syms = [self.m.Symbol(n) for n in names]
        self.pool = []

    def gen(self, d):
        r, m = self.rnd, self.m
        if d <= 0 or r.random() < 0.15:
            x = r.random()
            if x < 0.2:
                return m.Bool(r.random() < 0.5)
            return r.choice(self.syms)
        if self.pool and r.random() < 0.25:
            return r.choice(self.pool)
        k = r.choice(["and", "or", "not", "implies", "iff", "ite", "and", "or", "not"])
        g = lambda: self.gen(d - 1)
        if k == "and":
            f = m.And([g() for _ in range(r.choice([2, 2, 3, 1, 0]))])
        elif k == "or":
            f = m.Or([g() for _ in range(r.choice([2, 2, 3, 1, 0]))])
        elif k == "not":
            f = m.Not(g())
        elif k == "implies":
            f = m.Implies(g(), g())
        elif k == "iff":
            f = m.Iff(g(), g())
        else:
            f = m.Ite(g(), g(), g())
        self.pool.append(f)
        return f


# ------------------------------------------------------------------------------------------
# running the implementation
# ------------------------------------------------------------------------------------------
CONNECTIVES = None


def _ops():
    global CONNECTIVES
    import pysmt.operators as op
    if CONNECTIVES is None:
        CONNECTIVES = frozenset([op.AND, op.OR, op.NOT, op.IMPLIES, op.IFF, op.FORALL, op.EXISTS])
    return op


def simp_table(env, f):
    """(t, t.simplify()) for every Bool sub-term of f that is not a negation / symbol / Boolean
    constant, closed under stripping the negation of the answers."""
    op = _ops()
    tab, todo = {}, []
    for n in tocoq.topo([f]):
        if env.stc.get_type(n).is_bool_type():
            todo.append(n)
    while todo:
        n = todo.pop()
        while n.is_not():
            n = n.arg(0)
        if n in tab or n.is_symbol() or n.is_bool_constant():
            continue
        s = n.simplify()
        tab[n] = s
        todo.append(s)
    return tab


def run_converter(kind, env, f, conv=None):
    """One conversion by a new converter object (or by the given, reused one).  Returns dict with
    the manager state before, the clause set, the formula, the state after, or error."""
    from pysmt.rewritings import CNFizer, PolarityCNFizer
    m = env.formula_manager
    before = (m._fresh_guess, list(m.symbols.keys()))
    if conv is None:
        conv = (CNFizer if kind == "cnf" else PolarityCNFizer)(env)
    try:
        cl = conv.convert(f)
        fm = conv.convert_as_formula(f)
        err = None
    except (AssertionError, ValueError, TypeError, NotImplementedError, AttributeError) as ex:
        cl, fm, err = None, None, type(ex).__name__
    return {"kind": kind, "f": f, "before": before, "clauses": cl, "formula": fm, "err": err,
            "guess_after": m._fresh_guess, "conv": conv}


def step_text(env, r):
    """(roots, body_fn) of one conversion without the converter flag."""
    f = r["f"]
    tab = simp_table(env, f)
    roots = [f]
    for a, b in tab.items():
        roots += [a, b]
    if r["clauses"] is not None:
        for c in r["clauses"]:
            roots += list(c)
        roots.append(r["formula"])
    guess, names = r["before"]

    def body(nm, r=r, tab=tab):
        t = "[%s]" % "; ".join("(%s, %s)" % (nm[a], nm[b]) for a, b in tab.items())
        if r["clauses"] is None:
            exp = "None"
        else:
            exp = "(Some ([%s], %s, %d%%nat))" % ("; ".join("[%s]" % "; ".join(nm[l] for l in c) for c in r["clauses"]),
                                                  nm[r["formula"]], r["guess_after"])
        return "%s, %d%%nat, [%s], %s, %s" % (nm[f], guess, "; ".join(tocoq.cstr(n) for n in names), t, exp)
    return roots, body


def case_text(env, r):
    """(roots, body_fn) for termcases.write."""
    roots, body = step_text(env, r)
    return roots, (lambda nm, r=r, body=body: "(%s, %s)" % ("true" if r["kind"] == "pol" else "false", body(nm)))


CASE_T = "bool * term * nat * list string * list (term * term) * option (list (list term) * term * nat)"
OK_DEF = """
Definition ok (c : CASE_T) : bool :=
  let '(pol, f, guess, names, tab, exp) := c in
  let conv := if pol then pol_convert (table_simp tab) else cnf_convert (table_simp tab) in
  match conv f (init_state guess names), exp with
  | Some (cl, st), Some (ecl, ef, eguess) =>
      set_eqb clause_eqb cl ecl && ac_eqb (as_formula cl) ef && Nat.eqb (fresh_guess (mgr st)) eguess
  | None, None => true
  | _, _ => false
  end.
"""


STEP_T = "term * nat * list string * list (term * term) * option (list (list term) * term * nat)"
CNF_HIST_OK = """
(* a history on ONE converter object: _introduced_variables persists between the calls; the
   manager state is the one observed before each call *)
Fixpoint run_hist (pol : bool) (steps : list (STEP_T)) (intr : list (term * string)) : bool :=
  match steps with
  | [] => true
  | (f, guess, names, tab, exp) :: r =>
      let st := {| mgr := {| fresh_guess := guess; mnames := names |}; intro := intr |} in
      let conv := if pol then pol_convert (table_simp tab) else cnf_convert (table_simp tab) in
      match conv f st, exp with
      | Some (cl, st'), Some (ecl, ef, eguess) =>
          set_eqb clause_eqb cl ecl && ac_eqb (as_formula cl) ef && Nat.eqb (fresh_guess (mgr st')) eguess &&
          run_hist pol r (intro st')
      | _, _ => false
      end
  end.
Definition ok (c : bool * list (STEP_T)) : bool := run_hist (fst c) (snd c) [].
"""


# ------------------------------------------------------------------------------------------
# property-level oracle on the implementation (independent of the model)
# ------------------------------------------------------------------------------------------
def is_connective(env, n):
    op = _ops()
    nt = n.node_type()
    if nt in CONNECTIVES:
        return True
    if nt == op.ITE and env.stc.get_type(n).is_bool_type():
        return True
    return False


def bool_atoms(env, roots):
    """Maximal sub-terms of the Boolean structure that are not connectives."""
    out, seen, todo = [], set(), list(roots)
    while todo:
        n = todo.pop()
        if n in seen:
            continue
        seen.add(n)
        if is_connective(env, n):
            todo.extend(n.args())
        elif not n.is_bool_constant():
            out.append(n)
    return out


def beval(env, n, val, memo):
    """Truth value of Boolean structure n given the truth values `val` of its atoms."""
    op = _ops()
    if n in memo:
        return memo[n]
    nt = n.node_type()
    if n.is_bool_constant():
        v = n.constant_value()
    elif nt == op.AND:
        v = all(beval(env, a, val, memo) for a in n.args())
    elif nt == op.OR:
        v = any(beval(env, a, val, memo) for a in n.args())
    elif nt == op.NOT:
        v = not beval(env, n.arg(0), val, memo)
    elif nt == op.IMPLIES:
        v = (not beval(env, n.arg(0), val, memo)) or beval(env, n.arg(1), val, memo)
    elif nt == op.IFF:
        v = beval(env, n.arg(0), val, memo) == beval(env, n.arg(1), val, memo)
    elif nt == op.ITE and is_connective(env, n):
        v = beval(env, n.arg(1), val, memo) if beval(env, n.arg(0), val, memo) else beval(env, n.arg(2), val, memo)
    else:
        v = val[n]
    memo[n] = v
    return v


def shape_error(env, clauses):
    """None, or the first literal that is not an atom / a negated atom."""
    for c in clauses:
        for l in c:
            a = l.arg(0) if l.is_not() else l
            if is_connective(env, a):
                return l
    return None


def _euf_evaluable(atoms):
    op = _ops()
    okn = (op.SYMBOL, op.INT_CONSTANT, op.BOOL_CONSTANT, op.AND, op.OR, op.NOT, op.IMPLIES, op.IFF, op.EQUALS, op.ITE, op.FUNCTION,
           op.PLUS, op.MINUS, op.TIMES, op.LE, op.LT)
    return all(n.node_type() in okn for n in tocoq.topo(list(atoms)))


def atom_valuations(env, rnd, atoms, formulas, max_exhaustive=10, samples=6, exact_small=False):
    """Truth assignments of the given atoms that are realisable: all of them when every atom is
    a Bool symbol; the values under every assignment of the symbols over {0,1} and three function
    tables when the atoms are equality/UF/linear terms over at most 8 symbols (exact for the
    deep-difference family); else the values under random refeval interpretations."""
    if all(a.is_symbol() for a in atoms):
        if len(atoms) <= max_exhaustive:
            for bits in itertools.product([False, True], repeat=len(atoms)):
                yield dict(zip(atoms, bits)), None
            return
        for _ in range(64):
            yield dict((a, rnd.random() < 0.5) for a in atoms), None
        return
    if exact_small and _euf_evaluable(atoms):
        nodes = tocoq.topo(list(atoms))
        fsyms = sorted(set(n.function_name() for n in nodes if n.is_function_application()), key=lambda x: x.symbol_name())
        vs = sorted((n for n in nodes if n.is_symbol() and not n.symbol_type().is_function_type()), key=lambda x: x.symbol_name())
        if len(vs) <= 8 and all(v.symbol_type().is_bool_type() or v.symbol_type().is_int_type() for v in vs):
            seen = set()
            for tname, tabs in (_tables(rnd, fsyms) if fsyms else [("none", {})]):
                for vals in itertools.product(*[_dom(v) for v in vs]):
                    e = dict(zip(vs, vals))
                    memo = {}
                    val = dict((a, euf_eval(a, e, tabs, memo)) for a in atoms)
                    key = tuple(val[a] for a in atoms)
                    if key in seen or not all(type(v) is bool for v in val.values()):
                        continue
                    seen.add(key)
                    yield val, _Described({"symbols": {str(k): v for k, v in e.items()}, "function_table": tname})
            return
    from . import refeval
    got = 0
    for _ in range(samples * 3):
        if got >= samples:
            break
        it = refeval.random_interp(rnd, formulas, int_range=(-3, 3), div0="raise")
        try:
            val = {}
            cache = refeval.EvalCache()
            exact = True
            for a in atoms:
                v, ex = refeval.evaluate_ex(a, it, cache)
                exact = exact and ex
                val[a] = v
            if not exact or not all(type(v) is bool for v in val.values()):
                continue
        except refeval.RefEvalError:
            continue
        got += 1
        yield val, it


class _Described(object):
    def __init__(self, d):
        self.d = d

    def describe(self):
        return self.d


def _dpll(clauses, assign):
    """Tiny DPLL over clauses = lists of (variable, polarity).  Returns a model dict or None."""
    assign = dict(assign)
    while True:
        unit = None
        out = []
        for c in clauses:
            sat, rest = False, []
            for (v, pol) in c:
                if v in assign:
                    if assign[v] == pol:
                        sat = True
                        break
                else:
                    rest.append((v, pol))
            if sat:
                continue
            if not rest:
                return None
            if len(rest) == 1 and unit is None:
                unit = rest[0]
            out.append(rest)
        clauses = out
        if unit is None:
            break
        assign[unit[0]] = unit[1]
    if not clauses:
        return assign
    v = clauses[0][0][0]
    for b in (True, False):
        a2 = dict(assign)
        a2[v] = b
        r = _dpll(clauses, a2)
        if r is not None:
            return r
    return None


def aux_model(env, cls, val, aux):
    """An assignment of the auxiliary symbols satisfying every clause under the valuation `val`
    of the atoms, or None: the literals over atoms are evaluated, the rest is decided by DPLL."""
    auxs = set(aux)
    red = []
    for c in cls:
        sat, rest = False, []
        for l in c:
            b = l.arg(0) if l.is_not() else l
            if b in auxs:
                rest.append((b, not l.is_not()))
            elif beval(env, l, val, {}):
                sat = True
                break
        if not sat:
            red.append(rest)
    m = _dpll(red, {})
    if m is None:
        return None
    return dict((x, m.get(x, False)) for x in aux)


def check_equisat(env, rnd, f, clauses, max_aux=10, max_dpll=80, exact_small=False):
    """(a) every (realisable) valuation satisfying f extends over the auxiliary symbols to one
    satisfying every clause; (b) every valuation + auxiliary assignment satisfying every clause
    satisfies f.  Up to max_aux auxiliary symbols by plain enumeration, above by DPLL (both exact).
    Returns None (fine), ('skip', why) or (kind, witness)."""
    fsyms = set(s for s in tocoq.topo([f]) if s.is_symbol())
    lits = set(l for c in clauses for l in c)
    aux = sorted(set(s for l in lits for s in tocoq.topo([l]) if s.is_symbol() and s not in fsyms), key=lambda s: s.symbol_name())
    if len(aux) > max_dpll:
        return ("skip", "too many auxiliary symbols")
    for s in aux:
        if not s.symbol_type().is_bool_type():
            return ("shape", "auxiliary symbol %s is not Boolean" % s)
    out_atoms = [a for a in bool_atoms(env, list(lits)) if a not in aux]
    atoms = list(dict.fromkeys(bool_atoms(env, [f]) + out_atoms))
    cls = [list(c) for c in clauses]
    n = 0
    for val, it in atom_valuations(env, rnd, atoms, [f] + list(lits), exact_small=exact_small):
        n += 1
        fv = beval(env, f, val, {})
        if len(aux) > max_aux:
            m = aux_model(env, cls, val, aux)
            if m is not None and not fv:
                v2 = dict(val)
                v2.update(m)
                return ("sound", {"valuation": {str(k): v for k, v in v2.items()},
                                  "interp": it.describe() if it is not None else None})
            if m is None and fv:
                return ("complete", {"valuation": {str(k): v for k, v in val.items()},
                                     "interp": it.describe() if it is not None else None})
            continue
        ext = False
        for bits in itertools.product([False, True], repeat=len(aux)):
            v2 = dict(val)
            v2.update(zip(aux, bits))
            memo = {}
            sat = all(any(beval(env, l, v2, memo) for l in c) for c in cls)
            if sat and not fv:
                return ("sound", {"valuation": {str(k): v for k, v in v2.items()},
                                  "interp": it.describe() if it is not None else None})
            if sat:
                ext = True
                if fv:
                    break
        if fv and not ext:
            return ("complete", {"valuation": {str(k): v for k, v in val.items()},
                                 "interp": it.describe() if it is not None else None})
    if n == 0:
        return ("skip", "no exact interpretation")
    return None


def select_class(env, f):
    """Independent statement of the known finding's input class: a Bool-sorted Select whose array
    is a constant array value and whose index is a constant (the simplifier replaces such an atom
    by the stored element, which may be any Boolean formula)."""
    for n in tocoq.topo([f]):
        if n.is_select() and n.arg(0).is_array_value() and n.arg(1).is_constant() and env.stc.get_type(n).is_bool_type():
            return True
    return False


def emptied_class(conv, f):
    """Independent statement of the known finding's input class: the un-cleaned definitional
    clause set (the walk's own result) has a clause whose literals are all FALSE or the negated
    top literal - the clean-up empties it and `if simp:` drops it."""
    tl, cnf = conv.walk(f)
    ntl = conv.mgr.Not(tl).simplify()
    for c in cnf:
        if len(c) and all((l.is_false() or l == ntl) for l in c):
            return True
    return False


def search_cnf(chk, env, rnd, r, stats, exact_small=False):
    f, cl = r["f"], r["clauses"]
    if cl is None:
        return
    kind = r["kind"]
    bad = shape_error(env, cl)
    if bad is not None:
        chk.violation({"kind": "input", "what": "%s: result is not a set of clauses of literals: %s" % (kind, bad.serialize()),
                       "formula": f.serialize(), "repro": repro(kind, f)},
                      key=(KNOWN_SHAPE_SELECT if select_class(env, f) else "%s-shape:%s" % (kind, short_key(f))))
        if not select_class(env, f):
            return
    res = check_equisat(env, rnd, f, cl, exact_small=exact_small, max_aux=(5 if exact_small else 10))
    if res is None:
        stats["searched"] += 1
        return
    if res[0] == "skip":
        stats["skipped"] += 1
        return
    what, wit = res
    if what == "sound" and emptied_class(r["conv"], f):
        key = KNOWN_EMPTIED
    else:
        key = "%s-%s:%s" % (kind, what, short_key(f))
    expl = {"sound": "an assignment satisfies the output but not the input",
            "complete": "an assignment satisfying the input has no extension over the fresh symbols satisfying the output",
            "shape": "malformed output"}[what]
    chk.violation({"kind": "input", "what": "%s: %s" % (kind, expl), "formula": f.serialize(),
                   "output": sorted(sorted(l.serialize() for l in c) for c in cl), "witness": wit,
                   "repro": repro(kind, f), "oracle": "truth-table enumeration over atoms and auxiliary symbols"}, key=key)


def short_key(f):
    import hashlib
    return hashlib.md5(repr(tocoq.skey(f)).encode()).hexdigest()[:10]


def repro(kind, f):
    if kind == "cnf":
        return "from pysmt.rewritings import cnf_as_set; cnf_as_set(<formula>)   # formula: %s" % f.serialize()
    if kind == "pol":
        return "from pysmt.rewritings import PolarityCNFizer; PolarityCNFizer().convert(<formula>)   # formula: %s" % f.serialize()
    return "from pysmt.rewritings import Ackermannizer; Ackermannizer().do_ackermannization(<formula>)   # formula: %s" % f.serialize()


# ------------------------------------------------------------------------------------------
# the check
# ------------------------------------------------------------------------------------------
def cnf_part(chk, rnd, tier):
    nbatches = 10 if tier == "quick" else 80
    per_batch = 40
    cases, meta = [], []
    stats = {"searched": 0, "skipped": 0, "errors": 0, "deep_inputs": 0}
    hstats = {"histories": 0, "calls": 0}
    hcases, hmeta = [], []
    directed_done = False
    for b in range(nbatches):
        env = fresh_env()
        m = env.formula_manager
        pg = PropGen(env, rnd, nsyms=rnd.choice([2, 3, 4]), tricky_names=(b % 2 == 1))
        fg = FormulaGen(env, rnd, Config(quantifiers=False, max_arity=3), prefix="") if b % 2 == 0 else None
        fs = []
        if not directed_done:
            a, bb = m.Symbol("a"), m.Symbol("b")
            T, F = m.TRUE(), m.FALSE()
            fs += [T, F, a, m.Not(a), m.And(a, F), m.And(F, F), m.And(T, T), m.Or(a, T), m.Or(F, F), m.Not(m.And(a, bb)),
                   m.Implies(a, F), m.Implies(T, a), m.Iff(a, F), m.Iff(a, a), m.Ite(a, T, F), m.Ite(T, a, bb),
                   m.And(a, m.Not(a)), m.Or(a, m.Not(a)), m.And(m.Or(a, bb), m.Or(a, bb)), m.Not(m.Not(m.Or(a, F)))]
            from pysmt.typing import INT as _INT
            sel = m.Select(m.Array(_INT, F, {m.Int(1): m.And(a, bb)}), m.Int(1))
            fs += [m.Or(a, m.Not(sel)), m.And(a, sel), m.Iff(sel, bb)]
            directed_done = True
        for i in range(per_batch):
            if fg is not None and i % 2 == 0:
                fs.append(fg.gen(fg.types[0], rnd.randint(1, 4)))
            else:
                fs.append(pg.gen(rnd.randint(1, 4)))
        dg = DeepGen(env, rnd)
        deepf = []
        if b == 0 or (tier != "quick" and b % 16 == 0):
            for d in range(3, 10):
                deepf += dg.cnf_inputs(d, all_shapes=(tier != "quick"))
        if b == 0:
            deepf += dg.name_clash_inputs()[0]
        stats["deep_inputs"] += len(deepf)
        fs += deepf
        deepf = set(deepf)
        for f in fs:
            for kind in ("cnf", "pol"):
                r = run_converter(kind, env, f)
                if r["err"]:
                    stats["errors"] += 1
                cases.append(case_text(env, r))
                meta.append((kind, f.serialize()[:400]))
                chk.count((kind, tocoq.skey(f)), nontrivial=len(f.args()) > 0)
                search_cnf(chk, env, rnd, r, stats, exact_small=(f in deepf))
                r["conv"] = None
        # ---- histories on one converter object (as solvers/pico.py uses its CNFizer) ----
        from pysmt.rewritings import CNFizer, PolarityCNFizer
        nh = 6 if tier == "quick" else 15
        for h in range(nh):
            for kind in ("cnf", "pol"):
                conv = (CNFizer if kind == "cnf" else PolarityCNFizer)(env)
                steps, calls, raised = [], [], False
                for k in range(rnd.choice([2, 3, 3, 4])):
                    g = pg.gen(rnd.randint(1, 3))
                    if calls and rnd.random() < 0.7:
                        # reuse sub-formulas of earlier calls (whole formulas and pool members)
                        prev = rnd.choice(calls + pg.pool[-6:])
                        g = rnd.choice([lambda: m.Or(prev, g), lambda: m.And(g, m.Not(prev)), lambda: m.Iff(prev, g),
                                        lambda: m.Implies(g, prev), lambda: prev, lambda: m.Not(prev)])()
                    r = run_converter(kind, env, g, conv=conv)
                    if r["err"]:
                        raised = True
                        break
                    calls.append(g)
                    steps.append(step_text(env, r))
                    hstats["calls"] += 1
                    chk.count((kind + "-hist", tuple(tocoq.skey(c) for c in calls)), nontrivial=len(g.args()) > 0)
                    n0 = len(chk.violations)
                    search_cnf(chk, env, rnd, r, stats)
                    if len(chk.violations) > n0 and chk.violations[-1][0]:
                        try:
                            rep = json.load(open(chk.violations[-1][0]))
                            rep["kind"] = "history"
                            rep["history"] = ["c = %s()" % ("CNFizer" if kind == "cnf" else "PolarityCNFizer")] + ["c.convert(%s)" % c.serialize() for c in calls]
                            json.dump(rep, open(chk.violations[-1][0], "w"), indent=1, default=str)
                        except (OSError, ValueError):
                            pass
                    r["conv"] = None
                if raised or not steps:
                    continue
                hstats["histories"] += 1
                roots = [x for st in steps for x in st[0]]
                hcases.append((roots, (lambda nm, kind=kind, steps=steps: "(%s, [%s])" % ("true" if kind == "pol" else "false",
                                                                                         "; ".join("(%s)" % st[1](nm) for st in steps)))))
                hmeta.append((kind, " ;; ".join(c.serialize()[:120] for c in calls)))
        if b == 0:
            chk.sample({"kind": "cnf", "formula": fs[-1].serialize()[:300]})
            if hmeta:
                chk.sample({"kind": "%s history (one object)" % hmeta[-1][0], "calls": hmeta[-1][1]})
    hfiles = termcases.write(chk.dir, "cnfh", "From PySMT.models Require Import Oracles Cnf.", "bool * list (%s)" % STEP_T,
                             CNF_HIST_OK.replace("STEP_T", STEP_T), hcases, shard=30)
    hbad, herrs = termcases.run(hfiles)
    chk.cov.setdefault("correspondence", {}).update({"cnf_history_cases": len(hcases), "cnf_history_calls": hstats["calls"],
                                                     "cnf_history_disagreements": len(hbad) + len(herrs)})
    for i in hbad[:4]:
        chk.note("CNF model/implementation disagreement (%s) on the history %s" % hmeta[i])
        chk.cov["correspondence"].setdefault("cnf_history_examples", []).append(list(hmeta[i]))
    for e in herrs[:2]:
        chk.note("CNF history case file error: %s" % e["error"][-400:])
    files = termcases.write(chk.dir, "cnf", "From PySMT.models Require Import Oracles Cnf.", CASE_T, OK_DEF.replace("CASE_T", CASE_T), cases, shard=60)
    bad, errs = termcases.run(files)
    chk.cov.setdefault("correspondence", {}).update({"cnf_cases": len(cases), "cnf_disagreements": len(bad) + len(errs),
                                                     "cnf_impl_raised": stats["errors"]})
    chk.cov["search_cnf"] = stats
    for i in bad[:4]:
        chk.note("CNF model/implementation disagreement (%s) on %s" % meta[i])
        chk.cov["correspondence"].setdefault("cnf_examples", []).append(list(meta[i]))
    for e in errs[:2]:
        chk.note("CNF case file error: %s" % e["error"][-400:])
    return not bad and not errs and not hbad and not herrs


# ------------------------------------------------------------------------------------------
# Ackermannization
# ------------------------------------------------------------------------------------------
class UFGen(object):
    """QF formulas over Int with nested applications of several function symbols."""

    def __init__(self, env, rnd, flat=False):
        from pysmt.typing import INT, BOOL, FunctionType
        self.m = m = env.formula_manager
        self.rnd = rnd
        self.flat = flat
        self.xs = [m.Symbol(n, INT) for n in ("x", "y", "z")]
        self.bs = [m.Symbol(n, BOOL) for n in ("p", "q")]
        self.f = m.Symbol("f", FunctionType(INT, [INT]))
        self.g = m.Symbol("g", FunctionType(INT, [INT, INT]))
        self.h = m.Symbol("h", FunctionType(INT, [INT, BOOL]))
        self.pr = m.Symbol("pr", FunctionType(BOOL, [INT]))

    def term(self, d, inside_app=False):
        r, m = self.rnd, self.m
        if d <= 0 or r.random() < 0.2:
            return r.choice(self.xs + [m.Int(0), m.Int(1)])
        k = r.choice(["f", "f", "g", "h", "plus", "ite"])
        if inside_app and self.flat and k in ("plus", "ite"):
            k = "f"
        if k == "f":
            return m.Function(self.f, [self.term(d - 1, True)])
        if k == "g":
            return m.Function(self.g, [self.term(d - 1, True), self.term(d - 1, True)])
        if k == "h":
            return m.Function(self.h, [self.term(d - 1, True), r.choice(self.bs) if self.flat or r.random() < 0.5 else self.atom(d - 1)])
        if k == "plus":
            return m.Plus(self.term(d - 1), self.term(d - 1))
        return m.Ite(self.atom(d - 1), self.term(d - 1), self.term(d - 1))

    def atom(self, d):
        r, m = self.rnd, self.m
        k = r.choice(["eq", "le", "pr", "b"])
        if k == "eq":
            return m.Equals(self.term(d), self.term(d))
        if k == "le":
            return m.LE(self.term(d), self.term(d))
        if k == "pr":
            return m.Function(self.pr, [self.term(d, True)])
        return r.choice(self.bs)

    def formula(self, d):
        r, m = self.rnd, self.m
        if d <= 0 or r.random() < 0.3:
            return self.atom(r.randint(0, 2))
        k = r.choice(["and", "or", "not", "implies", "iff"])
        if k == "and":
            return m.And(self.formula(d - 1), self.formula(d - 1))
        if k == "or":
            return m.Or(self.formula(d - 1), self.formula(d - 1))
        if k == "not":
            return m.Not(self.formula(d - 1))
        if k == "implies":
            return m.Implies(self.formula(d - 1), self.formula(d - 1))
        return m.Iff(self.formula(d - 1), self.formula(d - 1))


# ------------------------------------------------------------------------------------------
# exact small-domain oracle for the pure equality/UF families (wide functions, histories)
# ------------------------------------------------------------------------------------------
def euf_pure(f):
    return _euf_evaluable([f])


def euf_eval(n, env, funs, memo):
    """Direct evaluation (own code): env symbol -> value, funs function symbol -> callable(tuple)."""
    op = _ops()
    if n in memo:
        return memo[n]
    t = n.node_type()
    if t == op.SYMBOL:
        v = env[n]
    elif t in (op.INT_CONSTANT, op.BOOL_CONSTANT):
        v = n.constant_value()
    elif t == op.AND:
        v = all([euf_eval(a, env, funs, memo) for a in n.args()])
    elif t == op.OR:
        v = any([euf_eval(a, env, funs, memo) for a in n.args()])
    elif t == op.NOT:
        v = not euf_eval(n.arg(0), env, funs, memo)
    elif t == op.IMPLIES:
        v = (not euf_eval(n.arg(0), env, funs, memo)) or euf_eval(n.arg(1), env, funs, memo)
    elif t in (op.IFF, op.EQUALS):
        v = euf_eval(n.arg(0), env, funs, memo) == euf_eval(n.arg(1), env, funs, memo)
    elif t == op.ITE:
        v = euf_eval(n.arg(1), env, funs, memo) if euf_eval(n.arg(0), env, funs, memo) else euf_eval(n.arg(2), env, funs, memo)
    elif t == op.FUNCTION:
        v = funs[n.function_name()](tuple(euf_eval(a, env, funs, memo) for a in n.args()))
    elif t == op.PLUS:
        v = sum(euf_eval(a, env, funs, memo) for a in n.args())
    elif t == op.MINUS:
        v = euf_eval(n.arg(0), env, funs, memo) - euf_eval(n.arg(1), env, funs, memo)
    elif t == op.TIMES:
        v = 1
        for a in n.args():
            v *= euf_eval(a, env, funs, memo)
    elif t == op.LE:
        v = euf_eval(n.arg(0), env, funs, memo) <= euf_eval(n.arg(1), env, funs, memo)
    elif t == op.LT:
        v = euf_eval(n.arg(0), env, funs, memo) < euf_eval(n.arg(1), env, funs, memo)
    else:
        raise ValueError("euf_eval: node %s" % n)
    memo[n] = v
    return v


def _dom(sym, ints=(0, 1)):
    return (False, True) if sym.symbol_type().is_bool_type() else ints


def _tables(rnd, fsyms):
    """A few total interpretations of the function symbols: injective on argument tuples (so two
    applications differ whenever their arguments do), and random ones over the small domain."""
    def mk(kind, seed):
        tabs = {}
        for fs in fsyms:
            ret_bool = fs.symbol_type().return_type.is_bool_type()
            memo = {}

            def fn(args, memo=memo, ret_bool=ret_bool, kind=kind, r=random.Random("%s|%s|%s" % (seed, fs.symbol_name(), kind))):
                if args not in memo:
                    if kind == "inj" and not ret_bool:
                        memo[args] = 10 + len(memo)
                    elif kind == "inj":
                        memo[args] = (len(memo) % 2 == 0)
                    else:
                        memo[args] = (r.random() < 0.5) if ret_bool else r.choice((0, 1))
                return memo[args]
            tabs[fs] = fn
        return tabs
    s = rnd.getrandbits(32)
    return [("injective", mk("inj", s)), ("random-a", mk("ra", s)), ("random-b", mk("rb", s))]


def exact_ack_check(rnd, f, out, c2t, max_ext=4000):
    """Exact refutation search over a small domain for pure equality/UF inputs:
    (a) every interpretation (variables over {0,1}, several function tables) satisfying f extends
        over the fresh constants to one satisfying out: first the canonical extension
        c_app := value(app), then every value of the constants among the values in play plus one
        new value per constant (enough for a pure equality formula);
    (b) every assignment of variables and constants over {0,1} satisfying out satisfies f under
        the function tables read off the constants, or under some table over the small domain.
    Returns None or (kind, witness-dict)."""
    nodes = tocoq.topo([f])
    fsyms = sorted(set(n.function_name() for n in nodes if n.is_function_application()), key=lambda x: x.symbol_name())
    fset = set(fsyms)
    # the variables of f and of every recorded application (a reused object's result may mention
    # constants of applications of earlier formulas)
    vs = sorted(set(n for n in tocoq.topo([f] + list(c2t.values())) if n.is_symbol() and not n.symbol_type().is_function_type()
                    and n not in c2t), key=lambda x: x.symbol_name())
    ks = sorted((n for n in tocoq.topo([out]) if n.is_symbol() and n not in vs and not n.symbol_type().is_function_type()),
                key=lambda x: x.symbol_name())
    if len(vs) > 7 or len(ks) > 8:
        return None
    apps = sorted(c2t.items(), key=lambda kv: len(tocoq.topo([kv[1]])))
    allf = sorted(set(t.function_name() for _, t in apps) | fset, key=lambda x: x.symbol_name())
    tables = _tables(rnd, allf)
    # (a)
    for vals in itertools.product(*[_dom(v) for v in vs]):
        env = dict(zip(vs, vals))
        for tname, tabs in tables:
            if euf_eval(f, env, tabs, {}) is not True:
                continue
            env2 = dict(env)
            m0 = {}
            for c, t in apps:
                env2[c] = euf_eval(t, env, tabs, m0)
            if all(k in env2 for k in ks) and euf_eval(out, env2, {}, {}) is True:
                continue
            inplay = set(v for v in env2.values() if not isinstance(v, bool))
            cand = sorted(inplay | set(range(100, 100 + len(ks))))
            doms = [(False, True) if k.symbol_type().is_bool_type() else cand for k in ks]
            n, found = 1, False
            for d in doms:
                n *= len(d)
            it = itertools.product(*doms) if n <= max_ext else (tuple(rnd.choice(d) for d in doms) for _ in range(max_ext))
            for kv in it:
                env3 = dict(env)
                env3.update(zip(ks, kv))
                if euf_eval(out, env3, {}, {}) is True:
                    found = True
                    break
            if not found:
                return ("complete", {"variables": {str(k): v for k, v in env.items()}, "function_table": tname,
                                     "applications": {t.serialize(): euf_eval(t, env, tabs, {}) for _, t in apps},
                                     "extensions_tried": min(n, max_ext), "exhaustive": n <= max_ext})
    # (b)
    syms = vs + ks
    doms = [_dom(x) for x in syms]
    total = 1
    for d in doms:
        total *= len(d)
    it = itertools.product(*doms) if total <= 1024 else (tuple(rnd.choice(d) for d in doms) for _ in range(1024))
    for vals in it:
        env = dict(zip(syms, vals))
        if euf_eval(out, env, {}, {}) is not True:
            continue
        tabs, conflict = {}, False
        store = dict((fs, {}) for fs in allf)
        for fs in allf:
            tabs[fs] = (lambda args, d=store[fs], b=fs.symbol_type().return_type.is_bool_type(): d.get(args, False if b else 0))
        for c, t in apps:
            if c not in env:
                env[c] = False if c.symbol_type().is_bool_type() else 0
            a = tuple(euf_eval(x, env, tabs, {}) for x in t.args())
            d = store[t.function_name()]
            if a in d and d[a] != env[c]:
                conflict = True
            else:
                d[a] = env[c]
        if euf_eval(f, env, tabs, {}) is True:
            continue
        # some other function?  all tables over the small domain when there are few, else samples
        ok = False
        for _ in range(200):
            for _, t2 in _tables(rnd, fsyms)[1:]:
                if euf_eval(f, env, t2, {}) is True:
                    ok = True
                    break
            if ok:
                break
        if not ok:
            return ("sound", {"assignment": {str(k): v for k, v in env.items() if k in syms}, "tables_from_constants_conflict": conflict,
                              "other_tables_tried": 400})
    return None


def report_exact(chk, what, wit, f, out, history=None):
    expl = {"complete": "an interpretation satisfying the input has no extension over the fresh constants satisfying the output",
            "sound": "an assignment satisfies the output but no interpretation of the eliminated functions makes the input true"}[what]
    rep = {"kind": "history" if history else "input", "what": "ackermannization: " + expl, "formula": f.serialize(), "output": out.serialize(),
           "witness": wit, "oracle": "exhaustive evaluation over the domain {0,1} (harness/c11.py: exact_ack_check)"}
    if history:
        rep["history"] = ["a = Ackermannizer()"] + ["a.do_ackermannization(%s)" % h.serialize() for h in history]
        rep["repro"] = "one Ackermannizer object, the calls of `history` in order; the last result is `output`"
    else:
        rep["repro"] = repro("ack", f)
    chk.violation(rep, key="ack-%s%s:%s" % ("hist-" if history else "", what, short_key(f)))


class WideGen(object):
    """Two or three applications of a function of arity 3-4 over 4-5 argument variables with
    repeated arguments across positions (incl. the cross arrangement f(a,c,a) / f(b,d,c)), in
    small Boolean combinations of equalities."""

    def __init__(self, env, rnd):
        from pysmt.typing import INT, FunctionType
        self.m = m = env.formula_manager
        self.rnd = rnd
        self.vars = [m.Symbol(n, INT) for n in "abcde"]
        self.f3 = m.Symbol("w3", FunctionType(INT, [INT, INT, INT]))
        self.f4 = m.Symbol("w4", FunctionType(INT, [INT, INT, INT, INT]))

    def apps(self):
        r, m = self.rnd, self.m
        fn = r.choice([self.f3, self.f3, self.f4])
        ar = 3 if fn is self.f3 else 4
        pool = r.sample(self.vars, r.choice([4, 4, 5]))
        tuples = []
        if r.random() < 0.35:
            a, b, c, d = pool[:4]
            t1, t2 = [a, c, a], [b, d, c]
            perm = list(range(3))
            r.shuffle(perm)
            t1, t2 = [t1[i] for i in perm], [t2[i] for i in perm]
            while len(t1) < ar:
                k = r.randrange(len(t1) + 1)
                x, y = r.choice(pool), r.choice(pool)
                t1.insert(k, x)
                t2.insert(k, y if r.random() < 0.5 else x)
            tuples = [t1, t2]
        while len(tuples) < r.choice([2, 2, 3]):
            tuples.append([r.choice(pool) for _ in range(ar)])
        return pool, [m.Function(fn, t) for t in tuples]

    def formula(self):
        r, m = self.rnd, self.m
        pool, apps = self.apps()
        def atom():
            k = r.random()
            if k < 0.4:
                return m.Equals(*r.sample(apps, 2)) if len(apps) > 1 else m.Equals(apps[0], r.choice(pool))
            if k < 0.8:
                return m.Equals(*r.sample(pool, 2))
            return m.Equals(r.choice(apps), r.choice(pool))
        def form(d):
            if d <= 0 or r.random() < 0.3:
                a = atom()
                return m.Not(a) if r.random() < 0.4 else a
            k = r.choice(["and", "or", "implies", "not"])
            if k == "and":
                return m.And(form(d - 1), form(d - 1))
            if k == "or":
                return m.Or(form(d - 1), form(d - 1))
            if k == "implies":
                return m.Implies(form(d - 1), form(d - 1))
            return m.Not(form(d - 1))
        k = r.random()
        if k < 0.3:
            return m.Not(m.Equals(apps[0], apps[1]))
        if k < 0.5:
            eqs = [m.Equals(*r.sample(pool, 2)) for _ in range(r.choice([1, 2, 3]))]
            return m.And(eqs + [m.Not(m.Equals(apps[0], apps[1]))])
        return m.And(form(2), m.Not(m.Equals(apps[0], apps[1]))) if r.random() < 0.5 else form(2)


class HistGen(object):
    """Formulas for histories on ONE Ackermannizer: later formulas are built from applications
    seen in earlier calls (all / some / none of their applications)."""

    def __init__(self, env, rnd):
        from pysmt.typing import INT, FunctionType
        self.m = m = env.formula_manager
        self.rnd = rnd
        self.xs = [m.Symbol(n, INT) for n in "xyz"]
        self.f = m.Symbol("f", FunctionType(INT, [INT]))
        self.g = m.Symbol("g", FunctionType(INT, [INT, INT]))

    def new_app(self, d=1):
        r, m = self.rnd, self.m
        arg = lambda: r.choice(self.xs) if d <= 0 or r.random() < 0.7 else self.new_app(d - 1)
        return m.Function(self.f, [arg()]) if r.random() < 0.65 else m.Function(self.g, [arg(), arg()])

    def formula(self, seen, mode):
        r, m = self.rnd, self.m
        seen = list(seen)
        def term():
            if mode == "all" and seen:
                return r.choice(seen + self.xs[:1]) if r.random() < 0.8 else r.choice(self.xs)
            if mode == "some" and seen and r.random() < 0.5:
                return r.choice(seen)
            if r.random() < 0.25:
                return r.choice(self.xs)
            return self.new_app() if mode != "all" or not seen else r.choice(seen)
        def atom():
            a = m.Equals(term(), term())
            return m.Not(a) if r.random() < 0.4 else a
        k = r.random()
        if k < 0.35 and len(seen) >= 2 and mode == "all":
            # x = y & f(x) != f(y) over two seen applications of one function
            byf = {}
            for t in seen:
                byf.setdefault(t.function_name(), []).append(t)
            cands = [v for v in byf.values() if len(v) >= 2]
            if cands:
                t1, t2 = r.sample(r.choice(cands), 2)
                eqs = [m.Equals(a, b) for a, b in zip(t1.args(), t2.args()) if a is not b]
                return m.And(eqs + [m.Not(m.Equals(t1, t2))])
        n = r.choice([1, 2, 2, 3])
        parts = [atom() for _ in range(n)]
        return m.And(parts) if r.random() < 0.6 else m.Or(parts)


def _ren_key(n, cmap, memo):
    """Structural key up to And/Or order, orientation of = / <->, and the names of the fresh
    constants (cmap: constant -> key of its application)."""
    op = _ops()
    if n in memo:
        return memo[n]
    if n in cmap:
        k = ("CONST", cmap[n])
    else:
        ks = [_ren_key(a, cmap, memo) for a in n.args()]
        nt = n.node_type()
        if nt in (op.AND, op.OR):
            ks = tuple(sorted(set(ks), key=repr))
        elif nt in (op.EQUALS, op.IFF):
            ks = tuple(sorted(ks, key=repr))
        else:
            ks = tuple(ks)
        pay = tocoq.skey(n)[1] if not n.args() else None
        k = (nt, pay, ks)
    memo[n] = k
    return k


def _split_result(out, c2t):
    """(set of implications, rewritten formula) of a do_ackermannization result, decided from the
    public constant->application dictionary: there are implications iff some function has two
    recorded applications."""
    cnt = {}
    for t in c2t.values():
        cnt[t.function_name()] = cnt.get(t.function_name(), 0) + 1
    if not any(v >= 2 for v in cnt.values()):
        return [], out
    if not (out.is_and() and len(out.args()) == 2):
        return None, out
    imps, sub = out.arg(0), out.arg(1)
    return (list(imps.args()) if imps.is_and() else [imps]), sub


def compare_with_fresh(env, f, out, c2t):
    """(i) the same formula on a NEW object: same rewritten formula and every implication of the
    new object's result among the reused object's, up to the names of the constants."""
    from pysmt.rewritings import Ackermannizer
    fr = Ackermannizer(env)
    fout = fr.do_ackermannization(f)
    fc2t = fr.get_const_to_term_dict()
    k1 = dict((c, tocoq.skey(t)) for c, t in c2t.items())
    k2 = dict((c, tocoq.skey(t)) for c, t in fc2t.items())
    i1, s1 = _split_result(out, c2t)
    i2, s2 = _split_result(fout, fc2t)
    m1, m2 = {}, {}
    if i1 is None or i2 is None:
        return "the result is not of the form And(consistency, rewritten formula) although one function has two recorded applications: %s" % out.serialize()
    if _ren_key(s1, k1, m1) != _ren_key(s2, k2, m2):
        return "the rewritten formula differs from a new object's: %s vs %s" % (s1.serialize(), s2.serialize())
    have = set(_ren_key(i, k1, m1) for i in i1)
    for i in i2:
        if _ren_key(i, k2, m2) not in have:
            return "the consistency implication %s of a new object's result is missing" % i.serialize()
    return None


# ------------------------------------------------------------------------------------------
# deep-difference family: terms identical down to depth d that differ at one leaf below
# (identity by PRINTED form would confuse them: str()/repr() of an FNode is serialize(threshold=5),
# which prints everything below depth 5 as "...")
# ------------------------------------------------------------------------------------------
class DeepGen(object):
    def __init__(self, env, rnd):
        from pysmt.typing import INT, BOOL, FunctionType
        self.m = m = env.formula_manager
        self.rnd = rnd
        self.bv = [m.Symbol(n, BOOL) for n in ("da", "db", "dc", "dd", "de", "dg")]
        self.bl = [m.Symbol(n, BOOL) for n in ("dx", "dy", "dz")]
        self.iv = [m.Symbol(n, INT) for n in ("ia", "ib", "ic", "id", "ie", "ig")]
        self.il = [m.Symbol(n, INT) for n in ("iu", "iv", "iw")]
        self.pb = m.Symbol("pb", FunctionType(BOOL, [BOOL]))
        self.pi = m.Symbol("pi", FunctionType(BOOL, [INT]))
        self.fi = m.Symbol("fi", FunctionType(INT, [INT]))
        self.fb = m.Symbol("fb", FunctionType(INT, [BOOL]))

    def bchain(self, d, leaf, nv=6):
        m, t = self.m, leaf
        for level in range(d, 0, -1):
            v = self.bv[(level - 1) % nv]
            t = m.Or(v, t) if level % 2 == 1 else m.And(v, t)
        return t

    def ichain(self, d, leaf, nv=6):
        m, t = self.m, leaf
        for level in range(d, 0, -1):
            v = self.iv[(level - 1) % nv]
            t = m.Plus(v, t) if level % 2 == 1 else m.Minus(v, t)
        return t

    def ack_inputs(self, d, all_shapes):
        m, r = self.m, self.rnd
        x, y, z = self.bl
        u, v, w = self.il
        tx, ty = self.bchain(d, x), self.bchain(d, y)
        tu, tv = self.ichain(d, u), self.ichain(d, v)
        P, Pi, F, Fb = (lambda t: m.Function(self.pb, [t])), (lambda t: m.Function(self.pi, [t])), \
            (lambda t: m.Function(self.fi, [t])), (lambda t: m.Function(self.fb, [t]))
        shapes = [m.And(P(tx), m.Not(P(ty)), m.Iff(x, y)), m.Iff(P(tx), P(ty)),
                  m.And(m.Iff(x, y), m.Not(m.Equals(Fb(tx), Fb(ty)))),
                  m.And(m.Equals(u, v), m.Not(m.Equals(F(tu), F(tv)))), m.And(Pi(tu), m.Not(Pi(tv)), m.Equals(u, v)),
                  m.Implies(m.Equals(u, v), m.Equals(F(tu), F(tv)))]
        # triples over 5 chain variables (8 symbols)
        t3 = [self.bchain(d, l, nv=5) for l in (x, y, z)]
        shapes.append(m.And(P(t3[0]), m.Not(P(t3[1])), P(t3[2]), m.Iff(x, y)))
        i3 = [self.ichain(d, l, nv=5) for l in (u, v, w)]
        shapes.append(m.And(m.Equals(v, w), m.Equals(F(i3[0]), u), m.Not(m.Equals(F(i3[1]), F(i3[2])))))
        return shapes if all_shapes else r.sample(shapes, 3)

    def cnf_inputs(self, d, all_shapes):
        m, r = self.m, self.rnd
        x, y, z = self.bl
        u, v, w = self.il
        tx, ty = self.bchain(d, x), self.bchain(d, y)
        tu, tv = self.ichain(d, u), self.ichain(d, v)
        P, Pi = (lambda t: m.Function(self.pb, [t])), (lambda t: m.Function(self.pi, [t]))
        i0 = self.iv[0]
        shapes = [m.And(tx, m.Not(ty)), m.Iff(tx, ty), m.And(tx, m.Not(ty), m.Iff(x, y)), m.Or(m.Not(tx), ty),   # (iii) conjuncts
                  m.And(P(tx), m.Not(P(ty))), m.And(P(tx), m.Not(P(ty)), m.Iff(x, y)),                        # (ii) atoms
                  m.And(m.LE(tu, i0), m.Not(m.LE(tv, i0))), m.And(Pi(tu), m.Not(Pi(tv)), m.Equals(u, v)),
                  m.Or(m.Equals(tu, tv), m.Not(m.Equals(u, v)))]
        t3 = [self.bchain(d, l, nv=5) for l in (x, y, z)]
        shapes.append(m.And(t3[0], m.Not(t3[1]), m.Or(t3[2], m.Not(x))))
        return shapes if all_shapes else r.sample(shapes, 3)

    def name_clash_inputs(self):
        """Symbols whose NAME is another term's printed form, next to that term."""
        m = self.m
        a, b = self.bv[0], self.bv[1]
        x, y = self.bl[0], self.bl[1]
        t1 = m.And(a, b)
        s1 = m.Symbol(t1.serialize())                       # the symbol named "(a & b)"
        deep = self.bchain(7, x)
        s2 = m.Symbol(str(deep))                            # named like the truncated print of deep
        s3 = m.Symbol("(! a)")
        P = lambda t: m.Function(self.pb, [t])
        cnf = [m.And(s1, m.Not(t1)), m.Iff(s1, t1), m.And(s2, m.Not(deep)), m.Or(s3, m.Not(m.Not(a))), m.And(P(s1), m.Not(P(t1)))]
        ack = [m.And(P(s1), m.Not(P(t1))), m.And(P(s2), m.Not(P(deep)), m.Iff(x, y)), m.Iff(P(s3), P(m.Not(a))),
               m.And(P(s1), m.Not(P(t1)), m.Iff(s1, t1))]
        return cnf, ack


ACK_T = "term * nat * list string * term * nat"
ACK_OK = """
Definition ok (c : ACK_T) : bool :=
  let '(f, guess, names, exp, eguess) := c in
  let (res, st) := ackermannize f (init_astate guess names) in
  sac_eqb res exp && Nat.eqb (fresh_guess (amgr st)) eguess.
"""


ACK_HIST_OK = """
(* a history on ONE Ackermannizer: _terms_dict and _funs_to_args persist between the calls; the
   manager state is the one observed before each call *)
Fixpoint run_hist (steps : list (ACK_T)) (tm : list (term * term)) (fs : list (var * list (list term))) : bool :=
  match steps with
  | [] => true
  | (f, guess, names, exp, eguess) :: r =>
      let st := {| amgr := {| fresh_guess := guess; mnames := names |}; terms := tm; funs := fs |} in
      let (res, st') := ackermannize f st in
      sac_eqb res exp && Nat.eqb (fresh_guess (amgr st')) eguess && run_hist r (terms st') (funs st')
  end.
Definition ok (c : list (ACK_T)) : bool := run_hist c [] [].
"""


def nested_class(f):
    """Independent statement of the known finding's input class: some application has an
    argument that is not an application but contains one."""
    has = {}
    for n in tocoq.topo([f]):
        has[n] = n.is_function_application() or any(has[a] for a in n.args())
    for n in tocoq.topo([f]):
        if n.is_function_application():
            for a in n.args():
                if not a.is_function_application() and has[a]:
                    return True
    return False


def search_ack(chk, env, rnd, f, out, acker, stats, n_complete=4, n_sound=12, small=False):
    from . import refeval
    apps_left = [n for n in tocoq.topo([out]) if n.is_function_application()]
    if apps_left:
        key = KNOWN_ACK_NESTED if nested_class(f) else "ack-shape:%s" % short_key(f)
        chk.violation({"kind": "input", "what": "ackermannization: the result still contains the application %s" % apps_left[0].serialize(),
                       "formula": f.serialize(), "output": out.serialize(), "repro": repro("ack", f)}, key=key)
    c2t = acker.get_const_to_term_dict()
    apps = sorted(c2t.items(), key=lambda kv: len(tocoq.topo([kv[1]])))
    # (a) completeness: each constant := the value of its application
    for _ in range(n_complete):
        it = refeval.random_interp(rnd, [f], int_range=((0, 1) if small else (-2, 2)), div0="raise")
        try:
            vf, ex = refeval.evaluate_ex(f, it)
            if not ex:
                continue
            it2 = refeval.interp_updated(it, dict((c, refeval.evaluate_ex(t, it)[0]) for c, t in c2t.items()))
            vo, ex2 = refeval.evaluate_ex(out, it2)
        except refeval.RefEvalError:
            stats["skipped"] += 1
            continue
        stats["complete_checked"] += 1
        if vf is True and vo is not True:
            chk.violation({"kind": "input", "what": "ackermannization: an interpretation satisfying the input, extended by c_app := value(app), falsifies the output",
                           "formula": f.serialize(), "output": out.serialize(), "interp": it.describe(), "repro": repro("ack", f),
                           "oracle": "harness/refeval.py"}, key="ack-complete:%s" % short_key(f))
            return
    if apps_left:
        return
    # (b) soundness: an interpretation of the output's symbols satisfying it, with the tables
    # F(value of args) := value of c_app, satisfies the input
    for _ in range(n_sound):
        it = refeval.random_interp(rnd, [out], int_range=((0, 1) if small else (-1, 1)), div0="raise")
        try:
            vo, ex = refeval.evaluate_ex(out, it)
            if vo is not True or not ex:
                continue
            it2 = it.copy()
            it2.functions = {}
            tabs = {}
            conflict = False
            for c, t in apps:
                fn = t.function_name()
                vals = tuple(refeval.evaluate_ex(a, it2)[0] for a in t.args())
                tab = tabs.setdefault(fn, {})
                v = it.value(c)
                if vals in tab and tab[vals] != v:
                    conflict = True
                else:
                    tab[vals] = v
                it2.set_function(fn, tab)
            vf, ex2 = refeval.evaluate_ex(f, it2)
        except refeval.RefEvalError:
            stats["skipped"] += 1
            continue
        stats["sound_checked"] += 1
        if vf is not True:
            chk.violation({"kind": "input", "what": "ackermannization: an interpretation satisfies the output but the function tables read off the constants do not satisfy the input%s" % (" (tables inconsistent)" if conflict else ""),
                           "formula": f.serialize(), "output": out.serialize(), "interp": it.describe(), "repro": repro("ack", f),
                           "oracle": "harness/refeval.py"}, key="ack-sound:%s" % short_key(f))
            return


def ack_part(chk, rnd, tier):
    from pysmt.rewritings import Ackermannizer
    nbatches = 6 if tier == "quick" else 50
    cases, meta = [], []
    stats = {"complete_checked": 0, "sound_checked": 0, "skipped": 0, "nested_inputs": 0, "wide_inputs": 0, "deep_inputs": 0, "exact_checked": 0,
             "histories": 0, "history_calls": 0, "history_calls_reusing_all": 0, "history_calls_reusing_some": 0,
             "history_calls_reusing_none": 0, "history_vs_new_object_differs": 0}
    hcases, hmeta, esc = [], [], []
    for b in range(nbatches):
        env = fresh_env()
        m = env.formula_manager
        fs = []
        ug = UFGen(env, rnd, flat=(b % 2 == 1))
        if b == 0:
            x, y = ug.xs[0], ug.xs[1]
            F = lambda t: m.Function(ug.f, [t])
            fs += [m.Equals(F(m.Plus(F(x), m.Int(1))), x), m.And(m.Equals(F(F(x)), x), m.Equals(F(x), m.Int(3))),
                   m.Equals(F(x), F(y)), m.Not(m.Implies(m.Equals(x, y), m.Equals(F(x), F(y)))), m.Equals(x, y),
                   m.Iff(m.Function(ug.pr, [x]), m.Function(ug.pr, [F(y)]))]
        for i in range(30):
            fs.append(ug.formula(rnd.randint(0, 3)))
        if b % 3 == 2:
            fg = FormulaGen(env, rnd, Config(quantifiers=False, strings=False, arrays=False, div=False, nonlinear=False, max_arity=3))
            for i in range(20):
                fs.append(fg.gen(fg.types[0], rnd.randint(1, 4)))
        wg = WideGen(env, rnd)
        nwide = 25 if tier == "quick" else 60
        wide = [wg.formula() for _ in range(nwide)]
        if b == 0:
            a_, b_, c_, d_ = wg.vars[:4]
            t1, t2 = m.Function(wg.f3, [a_, c_, a_]), m.Function(wg.f3, [b_, d_, c_])
            wide += [m.And(m.Equals(a_, b_), m.Equals(c_, d_), m.Not(m.Equals(a_, c_)), m.Not(m.Equals(t1, t2))), m.Not(m.Equals(t1, t2)),
                     m.Not(m.Equals(m.Function(wg.f3, [a_, b_, c_]), m.Function(wg.f3, [b_, a_, c_])))]
        stats["wide_inputs"] += len(wide)
        dg = DeepGen(env, rnd)
        deepf = []
        if b == 0 or (tier != "quick" and b % 10 == 0):
            for d in range(3, 10):
                deepf += dg.ack_inputs(d, all_shapes=(tier != "quick"))
        if b == 0:
            deepf += dg.name_clash_inputs()[1]
        stats["deep_inputs"] += len(deepf)
        wide += deepf
        fs += wide
        wide = set(wide)
        for f in fs:
            before = (m._fresh_guess, list(m.symbols.keys()))
            acker = Ackermannizer(env)
            out = acker.do_ackermannization(f)
            after = m._fresh_guess
            if f in wide and euf_pure(f):
                res = exact_ack_check(rnd, f, out, acker.get_const_to_term_dict())
                stats["exact_checked"] += 1
                if res is not None:
                    report_exact(chk, res[0], res[1], f, out)
            cases.append(([f, out], (lambda nm, f=f, out=out, before=before, after=after:
                                     "(%s, %d%%nat, [%s], %s, %d%%nat)" % (nm[f], before[0], "; ".join(tocoq.cstr(n) for n in before[1]), nm[out], after))))
            meta.append((f.serialize()[:400], nested_class(f)))
            esc.append((f, env))
            chk.count(("ack", tocoq.skey(f)), nontrivial=bool(acker.get_term_to_const_dict()))
            if nested_class(f):
                stats["nested_inputs"] += 1
            search_ack(chk, env, rnd, f, out, acker, stats)
        # ---- histories on one Ackermannizer object ----
        hg = HistGen(env, rnd)
        nh = 8 if tier == "quick" else 20
        for h in range(nh):
            acker = Ackermannizer(env)
            steps, calls = [], []
            ncalls = rnd.choice([2, 3, 3, 4])
            directed = (b == 0 and h == 0)
            for k in range(ncalls):
                seen = list(acker.get_term_to_const_dict().keys())
                if directed:
                    x_, y_ = hg.xs[0], hg.xs[1]
                    fx, fy = m.Function(hg.f, [x_]), m.Function(hg.f, [y_])
                    f = [m.Equals(fx, x_), m.Not(m.Equals(fy, x_)), m.And(m.Equals(x_, y_), m.Not(m.Equals(fx, fy))), m.Equals(fx, fy)][k % 4]
                    mode = "directed"
                else:
                    mode = "none" if k == 0 else rnd.choice(["all", "all", "some", "none"])
                    f = hg.formula(seen, mode)
                napps = [n for n in tocoq.topo([f]) if n.is_function_application()]
                if k > 0 and napps:
                    old = sum(1 for n in napps if n in set(seen))
                    stats["history_calls_reusing_" + ("all" if old == len(napps) else "some" if old else "none")] += 1
                before = (m._fresh_guess, list(m.symbols.keys()))
                out = acker.do_ackermannization(f)
                after = m._fresh_guess
                calls.append(f)
                steps.append((f, before, out, after))
                stats["history_calls"] += 1
                chk.count(("ack-hist", tuple(tocoq.skey(c) for c in calls)), nontrivial=bool(napps))
                c2t = acker.get_const_to_term_dict()
                if any(n.is_function_application() for n in tocoq.topo([out])):
                    chk.violation({"kind": "history", "what": "ackermannization on a reused object: the result still contains an application",
                                   "history": [c.serialize() for c in calls], "output": out.serialize()}, key="ack-hist-shape:%s" % short_key(f))
                res = exact_ack_check(rnd, f, out, c2t)
                stats["exact_checked"] += 1
                if res is not None:
                    report_exact(chk, res[0], res[1], f, out, history=calls)
                diff = compare_with_fresh(env, f, out, c2t)
                if diff:
                    stats["history_vs_new_object_differs"] += 1
                    chk.cov.setdefault("correspondence", {}).setdefault("history_vs_new_object", []).append(
                        {"history": [c.serialize() for c in calls], "difference": diff[:300]})
            stats["histories"] += 1
            roots = [x for st in steps for x in (st[0], st[2])]
            hcases.append((roots, (lambda nm, steps=steps: "[%s]" % "; ".join(
                "(%s, %d%%nat, [%s], %s, %d%%nat)" % (nm[f], bf[0], "; ".join(tocoq.cstr(n) for n in bf[1]), nm[out], af)
                for (f, bf, out, af) in steps))))
            hmeta.append(" ;; ".join(c.serialize()[:150] for c in calls))
        if b == 0:
            chk.sample({"kind": "ackermannization", "formula": fs[-1].serialize()[:300]})
            chk.sample({"kind": "ackermannization history (one object)", "calls": hmeta[-1]})
    hfiles = termcases.write(chk.dir, "ackh", "From PySMT.models Require Import Oracles Cnf Ackermann.", "list (%s)" % ACK_T, ACK_HIST_OK.replace("ACK_T", ACK_T), hcases, shard=30)
    hbad, herrs = termcases.run(hfiles)
    chk.cov.setdefault("correspondence", {}).update({"ack_history_cases": len(hcases), "ack_history_disagreements": len(hbad) + len(herrs)})
    for i in hbad[:4]:
        chk.note("Ackermann model/implementation disagreement on the history %s" % hmeta[i])
        chk.cov["correspondence"].setdefault("ack_history_examples", []).append(hmeta[i])
    for e in herrs[:2]:
        chk.note("Ackermann history case file error: %s" % e["error"][-400:])
    files = termcases.write(chk.dir, "ack", "From PySMT.models Require Import Oracles Cnf Ackermann.", ACK_T, ACK_OK.replace("ACK_T", ACK_T), cases, shard=40)
    bad, errs = termcases.run(files)
    # models/Ackermann.v is the REPAIRED code (build/fixes/C11_ackermann_nested.diff): while the
    # repository is unrepaired, disagreements on the known finding's input class belong to it
    if KNOWN_ACK_NESTED in chk.known_hits:
        attributed = [i for i in bad if meta[i][1]]
        bad = [i for i in bad if not meta[i][1]]
        chk.cov.setdefault("correspondence", {})["ack_disagreements_attributed_to_known_finding"] = len(attributed)
    chk.cov.setdefault("correspondence", {}).update({"ack_cases": len(cases), "ack_disagreements": len(bad) + len(errs)})
    chk.cov["search_ack"] = stats
    for i in bad[:4]:
        chk.note("Ackermann model/implementation disagreement on %s" % meta[i][0])
        chk.cov["correspondence"].setdefault("ack_examples", []).append(meta[i][0])
    for e in errs[:2]:
        chk.note("Ackermann case file error: %s" % e["error"][-400:])
    if (bad or hbad) and not chk.violations:
        # the correspondence differs: escalated search on the disagreeing inputs before settling
        # for no-failing-input-found
        chk.note("escalated Ackermann search on %d disagreeing inputs" % len(bad))
        stats["escalated_inputs"] = 0
        for i in bad[:40]:
            f, env = esc[i]
            import pysmt.environment as E
            E.pop_env()
            E.push_env(env)
            acker = Ackermannizer(env)
            out = acker.do_ackermannization(f)
            stats["escalated_inputs"] += 1
            if euf_pure(f):
                res = exact_ack_check(rnd, f, out, acker.get_const_to_term_dict())
                if res is not None:
                    report_exact(chk, res[0], res[1], f, out)
                    continue
            search_ack(chk, env, rnd, f, out, acker, stats, n_complete=80, n_sound=160, small=True)
    return not bad and not errs and not hbad and not herrs


def run(tier):
    chk = lib.Check("C11", tier)
    rnd = random.Random(chk.seed)
    lib.clean_cases(chk.dir)
    ok = chk.prove(extra_targets=["models/Cnf.vo", "models/Ackermann.vo"])
    corr_ok = cnf_part(chk, rnd, tier)
    corr_ok = ack_part(chk, rnd, tier) and corr_ok
    fresh_env()
    if (not ok or not corr_ok) and not chk.violations:      # a known finding must not hide a broken proof / correspondence
        what = []
        if not ok:
            what.append("proof obligations no longer check: " + lib.proof_failure_summary(chk))
        if not corr_ok:
            what.append("correspondence model<->implementation differs: %s" % chk.cov.get("correspondence"))
        chk.violation({"kind": "obligation", "theorem_or_correspondence": what}, found_input=False)
    return chk.finish(TRUSTED, ASSUMPTIONS, RULE)


def replay(path):
    r = json.load(open(path))
    print(json.dumps(r, indent=1))
    return run("quick")
