"""C04 - hash-consing: one object per structure, faithful accessors, faithful cross-environment copies.

HISTORY correspondence: random interleavings of the FormulaManager constructors (every constant
spelling, Symbol/get_or_create_symbol/FreshSymbol, normalising constructors, Array with permuted /
duplicated / default-valued assignments, normalize between environments) on 1-3 fresh Environments;
the returned node_ids and the final formulae tables are compared with core/Manager.v replayed inside
Coq.  Property-level oracle (independent of the model): interned structural keys (tocoq.skey's definition), blueprint
read-backs through the FNode accessors, same-request/same-outcome, copies structurally equal and
disjoint from the source environment.

Besides the random histories, every run contains MAGNITUDE histories (all documented spellings of a constant / integer
payload at sizes beyond CPython's small-int cache and beyond machine words, arguments computed at run time so that equal
ints / strings are distinct objects) and LIFETIME histories (long-lived destination, many short-lived garbage-collected
sources: object addresses get reused).  The harness itself keeps no id()-keyed entry of a freed node.
"""
import gc
import json
import os
import random
import warnings
import weakref
from fractions import Fraction

import pysmt.operators as op
from pysmt.environment import Environment

from . import gen_all, lib, tocoq

TRUSTED = [
    "Coq 8.16.1 kernel (coqc); vm_compute only inside generated case files and closed Examples; no native_compute",
    "hand model core/Manager.v of FormulaManager (create_node, symbol table, constant caches with Python's cross-type key "
    "equality, normalising constructors, Array ordering by id(), FormulaContextualizer/IdentityDagWalker rebuild, "
    "TypeManager.normalize), tied to pysmt/formula.py, fnode.py, typing.py, walkers/identitydag.py by history "
    "correspondence (returned node_ids and complete final tables, this run's counts below)",
    "models/TypeChecker.v (tc_rule) for the type check create_node performs; tied by C03's exhaustive correspondence",
    "harness/c04.py Interner (hash-consed form of tocoq.skey's structural key) used by the property-level oracle",
    "CPython semantics assumed by the model: ==/hash across int, bool, float, Fraction; dict insertion order; id() "
    "is injective on live objects and stable (nodes are never freed: the manager's table holds them)",
]
ASSUME = [
    "requests mention only nodes of the manager they are sent to (Python cannot name a node that does not exist; mixing "
    "nodes of different managers is outside the property); quantified variables are symbols",
    "histories send no further normalize request to a manager after one failed there (the walker's state after an exception "
    "is C15's subject)",
    "a custom sort name is declared with one arity across the environments of a history; sort names do not clash with "
    "built-in sort names",
    "Pow on constants is modelled for Int/Real bases with integral exponents whose result is exact (no float pow); "
    "BVConcat with more than two arguments is modelled when every argument has a bit-vector width",
    "normalize_copy is proved for array-value-free formulas whose nodes are fixed points of their constructors' normalisation "
    "(copyable); that the implementation's constructors only build such nodes is checked on every node of every history "
    "(nodes_copyable in the case files), not proved",
    "object addresses (id()) enter the model as an arbitrary injective function; the theorems hold for every such function, "
    "the correspondence feeds the observed order",
]
RULE = ("random histories plus, every run: MAGNITUDE histories (every documented spelling of one constant / payload - int, '#b' string, "
        "bare bit string, with and without the redundant width, SBV, BVZero/BVOne, shortcuts, infix - at widths 1..4096 and values near 2^w, "
        "Int/Real/String constants and symbol names as equal-but-not-identical run-time objects: one object, same accessors, no refusal) and "
        "LIFETIME histories (1-2 long-lived destination environments, 30-60 short-lived garbage-collected source environments with their own "
        "non-singleton sorts: each copy equals its source, is the node a native build denotes, has target sorts, shares nothing) and "
        "CONTAINER histories (every Iterable-taking entry point with the same argument list as varargs, list, tuple, set, frozenset, dict, "
        "keys view, deque, generator, map, filter, iter, chain, reversed - empty, singleton, duplicates: one object or one exception class; "
        "replayed in the model as the list form; results copied into a second environment); ALIASING pass over every returned node of "
        "every history (every accessor read, every returned dict/list/set edited in place, read again: unchanged, equal to the args() view, "
        "fresh object per call, printers unchanged, table still maps the content to the node; the final tables are read after the edits); "
        "COMPOSITION history (every normalising / sort-dispatching constructor over operands headed by every operator of the argument sort, "
        "in every sort the head is overloaded for: blueprint read-back, derived sort, replayed in the model); "
        "history = list of constructor calls on 1-3 fresh Environments (about 45 calls each); compared: every returned "
        "node_id / error and the complete final formulae table of every environment, model vs implementation; oracle: "
        "skey injectivity over ALL nodes of every table, blueprint read-backs, same request => same outcome, copies; "
        "distinct = distinct (constructor, argument-shape, outcome) triples")

# ----------------------------------------------------------------------------------------------
# type descriptors (independent of pysmt objects)
# ----------------------------------------------------------------------------------------------
B, I, R, S = ("Bool",), ("Int",), ("Real",), ("Str",)


def BVt(w):
    return ("BV", w)


U0 = ("User", "U", ())
P_I = ("User", "P", (I,))
P_QI = ("User", "P", (("User", "Q", (I,)),))
ARR_II = ("Arr", I, I)
ARR_B4B = ("Arr", BVt(4), B)
ARR_IP = ("Arr", I, P_I)
F_II = ("Fun", (I,), I)
F_IRB = ("Fun", (I, R), B)
F_B4 = ("Fun", (BVt(4),), BVt(4))
F_PI = ("Fun", (P_I,), I)
SCALARS = [B, I, R, S, BVt(1), BVt(4), BVt(8), U0, P_I]
TYPES = SCALARS + [ARR_II, ARR_B4B, F_II, F_IRB, F_B4]
NESTED = [P_QI, ARR_IP, F_PI]          # parametric custom sort below the root


def mkty(env, d):
    import pysmt.typing as T
    tm = env.type_manager
    k = d[0]
    if k == "Bool":
        return T.BOOL
    if k == "Int":
        return T.INT
    if k == "Real":
        return T.REAL
    if k == "Str":
        return T.STRING
    if k == "BV":
        return tm.BVType(d[1])
    if k == "Arr":
        return tm.ArrayType(mkty(env, d[1]), mkty(env, d[2]))
    if k == "Fun":
        return tm.FunctionType(mkty(env, d[2]), [mkty(env, p) for p in d[1]])
    if d[2]:
        return tm.get_type_instance(tm.Type(d[1], len(d[2])), *[mkty(env, a) for a in d[2]])
    return tm.Type(d[1], 0)


def tdesc(t):
    if t.is_bool_type():
        return B
    if t.is_int_type():
        return I
    if t.is_real_type():
        return R
    if t.is_string_type():
        return S
    if t.is_bv_type():
        return BVt(t.width)
    if t.is_array_type():
        return ("Arr", tdesc(t.index_type), tdesc(t.elem_type))
    if t.is_function_type():
        return ("Fun", tuple(tdesc(p) for p in t.param_types), tdesc(t.return_type))
    return ("User", t.basename, tuple(tdesc(a) for a in (t.args or ())))


def cty(d):
    k = d[0]
    if k in ("Bool", "Int", "Real", "Str"):
        return "T" + k
    if k == "BV":
        return "(TBV %s)" % tocoq.z(d[1])
    if k == "Arr":
        return "(TArr %s %s)" % (cty(d[1]), cty(d[2]))
    if k == "Fun":
        return "(TFun [%s] %s)" % ("; ".join(cty(p) for p in d[1]), cty(d[2]))
    return "(TUser %s [%s])" % (tocoq.cstr(d[1]), "; ".join(cty(a) for a in d[2]))


def has_nested_param(d, root=True):
    k = d[0]
    if k == "Arr":
        return has_nested_param(d[1], False) or has_nested_param(d[2], False)
    if k == "Fun":
        return any(has_nested_param(p, False) for p in d[1]) or has_nested_param(d[2], False)
    if k == "User":
        if d[2] and not root:
            return True
        return any(has_nested_param(a, False) for a in d[2])
    return False


def type_registered(tm, t):
    """is the type object (and every component) the instance held by this type manager?"""
    import pysmt.typing as T
    if t in (T.BOOL, T.INT, T.REAL, T.STRING) and any(t is x for x in (T.BOOL, T.INT, T.REAL, T.STRING)):
        return True
    if t.is_bv_type():
        return tm._bv_types.get(t.width) is t
    if t.is_array_type():
        return (tm._array_types.get((t.index_type, t.elem_type)) is t
                and type_registered(tm, t.index_type) and type_registered(tm, t.elem_type))
    if t.is_function_type():
        return (tm._function_types.get((t.return_type, tuple(t.param_types))) is t
                and type_registered(tm, t.return_type) and all(type_registered(tm, p) for p in t.param_types))
    if t.is_custom_type():
        return any(v is t for v in tm._custom_types.values()) and all(type_registered(tm, a) for a in (t.args or ()))
    return False


# ----------------------------------------------------------------------------------------------
# python values and their Coq spelling
# ----------------------------------------------------------------------------------------------
def cpyval(v):
    if type(v) is bool:
        return "(PyBool %s)" % ("true" if v else "false")
    if type(v) is int:
        return "(PyInt %s)" % tocoq.z(v)
    if type(v) is Fraction:
        return "(PyFrac %s %s)" % (tocoq.z(v.numerator), tocoq.z(v.denominator))
    if type(v) is float:
        f = Fraction(v)
        return "(PyFloat %s %s)" % (tocoq.z(f.numerator), tocoq.z(f.denominator))
    if type(v) is tuple:
        return "(PyPair %s %s)" % (tocoq.z(v[0]), tocoq.z(v[1]))
    if type(v) is str:
        return "(PyStr [%s])" % "; ".join(tocoq.z(ord(c)) for c in v)
    raise ValueError(v)


def copt(x):
    return "None" if x is None else "(Some %s)" % tocoq.z(x)


def cids(l):
    return "[%s]" % "; ".join("%d" % i for i in l)


def czs(l):
    return "[%s]" % "; ".join(tocoq.z(i) for i in l)


BVOP = {"BVNot": "BNot", "BVNeg": "BNeg", "BVAnd": "BAnd", "BVOr": "BOr", "BVXor": "BXor", "BVAdd": "BAdd", "BVSub": "BSub",
        "BVMul": "BMul", "BVUDiv": "BUdiv", "BVURem": "BUrem", "BVLShl": "BLshl", "BVLShr": "BLshr", "BVSDiv": "BSdiv",
        "BVSRem": "BSrem", "BVAShr": "BAshr"}
NT = {"BVNot": op.BV_NOT, "BVNeg": op.BV_NEG, "BVAnd": op.BV_AND, "BVOr": op.BV_OR, "BVXor": op.BV_XOR, "BVAdd": op.BV_ADD,
      "BVSub": op.BV_SUB, "BVMul": op.BV_MUL, "BVUDiv": op.BV_UDIV, "BVURem": op.BV_UREM, "BVLShl": op.BV_LSHL,
      "BVLShr": op.BV_LSHR, "BVSDiv": op.BV_SDIV, "BVSRem": op.BV_SREM, "BVAShr": op.BV_ASHR}
# name -> (coq ctor, node type, arity, argument kind)   plain create_node constructors
PLAIN = {
    "Implies": ("(CNode OImplies)", op.IMPLIES, "BB"), "Iff": ("(CNode OIff)", op.IFF, "BB"),
    "Minus": ("(CNode OMinus)", op.MINUS, "NN"), "Equals": ("(CNode OEquals)", op.EQUALS, "XX"),
    "LE": ("(CNode OLe)", op.LE, "NN"), "LT": ("(CNode OLt)", op.LT, "NN"), "Ite": ("(CNode OIte)", op.ITE, "BXX"),
    "BVULT": ("(CNode (OBVRel BUlt))", op.BV_ULT, "VV"), "BVULE": ("(CNode (OBVRel BUle))", op.BV_ULE, "VV"),
    "BVSLT": ("(CNode (OBVRel BSlt))", op.BV_SLT, "VV"), "BVSLE": ("(CNode (OBVRel BSle))", op.BV_SLE, "VV"),
    "BVToNatural": ("(CNode OBVToNat)", op.BV_TONATURAL, "V"),
    "StrLength": ("(CNode (OStr SLength))", op.STR_LENGTH, "S"), "StrContains": ("(CNode (OStr SContains))", op.STR_CONTAINS, "SS"),
    "StrIndexOf": ("(CNode (OStr SIndexOf))", op.STR_INDEXOF, "SSI"), "StrReplace": ("(CNode (OStr SReplace))", op.STR_REPLACE, "SSS"),
    "StrSubstr": ("(CNode (OStr SSubstr))", op.STR_SUBSTR, "SII"), "StrPrefixOf": ("(CNode (OStr SPrefixOf))", op.STR_PREFIXOF, "SS"),
    "StrSuffixOf": ("(CNode (OStr SSuffixOf))", op.STR_SUFFIXOF, "SS"), "StrToInt": ("(CNode (OStr SToInt))", op.STR_TO_INT, "S"),
    "IntToStr": ("(CNode (OStr SFromInt))", op.INT_TO_STR, "I"), "StrCharAt": ("(CNode (OStr SCharAt))", op.STR_CHARAT, "SI"),
    "Select": ("(CNode OSelect)", op.ARRAY_SELECT, "AK"), "Store": ("(CNode OStore)", op.ARRAY_STORE, "AKE"),
}
SWAP = {"GE": ("CGE", op.LE, "NN"), "GT": ("CGT", op.LT, "NN"),
        "BVUGT": ("(CBvSwapRel BUlt)", op.BV_ULT, "VV"), "BVUGE": ("(CBvSwapRel BUle)", op.BV_ULE, "VV"),
        "BVSGT": ("(CBvSwapRel BSlt)", op.BV_SLT, "VV"), "BVSGE": ("(CBvSwapRel BSle)", op.BV_SLE, "VV")}


def isic(n):
    return n.node_type() == op.INT_CONSTANT


def isrc(n):
    return n.node_type() == op.REAL_CONSTANT


def isnum(n):
    return isic(n) or isrc(n)


class Interner(object):
    """independent structural keys as small integers: key(n) = intern((node type, payload, keys of children));
    linear in DAG size (nested tuples would be compared and hashed as trees)"""

    def __init__(self):
        self.tab = {}
        self.memo = {}
        self.cmemo = {}

    @staticmethod
    def payload(n):
        nt = n.node_type()
        if nt in (op.FORALL, op.EXISTS):
            return tuple((v.symbol_name(), tdesc(v.symbol_type())) for v in n.quantifier_vars())
        if nt == op.SYMBOL:
            return (n.symbol_name(), tdesc(n.symbol_type()))
        if nt == op.FUNCTION:
            return (n.function_name().symbol_name(), tdesc(n.function_name().symbol_type()))
        if nt == op.ARRAY_VALUE:
            return tdesc(n.array_value_index_type())
        if nt == op.REAL_CONSTANT:
            v = Fraction(n.constant_value())
            return (v.numerator, v.denominator)
        if nt == op.BOOL_CONSTANT:
            return ("bool", bool(n.constant_value()))
        return n._content.payload

    def intern(self, k):
        r = self.tab.get(k)
        if r is None:
            r = self.tab[k] = len(self.tab)
        return r

    def forget(self, nodes):
        """the memo is keyed by id(): entries of nodes that are about to be freed must go (addresses are reused)"""
        for n in nodes:
            self.memo.pop(id(n), None)
            self.cmemo.pop(id(n), None)

    def key(self, f, canon=False):
        memo = self.cmemo if canon else self.memo
        for n in tocoq.topo([f]):
            if id(n) in memo:
                continue
            kids = [memo[id(c)] for c in n.args()]
            if canon and n.is_array_value():
                prs = sorted(zip(kids[1::2], kids[2::2]))
                kids = [kids[0]] + [x for p in prs for x in p]
            memo[id(n)] = self.intern((canon, n.node_type(), self.payload(n), tuple(kids)))
        return memo[id(f)]


class EnvState(object):
    def __init__(self, k):
        self.k = k
        self.env = Environment()
        self.m = self.env.formula_manager
        self.pool = []            # returned nodes (distinct objects)
        self.pool_ids = set()
        self.norm_dirty = False
        self.outcomes = {}        # request key -> outcome
        self.denot = {}           # denotation key (e.g. ("BV", value, width)) -> the one object every spelling must return
        self.released = False
        self.table_txt = self.addr_txt = None


class History(object):
    """Generates and runs one history; records requests (Coq text, Python text), replies, oracle complaints."""

    def __init__(self, rnd, nenv, raw=False, nested=False, script=None):
        self.rnd = rnd
        self.envs = [EnvState(k) for k in range(nenv)]
        self.raw = raw
        self.nested = nested
        self.reqs = []            # (env index, coq request text)
        self.py = []              # python text
        self.replies = []         # node_id or None
        self.errs = []
        self.kinds = []
        self.complaints = []      # (key, message, op index)
        self.tainted = [set() for _ in range(nenv)]   # ids built from raw create_node nodes
        self.keys = Interner()
        self.tdm = {}             # id(node) -> type descriptor (computed by the node's own environment)
        self.pre = []             # script lines to put before the next call (environment creation / deletion)
        self.lazy = []            # indexes of environments created in the course of the history
        self.collected = 0        # released source environments that were really garbage-collected
        self.strict_err = False   # same request => same exception class too
        self.comp_calls = 0
        self.alias_stats = {"nodes": 0, "reads": 0, "mutable_results": 0, "mutations": 0}
        self.model = True         # replayed in the Coq model (False: entry points outside the model, oracle only)
        self.released_n = 0

    # ------------------------------------------------------------------ helpers
    def td(self, n):
        r = self.tdm.get(id(n))
        if r is None:
            for E in self.envs:
                if not E.released and E.m.formulae.get(n._content) is n:
                    r = self.tdm[id(n)] = tdesc(E.env.stc.get_type(n))
                    break
            else:
                r = tdesc(n.get_type())
        return r

    def name(self, E, n):
        return "n%d_%d" % (E.k, n.node_id())

    def pick(self, E, pred=None):
        c = [n for n in E.pool if pred is None or pred(n)]
        return self.rnd.choice(c) if c else None

    def oftype(self, E, d):
        return self.pick(E, lambda n: self.td(n) == d)

    def kind_arg(self, E, k, ctx):
        """argument for a signature letter; ctx carries choices shared between letters"""
        rnd = self.rnd
        if rnd.random() < 0.07:
            return self.pick(E)                       # possibly ill-typed
        if k == "B":
            return self.oftype(E, B)
        if k == "I":
            return self.oftype(E, I)
        if k == "S":
            return self.oftype(E, S)
        if k == "N":
            if "N" not in ctx:
                ctx["N"] = rnd.choice([I, R])
            return self.oftype(E, ctx["N"])
        if k == "X":
            if "X" not in ctx:
                n = self.pick(E, lambda n: self.td(n)[0] != "Fun")
                ctx["X"] = self.td(n) if n is not None else I
            return self.oftype(E, ctx["X"])
        if k == "V":
            if "V" not in ctx:
                have = sorted(set(self.td(n) for n in E.pool if self.td(n)[0] == "BV"))
                ctx["V"] = rnd.choice(have) if (have and rnd.random() < 0.7) else rnd.choice([BVt(1), BVt(4), BVt(4), BVt(8)])
            return self.oftype(E, ctx["V"])
        if k == "A":
            n = self.pick(E, lambda n: self.td(n)[0] == "Arr")
            if n is not None:
                ctx["A"] = self.td(n)
            return n
        if k == "K":
            return self.oftype(E, ctx["A"][1]) if "A" in ctx else self.pick(E)
        if k == "E":
            return self.oftype(E, ctx["A"][2]) if "A" in ctx else self.pick(E)
        raise ValueError(k)

    def args_for(self, E, sig):
        ctx = {}
        out = []
        for k in sig:
            a = self.kind_arg(E, k, ctx)
            if a is None:
                return None
            out.append(a)
        return out

    # ------------------------------------------------------------------ one operation
    def do(self, E, kind, coq, pytext, thunk, reqkey=None, expect=None, fresh=False, denot=None, must=False):
        """run one call; expect(result) -> None or complaint text (blueprint read-back);
        denot: every call with this key must return the very same object; must: a documented spelling, must not raise"""
        idx = len(self.reqs)
        self.reqs.append((E.k, coq))
        self.kinds.append(kind)
        try:
            with warnings.catch_warnings():
                warnings.simplefilter("ignore")
                n = thunk()
            err = None
        except Exception as ex:   # noqa
            n, err = None, type(ex).__name__
        self.replies.append(None if n is None else n.node_id())
        self.errs.append(err)
        line = ("%s = %s" % (self.name(E, n), pytext)) if n is not None else ("%s   # raises %s" % (pytext, err))
        self.py.append("\n".join(self.pre + [line]))
        self.pre = []
        if must and n is None:
            self.complaints.append(("refused:%s" % kind, "the documented spelling %s raised %s" % (pytext[:300], err), idx))
        if denot is not None and n is not None:
            self.same_object(E, kind, denot, n, pytext, idx)
        if n is not None and id(n) not in E.pool_ids:
            E.pool.append(n)
            E.pool_ids.add(id(n))
        # same request, same outcome (route independence), except FreshSymbol
        if reqkey is not None and not fresh:
            out = ("node", id(n)) if n is not None else (("err", err) if self.strict_err else ("err",))
            old = E.outcomes.get(reqkey)
            if old is None:
                E.outcomes[reqkey] = (out, idx)
            elif old[0] != out:
                self.complaints.append(("route:%s" % reqkey[0], "the call %s returned %s at step %d and %s at step %d of the same history"
                                        % (pytext, "a node" if old[0][0] == "node" else "an error", old[1],
                                           "a different node" if (n is not None and old[0][0] == "node") else ("a node" if n is not None else "an error"), idx), idx))
        if expect is not None and n is not None:
            try:
                msg = expect(n)
            except Exception as ex:   # noqa
                msg = "accessor raised %s: %s" % (type(ex).__name__, ex)
            if msg:
                self.complaints.append(("blueprint:%s" % kind, "%s: %s" % (pytext, msg), idx))
        return n

    def same_object(self, E, kind, denot, n, pytext, idx):
        old = E.denot.get(denot)
        if old is None:
            E.denot[denot] = (n, pytext)
        elif old[0] is not n:
            self.complaints.append(("spelling:%s" % kind, "%s and %s denote the same %s but are different objects (node_id %d and %d)"
                                    % (old[1][:200], pytext[:200], kind, old[0].node_id(), n.node_id()), idx))

    def side(self, E, kind, pytext, thunk, denot=None, pick=None, must=True):
        """a call that must create nothing new (infix / shortcut entry points): not sent to the model - if it did create
        a node the final tables differ; pick(result) selects the node that has to be the denoted object"""
        idx = len(self.reqs) - 1
        before = len(E.m.formulae)
        try:
            with warnings.catch_warnings():
                warnings.simplefilter("ignore")
                r = thunk()
            err = None
        except Exception as ex:   # noqa
            r, err = None, type(ex).__name__
        if self.py:
            self.py[-1] += "\n%s%s" % (pytext, "" if err is None else "   # raises %s" % err)
        if r is None:
            if must:
                self.complaints.append(("refused:%s" % kind, "%s raised %s" % (pytext[:300], err), idx))
            return None
        if len(E.m.formulae) != before:
            self.complaints.append(("spelling:%s" % kind, "%s created %d new node(s) although every part had been built before"
                                    % (pytext[:300], len(E.m.formulae) - before), idx))
        if denot is not None:
            self.same_object(E, kind, denot, pick(r) if pick else r, pytext, idx)
        return r

    # ------------------------------------------------------------------ environments that come and go
    def add_env(self):
        E = EnvState(len(self.envs))
        self.envs.append(E)
        self.tainted.append(set())
        self.lazy.append(E.k)
        self.pre.append("m%d = Environment().formula_manager" % E.k)
        return E

    def release(self, E):
        """the environment goes out of scope: judge its table, keep what the model needs, drop every reference"""
        self.finish_env(E)
        E.table_txt, E.addr_txt = self._table_txt(E), self._addr_txt(E)
        E.nnodes = len(E.m.formulae)
        nodes = list(E.m.formulae.values())
        self.keys.forget(nodes)
        for n in nodes:
            self.tdm.pop(id(n), None)
        del nodes
        wr = weakref.ref(E.env)
        E.released = True
        E.env = E.m = None
        E.pool, E.pool_ids, E.outcomes, E.denot = [], set(), {}, {}
        import pysmt.environment
        pysmt.environment.get_env().stc.memoization.clear()      # FNode.get_type()/bv_width() of a Select go through the global environment
        gc.collect()
        self.released_n += 1
        self.collected += wr() is None
        self.pre.append("for _v in [v for v in list(globals()) if v.startswith('n%d_')]: del globals()[_v]\ndel m%d, _v; gc.collect()" % (E.k, E.k))

    # ------------------------------------------------------------------ generators of calls
    def g_symbol(self, E):
        rnd = self.rnd
        nm = rnd.choice(["x", "y", "z", "p", "q", "f", "g", "v", "w", "FV0", "FV1", "FV2", "a0b", "", "s"])
        pref = {"x": I, "y": R, "z": B, "p": BVt(4), "q": BVt(8), "f": F_II, "g": F_IRB, "v": ARR_II, "w": ARR_B4B, "s": S,
                "FV0": U0, "FV1": P_I, "FV2": BVt(1), "a0b": F_B4, "": I}[nm]
        d = pref if rnd.random() < 0.85 else rnd.choice(TYPES)
        if rnd.random() < (0.5 if self.nested else 0.06):
            nm, d = rnd.choice([("nx", P_QI), ("ny", ARR_IP), ("nf", F_PI)])
        t = mkty(E.env, d)
        meth = rnd.choice(["Symbol", "get_or_create_symbol"])
        return self.do(E, "Symbol", "RSymbol %s %s" % (tocoq.cstr(nm), cty(d)), "m%d.%s(%r, %s)" % (E.k, meth, nm, t),
                       lambda: getattr(E.m, meth)(nm, t), reqkey=("Symbol", nm, d),
                       expect=lambda n: None if (n.is_symbol() and n.symbol_name() == nm and tdesc(n.symbol_type()) == d
                                                 and not n.args() and E.m.get_symbol(nm) is n) else "symbol_name/symbol_type do not read back")

    def g_fresh(self, E):
        rnd = self.rnd
        d = rnd.choice(SCALARS + [F_II])
        t = mkty(E.env, d)
        tm = rnd.choice([None, None, "FV%d", "a%db", "k%d"])
        coqt = "None" if tm is None else "(Some (%s, %s))" % tuple(tocoq.cstr(x) for x in tm.split("%d"))
        before = set(E.m.symbols)
        if tm is None:
            th, txt = (lambda: E.m.FreshSymbol(t)), "m%d.FreshSymbol(%s)" % (E.k, t)
        elif rnd.random() < 0.5:
            th, txt = (lambda: E.m.FreshSymbol(t, tm)), "m%d.FreshSymbol(%s, %r)" % (E.k, t, tm)
        else:
            th, txt = (lambda: E.m.new_fresh_symbol(t, tm)), "m%d.new_fresh_symbol(%s, %r)" % (E.k, t, tm)
        return self.do(E, "Fresh", "RFresh %s %s" % (cty(d), coqt), txt, th, fresh=True,
                       expect=lambda n: None if (n.is_symbol() and n.symbol_name() not in before and tdesc(n.symbol_type()) == d)
                       else "fresh symbol reuses the existing name %s" % n.symbol_name())

    def g_real(self, E):
        rnd = self.rnd
        q = rnd.choice([Fraction(0), Fraction(1), Fraction(-1), Fraction(2), Fraction(1, 2), Fraction(-3, 4), Fraction(5, 3),
                        Fraction(1, 10), Fraction(2 ** 70 + 1), Fraction(7, 2 ** 60)])
        sp = rnd.choice(["int", "frac", "float", "pair", "pair2", "frac", "float01", "bool", "str", "pair0"])
        if sp == "int":
            v = int(q) if q.denominator == 1 else q
        elif sp == "frac":
            v = q
        elif sp == "float":
            v = float(q)                       # may round: the float denotes its own exact value
        elif sp == "float01":
            v = rnd.choice([0.1, 0.5, -0.0, 1.0, 2.0, 1e22, 0.75])
        elif sp == "pair":
            v = (q.numerator, q.denominator)
        elif sp == "pair2":
            k = rnd.choice([2, -1, 3, -6])
            v = (q.numerator * k, q.denominator * k)
        elif sp == "pair0":
            v = (int(q.numerator), 0)
        elif sp == "bool":
            v = rnd.choice([True, False])
        else:
            v = "a"
        denot = None
        if type(v) in (int, Fraction, float):
            denot = Fraction(v)
        elif type(v) is tuple and v[1] != 0:
            denot = Fraction(v[0], v[1])
        return self.do(E, "Real", "RReal %s" % cpyval(v), "m%d.Real(%r)" % (E.k, v), lambda: E.m.Real(v),
                       reqkey=("Real", type(v).__name__, repr(v)),
                       expect=lambda n: None if (denot is not None and n.is_real_constant() and type(n.constant_value()) is Fraction
                                                 and n.constant_value() == denot and not n.args())
                       else ("Real(%r) returned %s" % (v, n)))

    def g_int(self, E):
        rnd = self.rnd
        z = rnd.choice([0, 1, -1, 2, 3, 7, -5, 2 ** 70, 15])
        sp = rnd.choice(["int", "int", "int", "float", "frac", "bool", "str"])
        v = {"int": z, "float": float(z), "frac": Fraction(z), "bool": bool(z % 2), "str": str(z)}[sp]
        return self.do(E, "Int", "RInt %s" % cpyval(v), "m%d.Int(%r)" % (E.k, v), lambda: E.m.Int(v),
                       reqkey=("Int", type(v).__name__, repr(v)),
                       expect=lambda n: None if (type(v) is int and n.is_int_constant() and type(n.constant_value()) is int
                                                 and n.constant_value() == v and not n.args())
                       else ("Int(%r) returned %s (only int is a spelling of an Int constant)" % (v, n)))

    def g_string(self, E):
        v = self.rnd.choice(["", "a", "ab", "a", "b\"c", 1])
        return self.do(E, "String", "RString %s" % cpyval(v), "m%d.String(%r)" % (E.k, v), lambda: E.m.String(v),
                       reqkey=("String", repr(v)),
                       expect=lambda n: None if (n.is_string_constant() and n.constant_value() == v and type(v) is str) else "String does not read back")

    def g_bool(self, E):
        v = self.rnd.choice([True, False, 1])
        how = self.rnd.choice(["Bool", "const"]) if type(v) is bool else "Bool"
        if how == "Bool":
            th, txt = (lambda: E.m.Bool(v)), "m%d.Bool(%r)" % (E.k, v)
        else:
            th, txt = (lambda: (E.m.TRUE() if v else E.m.FALSE())), "m%d.%s()" % (E.k, "TRUE" if v else "FALSE")
        return self.do(E, "Bool", "RBool %s" % cpyval(v), txt, th, reqkey=("Bool", repr(v)),
                       expect=lambda n: None if (n.is_bool_constant() and n.constant_value() is v) else "Bool does not read back")

    def g_bv(self, E):
        rnd = self.rnd
        w = fresh_int(rnd.choice([1, 4, 4, 8, 3, 4, 8, 64, 257, 300]))
        val = rnd.choice([0, 1, 5, 2 ** w - 1, 2 ** w, -1, 9])
        sp = rnd.choice(["int", "int", "hashb", "bits", "bits_w", "bits_badw", "badstr", "nowidth", "empty", "other", "one", "zero", "sbv", "sbvs"])
        bits = format(val % (2 ** w), "0%db" % w)
        exp = None
        if sp == "int":
            coq, th, txt = "RBV (BvInt %s) %s" % (tocoq.z(val), copt(w)), (lambda: E.m.BV(val, w)), "m%d.BV(%d, %d)" % (E.k, val, w)
            exp = (val, w) if 0 <= val < 2 ** w else None
        elif sp in ("hashb", "bits", "bits_w", "bits_badw"):
            s = ("#b" if sp == "hashb" else "") + bits
            ww = None if sp in ("hashb", "bits") else (w if sp == "bits_w" else w + 1)
            coq = "RBV (BvBits %s [%s]) %s" % ("true" if sp == "hashb" else "false", "; ".join("true" if c == "1" else "false" for c in bits), copt(ww))
            th, txt = (lambda: E.m.BV(s, ww)), "m%d.BV(%r, %r)" % (E.k, s, ww)
            exp = (val % (2 ** w), w) if sp != "bits_badw" else None
        elif sp == "badstr":
            coq, th, txt = "RBV BvBadStr %s" % copt(w), (lambda: E.m.BV("12", w)), "m%d.BV('12', %d)" % (E.k, w)
        elif sp == "empty":
            coq, th, txt = "RBV (BvBits true []) None", (lambda: E.m.BV("#b")), "m%d.BV('#b')" % E.k
        elif sp == "nowidth":
            coq, th, txt = "RBV (BvInt %s) None" % tocoq.z(val), (lambda: E.m.BV(val)), "m%d.BV(%d)" % (E.k, val)
        elif sp == "other":
            coq, th, txt = "RBV BvOther %s" % copt(w), (lambda: E.m.BV(True, w)), "m%d.BV(True, %d)" % (E.k, w)
        elif sp == "one":
            coq, th, txt = "RBV (BvInt 1%%Z) %s" % copt(w), (lambda: E.m.BVOne(w)), "m%d.BVOne(%d)" % (E.k, w)
            exp = (1, w)
        elif sp == "zero":
            coq, th, txt = "RBV (BvInt 0%%Z) %s" % copt(w), (lambda: E.m.BVZero(w)), "m%d.BVZero(%d)" % (E.k, w)
            exp = (0, w)
        elif sp == "sbv":
            sv = rnd.choice([0, 1, -1, -(2 ** (w - 1)), 2 ** (w - 1) - 1, 2 ** (w - 1), -(2 ** (w - 1)) - 1, 3])
            coq, th, txt = "RSBV (BvInt %s) %s" % (tocoq.z(sv), copt(w)), (lambda: E.m.SBV(sv, w)), "m%d.SBV(%d, %d)" % (E.k, sv, w)
            exp = (sv % (2 ** w), w) if -(2 ** (w - 1)) <= sv < 2 ** (w - 1) else None
        else:
            s = "#b" + bits
            coq = "RSBV (BvBits true [%s]) None" % "; ".join("true" if c == "1" else "false" for c in bits)
            th, txt = (lambda: E.m.SBV(s)), "m%d.SBV(%r)" % (E.k, s)
            exp = (val % (2 ** w), w)
        return self.do(E, "BV", coq, txt, th, reqkey=("BV", txt.split(".", 1)[1]),
                       expect=lambda n: None if (exp is not None and n.is_bv_constant() and n.constant_value() == exp[0] and n.bv_width() == exp[1]
                                                 and tdesc(n.constant_type()) == BVt(exp[1])) else "BV constant reads back %s" % (n,))

    def ctor(self, E, kind, coqctor, meth, args, zs=(), pyargs=None, expect=None, style=0):
        ids = [a.node_id() for a in args]
        names = [self.name(E, a) for a in args]
        if pyargs is None:
            if style == 1:
                pyargs, call = "[%s]" % ", ".join(names), (lambda: getattr(E.m, meth)(list(args)))
            elif style == 2:
                pyargs, call = "iter([%s])" % ", ".join(names), (lambda: getattr(E.m, meth)(iter(list(args))))
            else:
                pyargs, call = ", ".join(names + [repr(z) for z in zs]), (lambda: getattr(E.m, meth)(*(list(args) + list(zs))))
        else:
            pyargs, call = pyargs
        n = self.do(E, kind, "RCtor %s %s %s" % (coqctor, cids(ids), czs(zs)), "m%d.%s(%s)" % (E.k, meth, pyargs), call,
                    reqkey=(meth, tuple(ids), tuple(zs)), expect=expect)
        if n is not None and any(a.node_id() in self.tainted[E.k] for a in args) and n.node_id() not in [a.node_id() for a in args]:
            self.tainted[E.k].add(n.node_id())
        return n

    @staticmethod
    def is_node(nt, args, payload=None):
        def chk(n):
            if n.node_type() != nt:
                return "node_type() is %s, expected %s" % (op.op_to_str(n.node_type()), op.op_to_str(nt))
            if len(n.args()) != len(args) or any(a is not b for a, b in zip(n.args(), args)):
                return "args() do not read back"
            if any(n.arg(i) is not a for i, a in enumerate(args)):
                return "arg(i) does not read back"
            if payload is not None and n._content.payload != payload:
                return "payload %r, expected %r" % (n._content.payload, payload)
            return None
        return chk

    def g_plain(self, E):
        name = self.rnd.choice(sorted(PLAIN))
        coq, nt, sig = PLAIN[name]
        args = self.args_for(E, sig)
        if args is None:
            return None
        return self.ctor(E, name, coq, name, args, expect=self.is_node(nt, args))

    def g_swap(self, E):
        name = self.rnd.choice(sorted(SWAP))
        coq, nt, sig = SWAP[name]
        args = self.args_for(E, sig)
        if args is None:
            return None
        return self.ctor(E, name, coq, name, args, expect=self.is_node(nt, [args[1], args[0]]))

    def g_nary(self, E):
        rnd = self.rnd
        name = rnd.choice(["And", "Or", "Plus", "Times", "And", "Or"])
        k = rnd.choice([0, 1, 1, 2, 2, 3, 4])
        sig = ("B" if name in ("And", "Or") else "N") * k
        args = self.args_for(E, sig)
        if args is None:
            return None
        nt = {"And": op.AND, "Or": op.OR, "Plus": op.PLUS, "Times": op.TIMES}[name]
        style = rnd.choice([0, 0, 1, 2])
        if k == 0 and style == 0 and False:
            style = 1

        def exp(n):
            if k == 0:
                return None if (n is (E.m.TRUE() if name == "And" else E.m.FALSE())) else "empty %s is not the constant" % name
            if k == 1:
                return None if n is args[0] else "unary %s is not its argument" % name
            return self.is_node(nt, args)(n)
        return self.ctor(E, name, "C" + name, name, args, style=style, expect=exp)

    def g_not(self, E):
        rnd = self.rnd
        a = self.kind_arg(E, "B", {}) if rnd.random() < 0.5 else self.pick(E, lambda n: n.is_not())
        if a is None:
            return None
        return self.ctor(E, "Not", "CNot", "Not", [a],
                         expect=lambda n: (None if n is a.arg(0) else "Not(Not(x)) is not x") if a.is_not() else self.is_node(op.NOT, [a])(n))

    def g_derived(self, E):
        rnd = self.rnd
        name = rnd.choice(["NotEquals", "Xor", "EqualsOrIff", "EqualsOrIff", "ToReal", "ToReal", "Div", "Div", "Pow"])
        if name == "NotEquals":
            args = self.args_for(E, "XX")
            if args is None:
                return None
            return self.ctor(E, name, "CNotEquals", name, args,
                             expect=lambda n: None if (n.is_not() and self.is_node(op.EQUALS, args)(n.arg(0)) is None) else "NotEquals is not Not(Equals)")
        if name == "Xor":
            args = self.args_for(E, "BB")
            if args is None:
                return None
            return self.ctor(E, name, "CXor", name, args,
                             expect=lambda n: None if (n.is_not() and self.is_node(op.IFF, args)(n.arg(0)) is None) else "Xor is not Not(Iff)")
        if name == "EqualsOrIff":
            args = self.args_for(E, "XX")
            if args is None:
                return None
            isb = self.td(args[0]) == B
            return self.ctor(E, name, "CEqualsOrIff", name, args, expect=self.is_node(op.IFF if isb else op.EQUALS, args))
        if name == "ToReal":
            a = self.oftype(E, rnd.choice([I, I, R, B]))
            if a is None:
                return None

            def exp(n):
                d = self.td(a)
                if d == R:
                    return None if n is a else "ToReal(real) is not its argument"
                if isic(a):
                    return None if (n.is_real_constant() and n.constant_value() == a.constant_value()) else "ToReal(int constant) is not the real constant"
                return self.is_node(op.TOREAL, [a])(n)
            return self.ctor(E, name, "CToReal", name, [a], expect=exp)
        if name == "Div":
            args = self.args_for(E, "NN")
            if args is None:
                return None
            if rnd.random() < 0.5:
                c = self.pick(E, lambda n: isic(n) or isrc(n))
                if c is not None:
                    args[1] = c
            a, b = args

            def exp(n):
                if isrc(b) and b.constant_value() != 0:
                    inv = 1 / Fraction(b.constant_value())
                    return None if (n.node_type() == op.TIMES and n.arg(0) is a and n.arg(1).is_real_constant()
                                    and n.arg(1).constant_value() == inv) else "Div by a real constant is not Times by the inverse"
                return self.is_node(op.DIV, [a, b])(n)
            return self.ctor(E, name, "CDiv", name, args, expect=exp)
        # Pow
        b = self.oftype(E, rnd.choice([I, R]))
        e = self.pick(E, lambda n: (isic(n) or isrc(n)) and abs(n.constant_value()) <= 6)
        if rnd.random() < 0.15:
            e = self.oftype(E, I)
        if b is None or e is None:
            return None
        if isnum(e) and isnum(b):
            ev, bv_ = e.constant_value(), b.constant_value()
            if Fraction(ev).denominator != 1:
                return None                              # float pow: outside the model
            if isic(b) and isic(e) and ev < 0:
                return None                              # int ** negative int is a float
            if abs(bv_) > 100 or abs(ev) > 6:
                return None                              # keep Z.pow inside Coq small

        def exp(n):
            if isnum(b):
                val = Fraction(b.constant_value()) ** int(e.constant_value())
                return None if (n.is_real_constant() and n.constant_value() == val) else "Pow of constants is not the real constant"
            return self.is_node(op.POW, [b, e])(n)
        return self.ctor(E, "Pow", "CPow", "Pow", [b, e], expect=exp)

    def g_bvop(self, E):
        rnd = self.rnd
        name = rnd.choice(["BVNot", "BVNeg", "BVXor", "BVSub", "BVUDiv", "BVURem", "BVSDiv", "BVSRem", "BVLShl", "BVLShr", "BVAShr",
                           "BVAnd", "BVOr", "BVAdd", "BVMul", "BVConcat", "BVComp", "BVExtract", "BVRol", "BVRor", "BVZExt", "BVSExt",
                           "shiftint", "BVExtract"])
        if name in ("BVNot", "BVNeg"):
            args = self.args_for(E, "V")
            if args is None:
                return None
            return self.ctor(E, name, "(CBvUn %s)" % BVOP[name], name, args,
                             expect=lambda n: self.is_node(NT[name], args, (args[0].bv_width(),))(n) or (None if n.bv_width() == args[0].bv_width() else "bv_width"))
        if name in ("BVXor", "BVSub", "BVUDiv", "BVURem", "BVSDiv", "BVSRem", "BVLShl", "BVLShr", "BVAShr"):
            args = self.args_for(E, "VV")
            if args is None:
                return None
            return self.ctor(E, name, "(CBvBin %s)" % BVOP[name], name, args, expect=lambda n: self.is_node(NT[name], args, (args[0].bv_width(),))(n))
        if name == "shiftint":
            name = rnd.choice(["BVLShl", "BVLShr", "BVAShr"])
            args = self.args_for(E, "V")
            if args is None:
                return None
            k = rnd.choice([0, 1, 3, 20, -1])

            def exp(n):
                w = args[0].bv_width()
                r = n.arg(1)
                return None if (n.node_type() == NT[name] and n.arg(0) is args[0] and r.is_bv_constant() and r.constant_value() == k
                                and r.bv_width() == w and n._content.payload == (w,)) else "shift by int does not read back"
            return self.ctor(E, name + "_int", "(CBvShiftInt %s)" % BVOP[name], name, args, zs=[k], expect=exp)
        if name in ("BVAnd", "BVOr", "BVAdd", "BVMul"):
            k = rnd.choice([1, 2, 2, 3, 0])
            args = self.args_for(E, "V" * k)
            if args is None:
                return None

            def exp(n):
                cur = n
                for a in reversed(args[1:]):
                    if cur.node_type() != NT[name] or cur.arg(1) is not a or cur._content.payload != (args[0].bv_width(),):
                        return "n-ary %s is not the left-nested chain" % name
                    cur = cur.arg(0)
                return None if cur is args[0] else "n-ary %s is not the left-nested chain" % name
            return self.ctor(E, name, "(CBvNary %s)" % BVOP[name], name, args, style=rnd.choice([0, 0, 1]), expect=exp)
        if name == "BVConcat":
            k = rnd.choice([2, 2, 3, 1])
            ctx = {}
            args = [self.kind_arg(E, "V", dict(ctx)) for _ in range(k)]
            if any(a is None for a in args):
                return None
            if k > 2 and not all(self.td(a)[0] == "BV" for a in args):
                return None

            def exp(n):
                cur = n
                tot = sum(a.bv_width() for a in args)
                for a in reversed(args[2:]):
                    if cur.node_type() != op.BV_CONCAT or cur.arg(1) is not a or cur.bv_width() != tot:
                        return "n-ary BVConcat is not the left-nested chain"
                    tot -= a.bv_width()
                    cur = cur.arg(0)
                return self.is_node(op.BV_CONCAT, args[:2], (tot,))(cur)
            return self.ctor(E, name, "CBvConcat", name, args, expect=exp)
        if name == "BVComp":
            args = self.args_for(E, "VV")
            if args is None:
                return None
            return self.ctor(E, name, "CBvComp", name, args, expect=self.is_node(op.BV_COMP, args, (1,)))
        args = self.args_for(E, "V")
        if args is None:
            return None
        a = args[0]
        if name == "BVExtract":
            s = rnd.choice([0, 0, 1, 2, 3, -1, 7])
            e = rnd.choice([None, s, s + 1, 3, 7, 8, 0])
            zs = [s] if e is None else [s, e]

            def exp(n):
                w = a.bv_width()
                ee = w - 1 if e is None else e
                return (self.is_node(op.BV_EXTRACT, [a], (ee - s + 1, s, ee))(n)
                        or (None if (n.bv_extract_start() == s and n.bv_extract_end() == ee and n.bv_width() == ee - s + 1) else "extract accessors"))
            pa = ("%s, %s" % (self.name(E, a), s) + ("" if e is None else ", %s" % e), (lambda: E.m.BVExtract(a, s) if e is None else E.m.BVExtract(a, s, e)))
            if e is not None and rnd.random() < 0.3:
                pa = ("%s, start=%s, end=%s" % (self.name(E, a), s, e), (lambda: E.m.BVExtract(a, start=s, end=e)))
            return self.ctor(E, name, "CBvExtract", name, [a], zs=zs, pyargs=pa, expect=exp)
        k = rnd.choice([0, 1, 2, 4, 9, -1])
        if name in ("BVRol", "BVRor"):
            nt = op.BV_ROL if name == "BVRol" else op.BV_ROR
            return self.ctor(E, name, "CBvRol" if name == "BVRol" else "CBvRor", name, [a], zs=[k],
                             expect=lambda n: self.is_node(nt, [a], (a.bv_width(), k))(n) or (None if n.bv_rotation_step() == k else "bv_rotation_step"))
        nt = op.BV_ZEXT if name == "BVZExt" else op.BV_SEXT
        return self.ctor(E, name, "CBvZext" if name == "BVZExt" else "CBvSext", name, [a], zs=[k],
                         expect=lambda n: self.is_node(nt, [a], (a.bv_width() + k, k))(n) or (None if (n.bv_extend_step() == k and n.bv_width() == a.bv_width() + k) else "bv_extend_step"))

    def g_strconcat(self, E):
        k = self.rnd.choice([0, 1, 2, 3])
        args = self.args_for(E, "S" * k)
        if args is None:
            return None
        return self.ctor(E, "StrConcat", "CStrConcat", "StrConcat", args, style=self.rnd.choice([0, 1]), expect=self.is_node(op.STR_CONCAT, args))

    def g_function(self, E):
        rnd = self.rnd
        f = self.pick(E, lambda n: n.is_symbol() and n.symbol_type().is_function_type())
        if f is None or rnd.random() < 0.08:
            f = self.pick(E)
        if f is None:
            return None
        if f.is_symbol() and f.symbol_type().is_function_type() and rnd.random() < 0.85:
            params = [self.oftype(E, tdesc(p)) for p in f.symbol_type().param_types]
        else:
            params = [self.pick(E) for _ in range(rnd.choice([0, 1, 2]))]
        if rnd.random() < 0.1:
            params = params[:-1]
        if any(p is None for p in params):
            return None
        names = [self.name(E, p) for p in params]
        return self.ctor(E, "Function", "CFunction", "Function", [f] + params,
                         pyargs=("%s, [%s]" % (self.name(E, f), ", ".join(names)), lambda: E.m.Function(f, list(params))),
                         expect=lambda n: (None if n is f else "Function(f, []) is not f") if not params else
                         (self.is_node(op.FUNCTION, params)(n) or (None if n.function_name() is f else "function_name does not read back")))

    def g_quant(self, E):
        rnd = self.rnd
        body = self.kind_arg(E, "B", {})
        if body is None:
            return None
        k = rnd.choice([0, 1, 1, 2, 3])
        syms = [n for n in E.pool if n.is_symbol()]
        if len(syms) < k:
            return None
        vs = [rnd.choice(syms) for _ in range(k)]
        univ = rnd.random() < 0.5
        meth = "ForAll" if univ else "Exists"
        return self.ctor(E, meth, "(CQuant %s)" % ("true" if univ else "false"), meth, [body] + vs,
                         pyargs=("[%s], %s" % (", ".join(self.name(E, v) for v in vs), self.name(E, body)), lambda: getattr(E.m, meth)(list(vs), body)),
                         expect=lambda n: (None if n is body else "quantifier over no variables is not the body") if not vs else
                         (self.is_node(op.FORALL if univ else op.EXISTS, [body])(n)
                          or (None if (len(n.quantifier_vars()) == len(vs) and all(x is y for x, y in zip(n.quantifier_vars(), vs))) else "quantifier_vars do not read back")))

    def g_array(self, E):
        rnd = self.rnd
        itd = rnd.choice([I, I, BVt(4), S])
        d = self.pick(E, lambda n: self.td(n)[0] not in ("Fun",))
        if d is None:
            return None
        ed = self.td(d)
        keys = [n for n in E.pool if n.is_constant() and self.td(n) == itd]
        if rnd.random() < 0.06:
            keys = keys + [n for n in E.pool if self.td(n) == itd][:2]       # maybe a non-constant index
        vals = [n for n in E.pool if self.td(n) == ed]
        k = rnd.choice([0, 1, 2, 3, 4]) if keys else 0
        pairs = []
        for _ in range(k):
            key = rnd.choice(keys)
            v = d if rnd.random() < 0.25 else rnd.choice(vals)
            pairs.append((key, v))
        if rnd.random() < 0.3 and pairs:
            pairs.append((pairs[0][0], rnd.choice(vals)))                       # duplicated key: the last value wins
        it = mkty(E.env, itd)
        how = rnd.choice(["dict", "none"]) if not pairs else "dict"
        dct = dict(pairs)
        eff = {kk: vv for kk, vv in dct.items() if vv is not d}
        coq = "RArray %s %d [%s]" % (cty(itd), d.node_id(), "; ".join("(%d, %d)" % (a.node_id(), b.node_id()) for a, b in pairs))
        txt = "m%d.Array(%s, %s%s)" % (E.k, it, self.name(E, d),
                                       "" if how == "none" else ", dict([%s])" % ", ".join("(%s, %s)" % (self.name(E, a), self.name(E, b)) for a, b in pairs))

        def exp(n):
            if not n.is_array_value() or tdesc(n.array_value_index_type()) != itd or n.array_value_default() is not d:
                return "array_value_index_type/array_value_default do not read back"
            got = n.array_value_assigned_values_map()
            if set(map(id, got)) != set(map(id, eff)) or any(got[kk] is not eff[kk] for kk in eff):
                return "array_value_assigned_values_map is not the given map minus default-valued entries"
            if len(n.args()) != 1 + 2 * len(eff):
                return "args() length"
            for kk in dct:
                if n.array_value_get(kk) is not dct[kk]:
                    return "array_value_get(%s) is not the assigned value" % kk
            for kk in keys:
                if kk.is_constant() and id(kk) not in set(map(id, dct)) and n.array_value_get(kk) is not d:
                    return "array_value_get of an unassigned index is not the default"
            return None
        n = self.do(E, "Array", coq, txt, (lambda: E.m.Array(it, d) if how == "none" else E.m.Array(it, d, dict(pairs))),
                    reqkey=("Array", itd, d.node_id(), tuple(sorted((a.node_id(), b.node_id()) for a, b in eff.items())),
                            all(kk.is_constant() for kk in dct)), expect=exp)
        return n

    def g_raw(self, E):
        """raw create_node of shapes the constructors never build (hash-consing must still hold)"""
        rnd = self.rnd
        which = rnd.choice(["notnot", "and1", "plus1"])
        if which == "notnot":
            a = self.pick(E, lambda n: n.is_not())
            nt, coq = op.NOT, "ONot"
        elif which == "and1":
            a = self.oftype(E, B)
            nt, coq = op.AND, "OAnd"
        else:
            a = self.oftype(E, I)
            nt, coq = op.PLUS, "OPlus"
        if a is None:
            return None
        n = self.do(E, "raw", "RCtor (CNode %s) [%d] []" % (coq, a.node_id()), "m%d.create_node(node_type=%d, args=(%s,))" % (E.k, nt, self.name(E, a)),
                    lambda: E.m.create_node(node_type=nt, args=(a,)), reqkey=("raw", nt, a.node_id()), expect=self.is_node(nt, [a]))
        if n is not None:
            self.tainted[E.k].add(n.node_id())
        return n

    # ------------------------------------------------------------------ normalize
    def symbols_of(self, f):
        out = []
        for n in tocoq.topo([f]):
            if n.is_symbol():
                out.append(n)
            elif n.is_function_application():
                out.append(n.function_name())
            elif n.is_quantifier():
                out += list(n.quantifier_vars())
        return out

    @staticmethod
    def canon_key(f):
        """skey with array-value assignments sorted (the copy may order them differently)"""
        memo = {}
        for n in tocoq.topo([f]):
            k = tocoq.skey(n)
            kids = [memo[c] for c in n.args()]
            if n.is_array_value():
                prs = sorted(zip(kids[1::2], kids[2::2]), key=repr)
                kids = [kids[0]] + [x for p in prs for x in p]
            memo[n] = (k[0], k[1], tuple(kids))
        return memo[f]

    def lookup(self, E, f):
        """the node of E's table that a native build of f's blueprint inside E denotes (no side effect on the table);
        None when some part does not exist there"""
        from pysmt.fnode import FNodeContent
        memo = {}
        for n in tocoq.topo([f]):
            kids = tuple(memo[id(c)] for c in n.args())
            if any(k is None for k in kids):
                memo[id(n)] = None
                continue
            nt, pay = n.node_type(), n._content.payload
            if nt == op.SYMBOL:
                pay = (n.symbol_name(), mkty(E.env, tdesc(n.symbol_type())))
            elif nt == op.FUNCTION:
                fn = n.function_name()
                pay = E.m.formulae.get(FNodeContent(op.SYMBOL, (), (fn.symbol_name(), mkty(E.env, tdesc(fn.symbol_type())))))
            elif nt in (op.FORALL, op.EXISTS):
                pay = tuple(E.m.formulae.get(FNodeContent(op.SYMBOL, (), (v.symbol_name(), mkty(E.env, tdesc(v.symbol_type())))))
                            for v in n.quantifier_vars())
            elif nt == op.ARRAY_VALUE:
                pay = mkty(E.env, tdesc(n.array_value_index_type()))
            memo[id(n)] = E.m.formulae.get(FNodeContent(nt, kids, pay))
        return memo[id(f)]

    def g_normalize(self, E, Sx=None, f=None):
        rnd = self.rnd
        if E.norm_dirty:
            return None
        if Sx is None:
            srcs = [X for X in self.envs if not X.released and X.pool and (X is not E or rnd.random() < 0.1)]
            if not srcs:
                return None
            Sx = rnd.choice(srcs)
            f = rnd.choice(Sx.pool)
        idx = len(self.reqs)
        syms = self.symbols_of(f)
        conflict = any(s.symbol_name() in E.m.symbols and tdesc(E.m.symbols[s.symbol_name()].symbol_type()) != tdesc(s.symbol_type()) for s in syms)
        bynames = {}
        for s in syms:
            bynames.setdefault(s.symbol_name(), set()).add(tdesc(s.symbol_type()))
        conflict = conflict or any(len(v) > 1 for v in bynames.values())
        src_ids = set(map(id, Sx.m.formulae.values()))
        raw = f.node_id() in self.tainted[Sx.k] or any(c.node_id() in self.tainted[Sx.k] for c in tocoq.topo([f]))

        n = self.do(E, "normalize", "RNormalize %d %d" % (Sx.k, f.node_id()), "m%d.normalize(%s)" % (E.k, self.name(Sx, f)),
                    lambda: E.m.normalize(f), reqkey=("normalize", Sx.k, f.node_id()))
        if n is None:
            E.norm_dirty = True
            if not conflict and not raw:
                nest = [tdesc(s.symbol_type()) for s in syms if has_nested_param(tdesc(s.symbol_type()))]
                key = "normalize-raises:nested-parametric-sort" if nest else "normalize-raises:%s" % self.errs[idx]
                self.complaints.append((key, "m%d.normalize(%s) raised %s although no symbol of the formula clashes with the target environment%s"
                                        % (E.k, f.serialize(), self.errs[idx], "; symbol sort %s" % (nest[0],) if nest else ""), idx))
            return None
        if raw:
            return n
        if conflict:
            return n
        if self.keys.key(n) != self.keys.key(f):
            if self.keys.key(n, True) == self.keys.key(f, True):
                self.complaints.append(("normalize:array-assignment-order", "the copy of %s lists the array assignments in another order: %s"
                                        % (f.serialize(), n.serialize()), idx))
            else:
                self.complaints.append(("normalize:copy-differs", "normalize(%s) = %s is not structurally identical" % (f.serialize(), n.serialize()), idx))
        elif not any(c.is_array_value() for c in tocoq.topo([f])) and self.lookup(E, f) is not n:
            self.complaints.append(("normalize:not-the-native-node", "normalize(%s) is not the object a native build of the same formula in the "
                                    "target environment denotes" % f.serialize(), idx))
        for c in tocoq.topo([n]):
            if E.m.formulae.get(c._content) is not c:
                self.complaints.append(("normalize:foreign-node", "node %s of the copy is not in the target manager's table" % c, idx))
                break
            if Sx is not E and id(c) in src_ids:
                self.complaints.append(("normalize:shared-node", "node %s of the copy is an object of the source environment" % c, idx))
                break
        for s in self.symbols_of(n):
            if not type_registered(E.env.type_manager, s.symbol_type()):
                self.complaints.append(("normalize:foreign-type", "sort %s of the copy's symbol %s is not an instance of the target type manager" % (s.symbol_type(), s), idx))
                break
        for c in tocoq.topo([n]):
            if c.is_array_value() and not type_registered(E.env.type_manager, c.array_value_index_type()):
                self.complaints.append(("normalize:foreign-type", "index sort of array value %s is not an instance of the target type manager" % c, idx))
                break
        return n

    # ------------------------------------------------------------------ driver
    def step(self):
        rnd = self.rnd
        E = rnd.choice(self.envs)
        gens = [(self.g_symbol, 10), (self.g_fresh, 3), (self.g_real, 6), (self.g_int, 6), (self.g_string, 2), (self.g_bool, 2),
                (self.g_bv, 6), (self.g_plain, 12), (self.g_swap, 3), (self.g_nary, 8), (self.g_not, 4), (self.g_derived, 8),
                (self.g_bvop, 9), (self.g_strconcat, 1), (self.g_function, 4), (self.g_quant, 4), (self.g_array, 7)]
        if len(self.envs) > 1 or rnd.random() < 0.3:
            gens.append((self.g_normalize, 9 if len(self.envs) > 1 else 2))
        if self.raw:
            gens.append((self.g_raw, 4))
        g = rnd.choices([g for g, _ in gens], [w for _, w in gens])[0]
        g(E)

    def run(self, nops):
        tries = 0
        while len(self.reqs) < nops and tries < nops * 6:
            tries += 1
            self.step()
        self.finish()

    def finish(self):
        for E in self.envs:
            if not E.released:
                self.finish_env(E)

    def alias_check(self, E, n):
        """accessor results must not alias the node's state: read every accessor, edit every returned mutable container in
        place, read again (must equal the first reading and the args()-derived view), require fresh objects from successive
        calls, and a second holder of the same hash-consed node must see the original"""
        import copy
        warnings.simplefilter("ignore")
        idx = len(self.reqs) - 1
        acc = node_accessors(E, n)
        before = read_all(acc)
        self.alias_stats["nodes"] += 1
        self.alias_stats["reads"] += 2 * len(acc)
        spare = [c for c in E.pool if c.is_constant() and c.node_type() != op.ARRAY_VALUE][:3]
        for name, th in acc:
            try:
                r1 = th()
                r2 = th()
            except Exception:   # noqa
                continue
            if not isinstance(r1, MUTABLE):
                continue
            self.alias_stats["mutable_results"] += 1
            if r1 is r2:
                self.complaints.append(("alias:shared-object:%s" % name.split("(")[0], "two calls of %s on node %d (%s) return the SAME %s object"
                                        % (name, n.node_id(), op.op_to_str(n.node_type()), type(r1).__name__), idx))
            saved = copy.copy(r1)
            edits = mutate(r1, spare)
            after = read_all(acc)
            self.alias_stats["mutations"] += 1
            bad = sorted(k for k in before if before[k] != after[k])
            if bad:
                self.complaints.append(("alias:mutation-visible:%s" % name.split("(")[0],
                                        "after editing the %s returned by %s of node %d (%s) in place (%s), the accessors %s read %s instead of %s"
                                        % (type(r1).__name__, name, n.node_id(), n.serialize() if len(str(before.get("serialize"))) < 200 else op.op_to_str(n.node_type()),
                                           "; ".join(edits), bad[:4], [after[k] for k in bad[:2]], [before[k] for k in bad[:2]]), idx))
                try:                                   # limit the damage to this report
                    r1.clear()
                    r1.update(saved) if isinstance(r1, (dict, set)) else r1.extend(saved)
                except Exception:   # noqa
                    pass
            if self.py and bad:
                self.py[-1] += "\nm = n%d_%d.%s(); %s   # then read the accessors of n%d_%d again" % (E.k, n.node_id(), name, "; ".join(edits), E.k, n.node_id())
        # the args()-derived view of an array value
        if n.node_type() == op.ARRAY_VALUE:
            a = n.args()
            want = dict(zip(a[1::2], a[2::2]))
            got = n.array_value_assigned_values_map()
            if set(map(id, got)) != set(map(id, want)) or any(got[k] is not want[k] for k in want):
                self.complaints.append(("alias:accessor-vs-args:array_value_assigned_values_map",
                                        "array_value_assigned_values_map() of node %d is not the map its args() spell" % n.node_id(), idx))
            for k in want:
                if n.array_value_get(k) is not want[k]:
                    self.complaints.append(("alias:accessor-vs-args:array_value_get", "array_value_get of node %d disagrees with args()" % n.node_id(), idx))
                    break
        # a second holder of the same hash-consed node
        try:
            twin = E.m.formulae.get(n._content)
            if twin is not n:
                self.complaints.append(("alias:twin", "the table no longer maps the content of node %d to it" % n.node_id(), idx))
        except Exception:   # noqa
            pass

    def finish_env(self, E):
        """whole-table oracle: one object per structure over ALL nodes ever created"""
        if True:
            seen = {}
            for c, n in E.m.formulae.items():
                try:
                    k = self.keys.key(n)
                except Exception:   # noqa
                    continue
                if k in seen and seen[k] is not n:
                    self.complaints.append(("dup:%s" % op.op_to_str(n.node_type()), "two distinct objects (node_id %d and %d) have the structure %s"
                                            % (seen[k].node_id(), n.node_id(), n.serialize()), len(self.reqs) - 1))
                seen[k] = n
                if n._content is not c and n._content != c:
                    self.complaints.append(("table-key", "table key differs from the node's content", len(self.reqs) - 1))
            ids = sorted(n.node_id() for n in E.m.formulae.values())
            if ids != list(range(1, len(ids) + 1)) or E.m._next_free_id != len(ids) + 1:
                self.complaints.append(("ids-not-dense", "node ids of environment %d are not 1..n" % E.k, len(self.reqs) - 1))
            for a in E.pool:
                for cch in a.args():
                    if cch.node_id() >= a.node_id():
                        self.complaints.append(("child-id", "child id not smaller than parent id", len(self.reqs) - 1))
            for a in list(E.pool):
                self.alias_check(E, a)

    # ------------------------------------------------------------------ Coq text
    @staticmethod
    def _table_txt(E):
        rows = []
        for n in sorted(E.m.formulae.values(), key=lambda n: n.node_id()):
            rows.append("(%s, %s)" % (tocoq.opr(n), cids([c.node_id() for c in n.args()])))
        return "[%s]" % "; ".join(rows)

    @staticmethod
    def _addr_txt(E):
        nodes = sorted(E.m.formulae.values(), key=lambda n: n.node_id())
        rank = {id(n): r for r, n in enumerate(sorted(nodes, key=id))}
        return "[0%%Z; %s]" % "; ".join(tocoq.z(rank[id(n)]) for n in nodes)

    def tables(self):
        return "[%s]" % ";\n    ".join(E.table_txt if E.released else self._table_txt(E) for E in self.envs)

    def addrs(self):
        return "[%s]" % ";\n    ".join(E.addr_txt if E.released else self._addr_txt(E) for E in self.envs)

    def coq_case(self):
        reqs = ";\n    ".join("(%d, %s)" % (e, r) for e, r in self.reqs)
        reps = "; ".join("None" if r is None else "(Some %d)" % r for r in self.replies)
        return "(%s, %d, %s,\n   [%s],\n   [%s],\n   %s)" % ("true" if self.raw else "false", len(self.envs), self.addrs(), reqs, reps, self.tables())

    def script(self, upto=None):
        hdr = ["import gc, itertools, collections, types", "from fractions import Fraction", "import pysmt.shortcuts, pysmt.environment", "from pysmt.environment import Environment",
               "from pysmt.typing import *"]
        hdr += ["m%d = Environment().formula_manager" % E.k for E in self.envs if E.k not in self.lazy]
        body = self.py if upto is None else self.py[:upto + 1]
        return "\n".join(hdr + body)


CASE_HDR = """From Coq Require Import List ZArith Bool String.
From PySMT.core Require Import CaseUtil Syntax Manager.
From PySMT.models Require Import TypeChecker.
From PySMT.proofs Require Import Manager_proofs Manager_nf_proofs.
Import ListNotations.
Open Scope bool_scope.
Open Scope nat_scope.
Definition case := (bool * nat * list (list Z) * list (nat * request) * list (option nat) * list (list content))%type.
Definition addr_of (a : list (list Z)) (e i : nat) : Z := nth i (nth e a []) 0%Z.
Definition reply_ok (m : res id) (p : option nat) : bool :=
  match m, p with
  | Ok i, Some j => Nat.eqb i j
  | Err EUnm, _ => false
  | Err _, None => true
  | _, _ => false
  end.
Fixpoint replies_ok (m : list (res id)) (p : list (option nat)) : bool :=
  match m, p with
  | [], [] => true
  | x :: r, y :: q => reply_ok x y && replies_ok r q
  | _, _ => false
  end.
Fixpoint first_bad (m : list (res id)) (p : list (option nat)) (k : nat) : nat :=
  match m, p with
  | x :: r, y :: q => if reply_ok x y then first_bad r q (S k) else k
  | _, _ => k
  end.
(* every well-typed, array-value-free node built through the public constructors satisfies the
   hypothesis of normalize_copy; every request of a non-raw history is a public-constructor request (api_req) *)
Definition nodes_copyable (tb : list content) : bool :=
  forallb (fun i => let t := unfold_tb tb i in
                    negb (array_free t) || match tc t with None => true | Some _ => copyableb t end)
          (seq 1 (List.length tb)).
Definition ok (c : case) : bool :=
  let '(raw, n, a, reqs, reps, tabs) := c in
  let (w, m) := wrun (addr_of a) (winit n) reqs in
  replies_ok m reps && list_eqb (list_eqb content_eqb) (map table w) tabs &&
  (raw || (forallb nodes_copyable tabs && forallb (fun er => api_req (snd er)) reqs)).
Definition diag (c : case) : nat :=
  let '(raw, n, a, reqs, reps, tabs) := c in
  let (w, m) := wrun (addr_of a) (winit n) reqs in first_bad m reps 0.
"""


EMPTY_CASE = "(true, 0, [], [], [], [])"


def write_cases(chk, hists, shard=6, weight=450):
    """consecutive histories per file: at most `shard` of them and about `weight` calls"""
    files, k = [], 0
    while k < len(hists):
        j, wsum = k, 0
        while j < len(hists) and j - k < shard and (j == k or wsum + len(hists[j].reqs) <= weight):
            wsum += len(hists[j].reqs)
            j += 1
        text = CASE_HDR + "Definition cases : list case := [\n%s\n].\n" % ";\n".join((h.coq_case() if h.model else EMPTY_CASE) for h in hists[k:j])
        text += "Eval vm_compute in mismatches ok cases.\n"
        p = os.path.join(chk.dir, "cases_hist_%d.v" % len(files))
        with open(p, "w") as f:
            f.write(text)
        files.append((p, k, j - k))
        k = j
    return files


def diagnose(chk, h, tag):
    """index of the first request on which model and implementation differ (len = only the tables differ)"""
    p = os.path.join(chk.dir, "cases_diag_%s.v" % tag)
    with open(p, "w") as f:
        f.write(CASE_HDR + "Eval vm_compute in [diag %s].\n" % h.coq_case())
    rc, out = lib.coqc_file(p)
    r = lib.parse_nat_list(out) if rc == 0 else None
    return r[0] if r else None



# ----------------------------------------------------------------------------------------------
# aliasing between accessor results and the node's state
# ----------------------------------------------------------------------------------------------
MUTABLE = (dict, list, set, bytearray)


def plain(x):
    """value of an accessor result with objects replaced by what identifies them"""
    from pysmt.fnode import FNode
    from pysmt.typing import PySMTType
    if isinstance(x, FNode):
        return ("node", x.node_id())
    if isinstance(x, PySMTType):
        return ("sort", tdesc(x))
    if isinstance(x, dict):
        return ("dict", tuple(sorted(((plain(k), plain(v)) for k, v in x.items()), key=repr)))
    if isinstance(x, (list, tuple)):
        return (type(x).__name__, tuple(plain(y) for y in x))
    if isinstance(x, (set, frozenset)):
        return ("set", tuple(sorted((plain(y) for y in x), key=repr)))
    if isinstance(x, (int, str, bool, Fraction, float, type(None))):
        return x
    return ("obj", type(x).__name__, str(x))


def node_accessors(E, n):
    """(name, thunk) for every accessor applicable to node n: structural accessors of FNode, the sorts they return, the
    analyses that return containers, the symbol table views of the manager, the printers"""
    import io
    from pysmt.smtlib.printers import SmtPrinter
    nt = n.node_type()
    acc = [("node_type", n.node_type), ("args", n.args), ("node_id", n.node_id), ("is_constant", n.is_constant), ("is_symbol", n.is_symbol),
           ("get_type", lambda: E.env.stc.get_type(n)), ("free_variables", lambda: E.env.fvo.get_free_variables(n)),
           ("atoms", lambda: E.env.ao.get_atoms(n)), ("types", lambda: E.env.typeso.get_types(n)), ("size", lambda: E.env.sizeo.get_size(n)),
           ("serialize", lambda: E.env.serializer.serialize(n, threshold=12))]

    def smt():
        buf = io.StringIO()
        SmtPrinter(buf).printer(n)
        return buf.getvalue()
    acc.append(("smtlib", smt))
    if nt == op.SYMBOL:
        acc += [("symbol_name", n.symbol_name), ("symbol_type", n.symbol_type), ("get_symbol", lambda: E.m.get_symbol(n.symbol_name())),
                ("symbol_type.args", lambda: n.symbol_type().args)]
        if n.symbol_type().is_function_type():
            acc += [("symbol_type.param_types", lambda: n.symbol_type().param_types), ("symbol_type.return_type", lambda: n.symbol_type().return_type)]
    if n.is_constant() and nt != op.ARRAY_VALUE:
        acc += [("constant_value", n.constant_value), ("constant_type", n.constant_type)]
    if nt == op.BV_CONSTANT:
        acc += [("bv_unsigned_value", n.bv_unsigned_value), ("bv_signed_value", n.bv_signed_value), ("bv_bin_str", n.bv_bin_str)]
    if n.is_bv_op() or nt == op.BV_CONSTANT:
        acc.append(("bv_width", n.bv_width))
    if nt == op.BV_EXTRACT:
        acc += [("bv_extract_start", n.bv_extract_start), ("bv_extract_end", n.bv_extract_end)]
    if nt in (op.BV_ROL, op.BV_ROR):
        acc.append(("bv_rotation_step", n.bv_rotation_step))
    if nt in (op.BV_ZEXT, op.BV_SEXT):
        acc.append(("bv_extend_step", n.bv_extend_step))
    if nt == op.FUNCTION:
        acc.append(("function_name", n.function_name))
    if nt in (op.FORALL, op.EXISTS):
        acc.append(("quantifier_vars", n.quantifier_vars))
    if nt == op.ARRAY_VALUE:
        a = n.args()
        keys = list(a[1::2])
        acc += [("array_value_index_type", n.array_value_index_type), ("array_value_default", n.array_value_default),
                ("array_value_assigned_values_map", n.array_value_assigned_values_map)]
        for kk in keys:
            acc.append(("array_value_get(n%d)" % kk.node_id(), lambda kk=kk: n.array_value_get(kk)))
        others = [c for c in E.pool if c.is_constant() and c.node_type() != op.ARRAY_VALUE and all(c is not kk for kk in keys)][:2]
        for c in others:
            acc.append(("array_value_get(n%d)" % c.node_id(), lambda c=c: n.array_value_get(c)))
    return acc


def read_all(acc):
    out = {}
    for name, th in acc:
        try:
            out[name] = plain(th())
        except Exception as ex:   # noqa
            out[name] = ("raises", type(ex).__name__)
    return out


def mutate(r, spare):
    """edit a returned container in place; returns a description of the edits"""
    done = []
    try:
        if isinstance(r, dict):
            if r:
                k0 = next(iter(r))
                del r[k0]
                done.append("del m[first key]")
            if spare:
                r[spare[0]] = spare[-1]
                done.append("m[n%d] = n%d" % (spare[0].node_id(), spare[-1].node_id()))
        elif isinstance(r, list):
            r.append(spare[0] if spare else None)
            done.append("append")
            del r[0]
            done.append("del l[0]")
        elif isinstance(r, set):
            r.clear()
            done.append("clear")
            if spare:
                r.add(spare[0])
                done.append("add")
        elif isinstance(r, bytearray):
            r.extend(b"x")
            done.append("extend")
    except Exception as ex:   # noqa
        done.append("(edit raised %s)" % type(ex).__name__)
    return done


WIDTHS = [1, 2, 7, 8, 9, 63, 64, 65, 255, 256, 257, 258, 511, 1000, 4096]


def fresh_int(v):
    """an int object equal to v that is not the interned / constant-folded one"""
    return int(str(v))


def fresh_str(t):
    return "".join(list(t))


def in_env(E, thunk):
    """run thunk with E.env as the global environment (shortcuts, infix operators)"""
    import pysmt.environment as pe

    def run():
        pe.push_env(E.env)
        try:
            return thunk()
        finally:
            pe.pop_env()
    return run


def cbits(bits):
    return "[%s]" % "; ".join("true" if c == "1" else "false" for c in bits)


def magnitude_history(widths, tier):
    """every documented spelling of one constant / one payload, at magnitudes beyond CPython's small-int cache (-5..256)
    and beyond machine words, with arguments computed at run time (equal but not identical objects): one object, same accessors"""
    import pysmt.shortcuts as sc
    import pysmt.typing as T
    h = History(random.Random(7), 1)
    E = h.envs[0]
    m = E.m
    E.env.enable_infix_notation = True
    h.pre.append("pysmt.environment.push_env(m0.env); m0.env.enable_infix_notation = True")
    for w in widths:
        top = 2 ** w
        values = sorted(set(v for v in (0, 1, top - 1, top // 2, top // 3, 255, 256, 257) if 0 <= v < top))
        if w >= 511:
            values = [0, 1, top - 1, top // 3]
        if w >= 4096 and tier == "quick":
            values = [1, top - 1]                      # the 4096-bit literals dominate the Coq time of the quick tier
        for v in values:
            bits = format(v, "0%db" % w)
            key = ("BV", v, w)
            wa = fresh_int(w)
            sv = v - top if v >= top // 2 else v
            exp = (lambda n, v=v, w=w: None if (n.is_bv_constant() and n.constant_value() == v and n.bv_unsigned_value() == v and n.bv_width() == w
                                                and n.bv_signed_value() == (v - 2 ** w if v >= 2 ** (w - 1) else v) and tdesc(n.constant_type()) == BVt(w)
                                                and not n.args()) else "accessors report (%s, %s)" % (n.constant_value(), n.bv_width()))
            sp = [("RBV (BvInt %s) %s" % (tocoq.z(v), copt(w)), "m0.BV(int('%d'), int('%d'))" % (v, w), lambda v=v, wa=wa: m.BV(fresh_int(v), wa)),
                  ("RBV (BvBits true %s) None" % cbits(bits), "m0.BV('#b' + format(%d, '0%db'))" % (v, w), lambda bits=bits: m.BV(fresh_str("#b" + bits))),
                  ("RBV (BvBits false %s) None" % cbits(bits), "m0.BV(format(%d, '0%db'))" % (v, w), lambda bits=bits: m.BV(fresh_str(bits))),
                  ("RBV (BvBits true %s) %s" % (cbits(bits), copt(w)), "m0.BV('#b' + format(%d, '0%db'), int('%d'))" % (v, w, w),
                   lambda bits=bits, w=w: m.BV("#b" + bits, fresh_int(w))),
                  ("RBV (BvBits false %s) %s" % (cbits(bits), copt(w)), "m0.BV(format(%d, '0%db'), int('%d'))" % (v, w, w),
                   lambda bits=bits, w=w: m.BV(fresh_str(bits), fresh_int(w))),
                  ("RBV (BvBits true %s) %s" % (cbits(bits), copt(w)), "m0.BV('#b' + format(%d, '0%db'), width=int('%d'))" % (v, w, w),
                   lambda bits=bits, w=w: m.BV("#b" + bits, width=fresh_int(w))),
                  ("RSBV (BvInt %s) %s" % (tocoq.z(sv), copt(w)), "m0.SBV(int('%d'), int('%d'))" % (sv, w), lambda sv=sv, w=w: m.SBV(fresh_int(sv), fresh_int(w))),
                  ("RSBV (BvBits true %s) %s" % (cbits(bits), copt(w)), "m0.SBV('#b' + format(%d, '0%db'), int('%d'))" % (v, w, w),
                   lambda bits=bits, w=w: m.SBV("#b" + bits, fresh_int(w))),
                  ("RBV (BvInt %s) %s" % (tocoq.z(v), copt(w)), "pysmt.shortcuts.BV(int('%d'), int('%d'))" % (v, w),
                   in_env(E, lambda v=v, w=w: sc.BV(fresh_int(v), fresh_int(w)))),
                  ("RSBV (BvInt %s) %s" % (tocoq.z(sv), copt(w)), "pysmt.shortcuts.SBV(int('%d'), int('%d'))" % (sv, w),
                   in_env(E, lambda sv=sv, w=w: sc.SBV(fresh_int(sv), fresh_int(w))))]
            if v == 0:
                sp.append(("RBV (BvInt 0%%Z) %s" % copt(w), "m0.BVZero(int('%d'))" % w, lambda w=w: m.BVZero(fresh_int(w))))
            if v == 1:
                sp.append(("RBV (BvInt 1%%Z) %s" % copt(w), "m0.BVOne(int('%d'))" % w, lambda w=w: m.BVOne(fresh_int(w))))
            if w >= 511 and tier == "quick" and v not in (top - 1,):
                sp = sp[:1] + sp[3:5] + sp[6:]                      # keep the case files small: fewer long literals
            for coq, txt, th in sp:
                h.do(E, "BV", coq, txt, th, expect=exp, denot=key, must=True)
        # ---- terms of that width: payloads computed from run-time ints
        xn = "x%d" % w
        d = BVt(w)
        x = None
        for _ in range(2):
            x = h.do(E, "Symbol", "RSymbol %s %s" % (tocoq.cstr(xn), cty(d)), "m0.Symbol('x' + str(%d), BVType(int('%d')))" % (w, w),
                     lambda: m.Symbol(fresh_str("x") + str(w), E.env.type_manager.BVType(fresh_int(w))), denot=("sym", xn), must=True,
                     expect=lambda n: None if (n.symbol_name() == xn and n.symbol_type().width == w and n.bv_width() == w) else "symbol accessors")
        if E.env.type_manager.BVType(fresh_int(w)) is not E.env.type_manager.BVType(fresh_int(w)):
            h.complaints.append(("type-identity", "BVType(%d) twice: two objects" % w, len(h.reqs) - 1))
        if x is None:
            continue
        xid = x.node_id()
        for (s_, e_) in sorted(set([(0, w - 1), (w - 1, w - 1), (w // 2, w - 1), (0, w // 2)])):
            key = ("extract", w, s_, e_)
            chk = (lambda n, s_=s_, e_=e_: None if (n.node_type() == op.BV_EXTRACT and n.arg(0) is x and n.bv_extract_start() == s_ and n.bv_extract_end() == e_
                                                    and n.bv_width() == e_ - s_ + 1) else "extract accessors")
            h.do(E, "BVExtract", "RCtor CBvExtract [%d] %s" % (xid, czs([s_, e_])), "m0.BVExtract(n0_%d, int('%d'), int('%d'))" % (xid, s_, e_),
                 lambda s_=s_, e_=e_: m.BVExtract(x, fresh_int(s_), fresh_int(e_)), expect=chk, denot=key, must=True)
            h.do(E, "BVExtract", "RCtor CBvExtract [%d] %s" % (xid, czs([s_, e_])), "m0.BVExtract(n0_%d, start=int('%d'), end=int('%d'))" % (xid, s_, e_),
                 lambda s_=s_, e_=e_: m.BVExtract(x, start=fresh_int(s_), end=fresh_int(e_)), expect=chk, denot=key, must=True)
            if e_ == w - 1:
                h.do(E, "BVExtract", "RCtor CBvExtract [%d] %s" % (xid, czs([s_])), "m0.BVExtract(n0_%d, int('%d'))" % (xid, s_),
                     lambda s_=s_: m.BVExtract(x, fresh_int(s_)), expect=chk, denot=key, must=True)
            h.side(E, "BVExtract", "n0_%d[int('%d'):int('%d')]" % (xid, s_, e_), in_env(E, lambda s_=s_, e_=e_: x[fresh_int(s_):fresh_int(e_)]), denot=key)
        for k_ in sorted(set([0, 1, w // 2, w])):
            for nm, cq, nt in (("BVRol", "CBvRol", op.BV_ROL), ("BVRor", "CBvRor", op.BV_ROR)):
                for _ in range(2):
                    h.do(E, nm, "RCtor %s [%d] %s" % (cq, xid, czs([k_])), "m0.%s(n0_%d, int('%d'))" % (nm, xid, k_),
                         lambda nm=nm, k_=k_: getattr(m, nm)(x, fresh_int(k_)), denot=(nm, w, k_), must=True,
                         expect=lambda n, nt=nt, k_=k_: None if (n.node_type() == nt and n.arg(0) is x and n.bv_rotation_step() == k_ and n.bv_width() == w) else "rotation accessors")
        for k_ in (1, 257, 1000):
            for nm, cq, nt in (("BVZExt", "CBvZext", op.BV_ZEXT), ("BVSExt", "CBvSext", op.BV_SEXT)):
                for _ in range(2):
                    h.do(E, nm, "RCtor %s [%d] %s" % (cq, xid, czs([k_])), "m0.%s(n0_%d, int('%d'))" % (nm, xid, k_),
                         lambda nm=nm, k_=k_: getattr(m, nm)(x, fresh_int(k_)), denot=(nm, w, k_), must=True,
                         expect=lambda n, nt=nt, k_=k_: None if (n.node_type() == nt and n.arg(0) is x and n.bv_extend_step() == k_ and n.bv_width() == w + k_) else "extension accessors")
        kk = min(top - 1, 257)
        c = h.do(E, "BV", "RBV (BvInt %s) %s" % (tocoq.z(kk), copt(w)), "m0.BV(int('%d'), int('%d'))" % (kk, w), lambda: m.BV(fresh_int(kk), fresh_int(w)), must=True)
        if c is not None:
            for nm, bop, nt in (("BVLShl", "BLshl", op.BV_LSHL), ("BVLShr", "BLshr", op.BV_LSHR), ("BVAShr", "BAshr", op.BV_ASHR)):
                key = (nm, w, kk)
                chk = (lambda n, nt=nt: None if (n.node_type() == nt and n.arg(0) is x and n.arg(1) is c and n._content.payload == (w,) and n.bv_width() == w) else "shift accessors")
                h.do(E, nm + "_int", "RCtor (CBvShiftInt %s) [%d] %s" % (bop, xid, czs([kk])), "m0.%s(n0_%d, int('%d'))" % (nm, xid, kk),
                     lambda nm=nm: getattr(m, nm)(x, fresh_int(kk)), expect=chk, denot=key, must=True)
                h.do(E, nm, "RCtor (CBvBin %s) [%d; %d] []" % (bop, xid, c.node_id()), "m0.%s(n0_%d, n0_%d)" % (nm, xid, c.node_id()),
                     lambda nm=nm: getattr(m, nm)(x, c), expect=chk, denot=key, must=True)
            h.side(E, "BVLShl", "n0_%d << int('%d')" % (xid, kk), in_env(E, lambda: x << fresh_int(kk)), denot=("BVLShl", w, kk))
            a = h.do(E, "BVAdd", "RCtor (CBvNary BAdd) [%d; %d] []" % (xid, c.node_id()), "m0.BVAdd(n0_%d, n0_%d)" % (xid, c.node_id()), lambda: m.BVAdd(x, c),
                     denot=("BVAdd", w, kk), must=True, expect=lambda n: None if (n._content.payload == (w,) and n.bv_width() == w) else "width payload")
            h.side(E, "BVAdd", "n0_%d + int('%d')" % (xid, kk), in_env(E, lambda: x + fresh_int(kk)), denot=("BVAdd", w, kk))
            h.side(E, "BV", "(n0_%d + int('%d')).arg(1)" % (xid, kk), in_env(E, lambda: x + fresh_int(kk)), denot=("BV", kk, w), pick=lambda r: r.arg(1))
        cc = h.do(E, "BVConcat", "RCtor CBvConcat [%d; %d] []" % (xid, xid), "m0.BVConcat(n0_%d, n0_%d)" % (xid, xid), lambda: m.BVConcat(x, x), must=True,
                  expect=lambda n: None if (n._content.payload == (2 * w,) and n.bv_width() == 2 * w) else "concat width")
        for nm, cq in (("BVNot", "(CBvUn BNot)"), ("BVNeg", "(CBvUn BNeg)")):
            h.do(E, nm, "RCtor %s [%d] []" % (cq, xid), "m0.%s(n0_%d)" % (nm, xid), lambda nm=nm: getattr(m, nm)(x), must=True,
                 expect=lambda n: None if (n._content.payload == (w,) and n.bv_width() == w) else "width payload")
    h.finish()
    return h


def scalar_magnitude_history():
    """Int / Real / String constants and symbol names given as equal-but-not-identical Python objects"""
    import pysmt.shortcuts as sc
    import pysmt.typing as T
    h = History(random.Random(8), 1)
    E = h.envs[0]
    m = E.m
    E.env.enable_infix_notation = True
    h.pre.append("pysmt.environment.push_env(m0.env); m0.env.enable_infix_notation = True")
    i0 = h.do(E, "Symbol", "RSymbol %s TInt" % tocoq.cstr("i"), "m0.Symbol('i', INT)", lambda: m.Symbol("i", T.INT), must=True)
    r0 = h.do(E, "Symbol", "RSymbol %s TReal" % tocoq.cstr("r"), "m0.Symbol('r', REAL)", lambda: m.Symbol("r", T.REAL), must=True)
    for v in (0, -5, -6, 255, 256, 257, -257, 2 ** 31, 2 ** 63 - 1, 2 ** 63, 2 ** 64 + 1, -(2 ** 64), 10 ** 30, 3 ** 200):
        chk = (lambda n, v=v: None if (n.is_int_constant() and type(n.constant_value()) is int and n.constant_value() == v and not n.args()) else "Int accessors")
        for txt, th in (("m0.Int(int('%d'))" % v, lambda v=v: m.Int(fresh_int(v))), ("m0.Int(int('%d'))" % v, lambda v=v: m.Int(fresh_int(v))),
                        ("pysmt.shortcuts.Int(int('%d'))" % v, in_env(E, lambda v=v: sc.Int(fresh_int(v))))):
            c = h.do(E, "Int", "RInt (PyInt %s)" % tocoq.z(v), txt, th, expect=chk, denot=("Int", v), must=True)
        if c is not None and i0 is not None:
            h.do(E, "Plus", "RCtor CPlus [%d; %d] []" % (i0.node_id(), c.node_id()), "m0.Plus(n0_%d, n0_%d)" % (i0.node_id(), c.node_id()),
                 lambda: m.Plus(i0, c), denot=("i+", v), must=True)
            h.side(E, "Plus", "n0_%d + int('%d')" % (i0.node_id(), v), in_env(E, lambda v=v: i0 + fresh_int(v)), denot=("i+", v))
            h.do(E, "LE", "RCtor (CNode OLe) [%d; %d] []" % (i0.node_id(), c.node_id()), "m0.LE(n0_%d, n0_%d)" % (i0.node_id(), c.node_id()),
                 lambda: m.LE(i0, c), denot=("i<=", v), must=True)
            h.side(E, "LE", "n0_%d <= int('%d')" % (i0.node_id(), v), in_env(E, lambda v=v: i0 <= fresh_int(v)), denot=("i<=", v))
        # ToReal(Int constant) is the Real constant of the same value
        rc = h.do(E, "Real", "RReal (PyInt %s)" % tocoq.z(v), "m0.Real(int('%d'))" % v, lambda v=v: m.Real(fresh_int(v)), denot=("Real", Fraction(v)), must=True)
        if c is not None:
            h.do(E, "ToReal", "RCtor CToReal [%d] []" % c.node_id(), "m0.ToReal(n0_%d)" % c.node_id(), lambda: m.ToReal(c), denot=("Real", Fraction(v)), must=True)
    for q in (Fraction(257), Fraction(2 ** 64 + 1), Fraction(2 ** 70 + 1, 3), Fraction(1, 257), Fraction(-(10 ** 25), 7 ** 30), Fraction(1, 2), Fraction(3, 2 ** 70)):
        n_, d_ = q.numerator, q.denominator
        chk = (lambda n, q=q: None if (n.is_real_constant() and type(n.constant_value()) is Fraction and n.constant_value() == q and not n.args()) else "Real accessors")
        sp = [("RReal (PyFrac %s %s)" % (tocoq.z(n_), tocoq.z(d_)), "m0.Real(Fraction(int('%d'), int('%d')))" % (n_, d_), lambda: m.Real(Fraction(fresh_int(n_), fresh_int(d_)))),
              ("RReal (PyFrac %s %s)" % (tocoq.z(n_), tocoq.z(d_)), "m0.Real(Fraction(int('%d'), int('%d')))" % (n_, d_), lambda: m.Real(Fraction(fresh_int(n_), fresh_int(d_)))),
              ("RReal (PyPair %s %s)" % (tocoq.z(n_), tocoq.z(d_)), "m0.Real((int('%d'), int('%d')))" % (n_, d_), lambda: m.Real((fresh_int(n_), fresh_int(d_)))),
              ("RReal (PyPair %s %s)" % (tocoq.z(-3 * n_), tocoq.z(-3 * d_)), "m0.Real((int('%d'), int('%d')))" % (-3 * n_, -3 * d_), lambda: m.Real((fresh_int(-3 * n_), fresh_int(-3 * d_)))),
              ("RReal (PyFrac %s %s)" % (tocoq.z(n_), tocoq.z(d_)), "pysmt.shortcuts.Real(Fraction(int('%d'), int('%d')))" % (n_, d_),
               in_env(E, lambda: sc.Real(Fraction(fresh_int(n_), fresh_int(d_)))))]
        if d_ == 1:
            sp.append(("RReal (PyInt %s)" % tocoq.z(n_), "m0.Real(int('%d'))" % n_, lambda: m.Real(fresh_int(n_))))
        if Fraction(float(q)) == q:
            sp.append(("RReal %s" % cpyval(float(q)), "m0.Real(float(Fraction(%d, %d)))" % (n_, d_), lambda: m.Real(float(Fraction(n_, d_)))))
        c = None
        for coq, txt, th in sp:
            c = h.do(E, "Real", coq, txt, th, expect=chk, denot=("Real", q), must=True)
        if c is not None and r0 is not None:
            h.do(E, "Plus", "RCtor CPlus [%d; %d] []" % (r0.node_id(), c.node_id()), "m0.Plus(n0_%d, n0_%d)" % (r0.node_id(), c.node_id()),
                 lambda: m.Plus(r0, c), denot=("r+", q), must=True)
            h.side(E, "Plus", "n0_%d + Fraction(%d, %d)" % (r0.node_id(), n_, d_), in_env(E, lambda: r0 + Fraction(fresh_int(n_), fresh_int(d_))), denot=("r+", q))
    for t in ("", "a", "ab257", "x" * 300, "quote\"d", "café"):
        for _ in range(2):
            h.do(E, "String", "RString %s" % cpyval(t), "m0.String(''.join(list(%r)))" % t, lambda t=t: m.String(fresh_str(t)), denot=("Str", t), must=True,
                 expect=lambda n, t=t: None if (n.is_string_constant() and n.constant_value() == t) else "String accessors")
        h.do(E, "String", "RString %s" % cpyval(t), "pysmt.shortcuts.String(''.join(list(%r)))" % t, in_env(E, lambda t=t: sc.String(fresh_str(t))), denot=("Str", t), must=True)
    for nm, d in (("v257", I), ("a_long_name_" + "y" * 300, R), ("café", BVt(257)), ("f257", ("Fun", (BVt(257), I), BVt(300))), ("arr", ("Arr", BVt(300), BVt(257)))):
        for meth in ("Symbol", "get_or_create_symbol", "Symbol"):
            h.do(E, "Symbol", "RSymbol %s %s" % (tocoq.cstr(nm), cty(d)), "m0.%s(''.join(list(%r)), <%s>)" % (meth, nm, "sort built again"),
                 lambda nm=nm, d=d, meth=meth: getattr(m, meth)(fresh_str(nm), mkty(E.env, d)), denot=("sym", nm), must=True,
                 expect=lambda n, nm=nm, d=d: None if (n.symbol_name() == nm and tdesc(n.symbol_type()) == d and m.get_symbol(fresh_str(nm)) is n) else "symbol accessors")
        h.do(E, "Symbol", "RSymbol %s %s" % (tocoq.cstr(nm), cty(d)), "pysmt.shortcuts.Symbol(''.join(list(%r)), <sort>)" % nm,
             in_env(E, lambda nm=nm, d=d: sc.Symbol(fresh_str(nm), mkty(E.env, d))), denot=("sym", nm), must=True)
        if mkty(E.env, d) is not mkty(E.env, d):
            h.complaints.append(("type-identity", "the sort %s built twice in one type manager gives two objects" % (d,), len(h.reqs) - 1))
    h.finish()
    return h


WORKER_SORTS = ([BVt(w) for w in (2, 3, 5, 6, 7, 9, 11, 13, 14, 15, 17, 24, 33, 65, 257)]
                + [("Arr", BVt(a), R) for a in (3, 13, 15)] + [("Arr", I, BVt(b)) for b in (5, 14)]
                + [("Arr", BVt(13), ("Arr", I, BVt(14))), ("Arr", R, B), ("Arr", BVt(6), BVt(6))]
                + [("Fun", (R, BVt(3)), I), ("Fun", (BVt(6),), BVt(6)), ("Fun", (I, I), R), ("Fun", (BVt(9),), B)]
                + [("User", "S%d" % i, ()) for i in range(4)] + [("User", "P", (BVt(5),)), ("User", "P", (R,)), P_QI])


def lifetime_history(seed, k, nworkers, ndst):
    """one (or two alternating) long-lived destination environments; many short-lived source environments with their own
    non-singleton sorts, each deleted and garbage-collected before the next is created (addresses are reused)"""
    rnd = random.Random("life:%s:%d" % (seed, k))
    h = History(rnd, ndst)
    dsts = list(h.envs)
    for wk in range(nworkers):
        Wk = h.add_env()
        sorts = rnd.sample(WORKER_SORTS, 3) + [I, R, B]
        for j, d in enumerate(sorts):
            for c in "uv":
                nm = "%s%d_%d" % (c, j, wk)
                t = mkty(Wk.env, d)
                h.do(Wk, "Symbol", "RSymbol %s %s" % (tocoq.cstr(nm), cty(d)), "m%d.Symbol(%r, %s)" % (Wk.k, nm, t), lambda nm=nm, t=t: Wk.m.Symbol(fresh_str(nm), t),
                     reqkey=("Symbol", nm, d), must=True)
        gens = [h.g_plain, h.g_plain, h.g_nary, h.g_not, h.g_derived, h.g_bvop, h.g_function, h.g_function, h.g_quant, h.g_swap, h.g_plain, h.g_array]
        start = len(h.reqs)
        tries = 0
        while len(h.reqs) < start + 9 and tries < 60:
            tries += 1
            rnd.choice(gens)(Wk)
        roots = [n for n in Wk.pool if n.args()] or list(Wk.pool)
        for f in rnd.sample(roots, min(len(roots), 3)) + rnd.sample(Wk.pool, 2):
            D = dsts[wk % ndst] if rnd.random() < 0.8 else rnd.choice(dsts)
            h.g_normalize(D, Wk, f)
        roots = f = t = D = sorts = None
        h.release(Wk)
        Wk = None
    h.finish()
    return h


def container_forms(L, pool):
    """the same requested argument list L handed over through every container protocol:
    (form name, python text of the argument, the object (None = varargs), the sequence it denotes)"""
    import collections
    import itertools
    L = list(L)
    txt = "[%s]" % ", ".join("n0_%d" % x.node_id() for x in L)
    out = [("varargs", "*" + txt, None, L),
           ("list", txt, list(L), L),
           ("tuple", "tuple(%s)" % txt, tuple(L), L),
           ("genexp", "(x for x in %s)" % txt, (x for x in list(L)), L),
           ("map", "map(lambda x: x, %s)" % txt, map(lambda x: x, list(L)), L),
           ("filter", "filter(lambda x: True, %s)" % txt, filter(lambda x: True, list(L)), L),
           ("iter", "iter(%s)" % txt, iter(list(L)), L),
           ("chain", "itertools.chain(%s[:1], %s[1:])" % (txt, txt), itertools.chain(L[:1], L[1:]), L),
           ("deque", "collections.deque(%s)" % txt, collections.deque(L), L),
           ("reversed", "reversed(%s[::-1])" % txt, reversed(L[::-1]), L)]
    st = set(L)
    out.append(("set", "set(%s)" % txt, st, list(st)))
    fs = frozenset(L)
    out.append(("frozenset", "frozenset(%s)" % txt, fs, list(fs)))
    d = dict.fromkeys(L)
    out.append(("dict", "dict.fromkeys(%s)" % txt, d, list(d)))
    out.append(("dict_keys", "dict.fromkeys(%s).keys()" % txt, d.keys(), list(d)))
    if not L:
        ptxt = "[%s]" % ", ".join("n0_%d" % x.node_id() for x in pool)
        out.append(("filter_none", "filter(lambda x: False, %s)" % ptxt, filter(lambda x: False, list(pool)), []))
        out.append(("genexp_none", "(x for x in %s if x is None)" % ptxt, (x for x in list(pool) if x is None), []))
        out.append(("map_none", "map(lambda x: x, [])", map(lambda x: x, []), []))
    return out


def container_histories():
    """argument container protocol: every entry point whose parameter is an Iterable gets the same requested structure as
    varargs, list, tuple, set, frozenset, dict, keys view, deque, generator expression, map, filter, iter, chain, reversed -
    empty, singleton, with duplicates: identical object (or identical exception), one-shot iterables consumed once.
    The model replays every call as the list form.  Each result is then copied into a second environment."""
    import collections
    import types
    import pysmt.shortcuts as sc
    hs = []
    for modelled in (True, False):
        h = History(random.Random(11), 2)
        h.strict_err = True
        h.model = modelled
        E, D = h.envs
        m = E.m

        def sym(nm, d):
            return h.do(E, "Symbol", "RSymbol %s %s" % (tocoq.cstr(nm), cty(d)), "m0.Symbol(%r, ...)" % nm, lambda: m.Symbol(nm, mkty(E.env, d)), must=True)
        bs = [sym(x, B) for x in "abc"]
        is_ = [sym(x, I) for x in "ijk"]
        rs = [sym(x, R) for x in ("r1", "r2", "r3")]
        vs = [sym(x, BVt(8)) for x in ("p", "q", "w8")]
        ss = [sym(x, S) for x in ("s1", "s2", "s3")]
        fn = sym("fn", ("Fun", (I, I), I))
        body = h.do(E, "LE", "RCtor (CNode OLe) [%d; %d] []" % (is_[0].node_id(), is_[1].node_id()), "m0.LE(i, j)", lambda: m.LE(is_[0], is_[1]), must=True)
        qbody = h.do(E, "And", "RCtor CAnd [%d; %d] []" % (bs[0].node_id(), body.node_id()), "m0.And(a, i <= j)", lambda: m.And(bs[0], body), must=True)

        def shapes(xs):
            x, y, z = xs
            return [[], [x], [x, y], [x, y, x], [y, x], [x, y, z], [x, x]]

        def call(kind, fun, funtxt, coqf, L, pool, varargs=True, wrap=None, wraptxt="%s", shortcut=False):
            """all container forms of the argument list L for one entry point; coqf(ids) -> Coq request (the list form);
            wrap(container) -> argument tuple when the iterable is not the only parameter"""
            for form, atxt, obj, seq in container_forms(L, pool):
                if form == "varargs":
                    if not varargs:
                        continue
                    th = (lambda seq=seq: fun(*seq))
                elif wrap is not None:
                    th = (lambda obj=obj: fun(*wrap(obj)))
                else:
                    th = (lambda obj=obj: fun(obj))
                if shortcut:
                    th = in_env(E, th)
                ids = [x.node_id() for x in seq]
                h.do(E, kind, coqf(ids), "%s(%s)" % (funtxt, wraptxt % atxt), th, reqkey=(kind, tuple(ids)), denot=(kind, tuple(ids)))

        if modelled:
            nary = [("And", "CAnd", bs), ("Or", "COr", bs), ("Plus", "CPlus", is_), ("Times", "CTimes", rs), ("BVAnd", "(CBvNary BAnd)", vs),
                    ("BVOr", "(CBvNary BOr)", vs), ("BVAdd", "(CBvNary BAdd)", vs), ("BVMul", "(CBvNary BMul)", vs), ("BVConcat", "CBvConcat", vs),
                    ("StrConcat", "CStrConcat", ss)]
            for meth, cq, xs in nary:
                for L in shapes(xs):
                    call(meth, getattr(m, meth), "m0." + meth, lambda ids, cq=cq: "RCtor %s %s []" % (cq, cids(ids)), L, xs)
            for meth, cq, xs in (("And", "CAnd", bs), ("Or", "COr", bs), ("Plus", "CPlus", is_), ("Times", "CTimes", rs)):
                for L in shapes(xs)[:4]:
                    call(meth, getattr(sc, meth), "pysmt.shortcuts." + meth, lambda ids, cq=cq: "RCtor %s %s []" % (cq, cids(ids)), L, xs, shortcut=True)
            for meth, univ in (("ForAll", "true"), ("Exists", "false")):
                for L in shapes(is_) + [[bs[1]], [bs[1], is_[2]]]:
                    coqf = (lambda ids, univ=univ: "RCtor (CQuant %s) %s []" % (univ, cids([qbody.node_id()] + ids)))
                    call(meth, getattr(m, meth), "m0." + meth, coqf, L, is_ + bs, varargs=False, wrap=lambda o: (o, qbody), wraptxt="%%s, n0_%d" % qbody.node_id())
                for L in shapes(is_)[:3]:
                    coqf = (lambda ids, univ=univ: "RCtor (CQuant %s) %s []" % (univ, cids([qbody.node_id()] + ids)))
                    call(meth, getattr(sc, meth), "pysmt.shortcuts." + meth, coqf, L, is_ + bs, varargs=False, wrap=lambda o: (o, qbody),
                         wraptxt="%%s, n0_%d" % qbody.node_id(), shortcut=True)
            # Function(vname, params: Sequence): the sized containers
            for L in ([], [is_[0], is_[1]], [is_[0], is_[0]], [is_[1]], [is_[0], is_[1], is_[2]]):
                ids = [x.node_id() for x in L]
                for form, mk in (("list", list), ("tuple", tuple), ("deque", collections.deque)):
                    h.do(E, "Function", "RCtor CFunction %s []" % cids([fn.node_id()] + ids), "m0.Function(n0_%d, %s(%s))" % (fn.node_id(), form, ids),
                         lambda mk=mk, L=L: m.Function(fn, mk(L)), reqkey=("Function", tuple(ids)), denot=("Function", tuple(ids)))
            # Array(idx, default, assigned_values: Dict): mapping protocols, insertion orders, the empty map
            ks = [h.do(E, "Int", "RInt (PyInt %d%%Z)" % v, "m0.Int(%d)" % v, lambda v=v: m.Int(v), must=True) for v in (1, 2, 3)]
            dflt = ks[2]
            import pysmt.typing as T
            for pairs in ([], [(ks[0], ks[1])], [(ks[0], ks[1]), (ks[1], ks[0])], [(ks[0], ks[1]), (ks[1], dflt)], [(ks[0], dflt)]):
                eff = tuple(sorted((a.node_id(), b.node_id()) for a, b in pairs if b is not dflt))
                forms = [("dict", lambda pr: dict(pr), pairs), ("dict_reversed", lambda pr: dict(pr), pairs[::-1]),
                         ("OrderedDict", lambda pr: collections.OrderedDict(pr), pairs), ("MappingProxyType", lambda pr: types.MappingProxyType(dict(pr)), pairs)]
                if not pairs:
                    forms += [("None", lambda pr: None, pairs), ("omitted", None, pairs)]
                for form, mk, pr in forms:
                    coq = "RArray TInt %d [%s]" % (dflt.node_id(), "; ".join("(%d, %d)" % (a.node_id(), b.node_id()) for a, b in pr))
                    th = (lambda: m.Array(T.INT, dflt)) if mk is None else (lambda mk=mk, pr=pr: m.Array(T.INT, dflt, mk(pr)))
                    h.do(E, "Array", coq, "m0.Array(INT, n0_%d, <%s of %s>)" % (dflt.node_id(), form, [(a.node_id(), b.node_id()) for a, b in pr]), th,
                         reqkey=("Array", eff), denot=("Array", eff))
        else:
            # entry points outside the Coq model: oracle only (one object per requested structure, identical exceptions)
            for meth, xs in (("AtMostOne", bs), ("ExactlyOne", bs), ("AllDifferent", is_), ("AllDifferent", bs), ("Min", is_), ("Max", rs)):
                for L in shapes(xs):
                    call(meth + ":" + str(xs is bs), getattr(m, meth), "m0." + meth, lambda ids: "RBool (PyBool true)", L, xs)
                for L in shapes(xs)[:4]:
                    call(meth + ":" + str(xs is bs), getattr(sc, meth), "pysmt.shortcuts." + meth, lambda ids: "RBool (PyBool true)", L, xs, shortcut=True)
            for sign in (False, True):
                for meth in ("MinBV", "MaxBV"):
                    for L in shapes(vs):
                        call("%s:%s" % (meth, sign), getattr(m, meth), "m0." + meth, lambda ids: "RBool (PyBool true)", L, vs,
                             wrap=lambda o, sign=sign: (sign, o), wraptxt="%s, %%s" % sign, varargs=False)
        # every result is copied into the second environment
        for key in list(E.denot):
            h.g_normalize(D, E, E.denot[key][0])
        h.finish()
        hs.append(h)
    return hs


def composition_history():
    """every normalising / sort-dispatching constructor applied to operands whose HEAD is each operator of the argument
    sort, in every sort the head operator is overloaded for (DIV, PLUS, MINUS, TIMES, POW over Int and Real; ITE, SELECT,
    FUNCTION over every sort; EQUALS / IFF; LE / LT over Int and Real ...): the result must read back the blueprint the
    constructor documents, be the table's node for that blueprint and have the derived sort.  The model replays the calls."""
    h = History(random.Random(13), 1)
    E = h.envs[0]
    m = E.m
    BV8 = BVt(8)
    AII, AIR, AIB, AIV, AIS = ("Arr", I, I), ("Arr", I, R), ("Arr", I, B), ("Arr", I, BV8), ("Arr", I, S)

    def sym(nm, d):
        return h.do(E, "Symbol", "RSymbol %s %s" % (tocoq.cstr(nm), cty(d)), "m0.Symbol(%r, ...)" % nm, lambda: m.Symbol(nm, mkty(E.env, d)), must=True)

    def mk(meth, coq, args, zs=(), pyargs=None):
        return h.ctor(E, meth, coq, meth, args, zs=zs, pyargs=pyargs)
    a, b = sym("a", B), sym("b", B)
    i, j = sym("i", I), sym("j", I)
    r, q = sym("r", R), sym("q", R)
    p, u = sym("p", BV8), sym("u", BV8)
    s_, t_ = sym("s", S), sym("t", S)
    arr = {d: sym("arr_%s" % d[2][0], d) for d in (AII, AIR, AIB, AIV, AIS)}
    arr2 = sym("arr2", AII)
    fun = {d: sym("f_%s" % d[0], ("Fun", (I,), d)) for d in (I, R, B, BV8, S)}
    c_i = h.do(E, "Int", "RInt (PyInt 3%Z)", "m0.Int(3)", lambda: m.Int(3), must=True)
    c_i0 = h.do(E, "Int", "RInt (PyInt 0%Z)", "m0.Int(0)", lambda: m.Int(0), must=True)
    c_i2 = h.do(E, "Int", "RInt (PyInt 2%Z)", "m0.Int(2)", lambda: m.Int(2), must=True)
    c_r = h.do(E, "Real", "RReal (PyFrac 5%Z 2%Z)", "m0.Real(Fraction(5, 2))", lambda: m.Real(Fraction(5, 2)), must=True)
    c_r0 = h.do(E, "Real", "RReal (PyInt 0%Z)", "m0.Real(0)", lambda: m.Real(0), must=True)
    c_r2 = h.do(E, "Real", "RReal (PyInt 2%Z)", "m0.Real(2)", lambda: m.Real(2), must=True)
    c_v = h.do(E, "BV", "RBV (BvInt 5%Z) (Some 8%Z)", "m0.BV(5, 8)", lambda: m.BV(5, 8), must=True)
    c_s = h.do(E, "String", "RString %s" % cpyval("ab"), "m0.String('ab')", lambda: m.String("ab"), must=True)
    c_t = h.do(E, "Bool", "RBool (PyBool true)", "m0.TRUE()", lambda: m.TRUE(), must=True)

    def generic(d, x, y):
        """heads available in every sort d (x, y: two symbols of sort d)"""
        out = [("symbol", x), ("Ite", mk("Ite", "(CNode OIte)", [a, x, y]))]
        if d in fun:
            out.append(("Function", mk("Function", "CFunction", [fun[d], i], pyargs=("%s, [%s]" % (h.name(E, fun[d]), h.name(E, i)), lambda: m.Function(fun[d], [i])))))
        ad = ("Arr", I, d)
        if ad in arr:
            out.append(("Select", mk("Select", "(CNode OSelect)", [arr[ad], i])))
        return out
    heads = {}
    heads[I] = generic(I, i, j) + [
        ("constant", c_i), ("Plus", mk("Plus", "CPlus", [i, j])), ("Minus", mk("Minus", "(CNode OMinus)", [i, j])), ("Times", mk("Times", "CTimes", [i, j])),
        ("Div", mk("Div", "CDiv", [i, j])), ("Div_by_const", mk("Div", "CDiv", [i, c_i])), ("StrLength", mk("StrLength", "(CNode (OStr SLength))", [s_])),
        ("StrToInt", mk("StrToInt", "(CNode (OStr SToInt))", [s_])), ("StrIndexOf", mk("StrIndexOf", "(CNode (OStr SIndexOf))", [s_, t_, i])),
        ("BVToNatural", mk("BVToNatural", "(CNode OBVToNat)", [p]))]
    heads[R] = generic(R, r, q) + [
        ("constant", c_r), ("Plus", mk("Plus", "CPlus", [r, q])), ("Minus", mk("Minus", "(CNode OMinus)", [r, q])), ("Times", mk("Times", "CTimes", [r, q])),
        ("Div", mk("Div", "CDiv", [r, q])), ("Div_by_zero", mk("Div", "CDiv", [r, c_r0])), ("Div_by_const", mk("Div", "CDiv", [r, c_r])),
        ("ToReal", mk("ToReal", "CToReal", [i])), ("ToReal_of_Div", mk("ToReal", "CToReal", [dict(heads[I])["Div"]])), ("Pow", mk("Pow", "CPow", [r, c_r2])),
        ("Pow_int", mk("Pow", "CPow", [i, c_i2]))]
    heads[B] = generic(B, a, b) + [
        ("constant", c_t), ("Not", mk("Not", "CNot", [a])), ("And", mk("And", "CAnd", [a, b])), ("Or", mk("Or", "COr", [a, b])),
        ("Implies", mk("Implies", "(CNode OImplies)", [a, b])), ("Iff", mk("Iff", "(CNode OIff)", [a, b])), ("Equals", mk("Equals", "(CNode OEquals)", [i, j])),
        ("Equals_real", mk("Equals", "(CNode OEquals)", [r, q])), ("LE_int", mk("LE", "(CNode OLe)", [i, j])), ("LE_real", mk("LE", "(CNode OLe)", [r, q])),
        ("LT_int", mk("LT", "(CNode OLt)", [i, j])), ("LT_real", mk("LT", "(CNode OLt)", [r, q])),
        ("ForAll", mk("ForAll", "(CQuant true)", [a, i], pyargs=("[%s], %s" % (h.name(E, i), h.name(E, a)), lambda: m.ForAll([i], a)))),
        ("Exists", mk("Exists", "(CQuant false)", [a, r], pyargs=("[%s], %s" % (h.name(E, r), h.name(E, a)), lambda: m.Exists([r], a)))),
        ("BVULT", mk("BVULT", "(CNode (OBVRel BUlt))", [p, u])), ("BVSLE", mk("BVSLE", "(CNode (OBVRel BSle))", [p, u])),
        ("StrContains", mk("StrContains", "(CNode (OStr SContains))", [s_, t_])), ("StrPrefixOf", mk("StrPrefixOf", "(CNode (OStr SPrefixOf))", [s_, t_]))]
    heads[BV8] = generic(BV8, p, u) + [
        ("constant", c_v), ("BVNot", mk("BVNot", "(CBvUn BNot)", [p])), ("BVNeg", mk("BVNeg", "(CBvUn BNeg)", [p])), ("BVAdd", mk("BVAdd", "(CBvNary BAdd)", [p, u])),
        ("BVAnd", mk("BVAnd", "(CBvNary BAnd)", [p, u])), ("BVSub", mk("BVSub", "(CBvBin BSub)", [p, u])), ("BVUDiv", mk("BVUDiv", "(CBvBin BUdiv)", [p, u])),
        ("BVLShl", mk("BVLShl", "(CBvBin BLshl)", [p, u])), ("BVRol", mk("BVRol", "CBvRol", [p], zs=[3])), ("BVZExt0", mk("BVZExt", "CBvZext", [p], zs=[0])),
        ("BVExtract_full", mk("BVExtract", "CBvExtract", [p], zs=[0, 7]))]
    heads[S] = generic(S, s_, t_) + [
        ("constant", c_s), ("StrConcat", mk("StrConcat", "CStrConcat", [s_, t_])), ("IntToStr", mk("IntToStr", "(CNode (OStr SFromInt))", [i])),
        ("StrSubstr", mk("StrSubstr", "(CNode (OStr SSubstr))", [s_, i, j])), ("StrReplace", mk("StrReplace", "(CNode (OStr SReplace))", [s_, t_, s_])),
        ("StrCharAt", mk("StrCharAt", "(CNode (OStr SCharAt))", [s_, i]))]
    import pysmt.typing as T
    heads[AII] = [("symbol", arr[AII]), ("Ite", mk("Ite", "(CNode OIte)", [a, arr[AII], arr2])), ("Store", mk("Store", "(CNode OStore)", [arr[AII], i, j])),
                  ("Array", h.do(E, "Array", "RArray TInt %d [(%d, %d)]" % (c_i0.node_id(), c_i.node_id(), c_i2.node_id()), "m0.Array(INT, 0, {3: 2})",
                                 lambda: m.Array(T.INT, c_i0, {c_i: c_i2}), must=True))]
    heads = {d: [(lbl, x) for lbl, x in l if x is not None] for d, l in heads.items()}
    sym2 = {I: j, R: q, B: b, BV8: u, S: t_, AII: arr2}

    def sort_of(x):
        return tdesc(E.env.stc.get_type(x))

    def apply(kind, coq, meth, args, zs=(), expect=None, sort=None, pyargs=None):
        """a normalising constructor on head operands: blueprint read-back and derived sort"""
        n = h.ctor(E, kind, coq, meth, args, zs=zs, expect=expect, pyargs=pyargs)
        h.comp_calls += 1
        if n is not None and sort is not None:
            try:
                got = sort_of(n)
            except Exception as ex:   # noqa
                got = "raises %s" % type(ex).__name__
            if got != sort:
                h.complaints.append(("blueprint:%s:sort" % kind, "%s: the result %s has sort %s, the constructor derives %s"
                                     % (h.py[-1], n.serialize(), got, sort), len(h.reqs) - 1))
        return n
    isn = History.is_node
    for d, hl in heads.items():
        y = sym2[d]
        for lbl, x in hl:
            tag = "%s" % lbl
            # sort-dispatching equality, Ite, NotEquals: every sort
            isb = d == B
            apply("EqualsOrIff(%s)" % tag, "CEqualsOrIff", "EqualsOrIff", [x, y], expect=isn(op.IFF if isb else op.EQUALS, [x, y]), sort=B)
            apply("EqualsOrIff'(%s)" % tag, "CEqualsOrIff", "EqualsOrIff", [y, x], expect=isn(op.IFF if isb else op.EQUALS, [y, x]), sort=B)
            apply("Ite(%s)" % tag, "(CNode OIte)", "Ite", [a, x, y], expect=isn(op.ITE, [a, x, y]), sort=d)
            if not isb:
                apply("NotEquals(%s)" % tag, "CNotEquals", "NotEquals", [x, y], sort=B,
                      expect=lambda n, x=x, y=y: None if (n.is_not() and isn(op.EQUALS, [x, y])(n.arg(0)) is None) else "NotEquals is not Not(Equals)")
            if ("Arr", I, d) in arr:
                ar_ = arr[("Arr", I, d)]
                apply("Store(%s)" % tag, "(CNode OStore)", "Store", [ar_, i, x], expect=isn(op.ARRAY_STORE, [ar_, i, x]), sort=("Arr", I, d))
            if d in (I, R):
                # ToReal: TOREAL over the operand unless it IS Real-sorted or an Int constant
                def exp_toreal(n, x=x, d=d):
                    if d == R:
                        return None if n is x else "ToReal of a Real-sorted term is not the term"
                    if isic(x):
                        return None if (isrc(n) and n.constant_value() == x.constant_value()) else "ToReal(Int constant) is not the Real constant"
                    return isn(op.TOREAL, [x])(n) or (None if n.is_toreal() else "is_toreal() is False")
                apply("ToReal(%s)" % tag, "CToReal", "ToReal", [x], expect=exp_toreal, sort=R)
                for cn, c in (("sym", y), ("const", c_r if d == R else c_i), ("zero", c_r0 if d == R else c_i0), ("realconst", c_r), ("realzero", c_r0)):
                    def exp_div(n, x=x, c=c):
                        if isrc(c) and c.constant_value() != 0:
                            inv = 1 / Fraction(c.constant_value())
                            return None if (n.node_type() == op.TIMES and n.arg(0) is x and isrc(n.arg(1)) and n.arg(1).constant_value() == inv) else "Div by a Real constant is not Times by the inverse"
                        return isn(op.DIV, [x, c])(n)
                    same = (sort_of(c) == d)
                    apply("Div(%s,%s)" % (tag, cn), "CDiv", "Div", [x, c], expect=exp_div, sort=d if same else None)
                    apply("Div'(%s,%s)" % (tag, cn), "CDiv", "Div", [c, x], sort=d if same else None,
                          expect=lambda n, x=x, c=c: (None if (n.node_type() == op.TIMES and n.arg(0) is c) else "Div by a Real constant is not Times") if (isrc(x) and x.constant_value() != 0) else isn(op.DIV, [c, x])(n))
                e2 = c_r2 if d == R else c_i2

                def exp_pow(n, x=x, e2=e2):
                    if isnum(x):
                        return None if (isrc(n) and n.constant_value() == Fraction(x.constant_value()) ** 2) else "Pow of constants is not the Real constant"
                    return isn(op.POW, [x, e2])(n)
                apply("Pow(%s)" % tag, "CPow", "Pow", [x, e2], expect=exp_pow, sort=R)
                for meth, nt, cq in (("Plus", op.PLUS, "CPlus"), ("Times", op.TIMES, "CTimes")):
                    apply("%s1(%s)" % (meth, tag), cq, meth, [x], expect=lambda n, x=x: None if n is x else "unary n-ary constructor is not its argument", sort=d)
                    apply("%s2(%s)" % (meth, tag), cq, meth, [x, y], expect=isn(nt, [x, y]), sort=d)
                apply("Minus(%s)" % tag, "(CNode OMinus)", "Minus", [x, y], expect=isn(op.MINUS, [x, y]), sort=d)
                apply("LE(%s)" % tag, "(CNode OLe)", "LE", [x, y], expect=isn(op.LE, [x, y]), sort=B)
                apply("GE(%s)" % tag, "CGE", "GE", [x, y], expect=isn(op.LE, [y, x]), sort=B)
                apply("GT(%s)" % tag, "CGT", "GT", [x, y], expect=isn(op.LT, [y, x]), sort=B)
            if d == I:
                apply("Select(%s)" % tag, "(CNode OSelect)", "Select", [arr[AII], x], expect=isn(op.ARRAY_SELECT, [arr[AII], x]), sort=I)
                apply("IntToStr(%s)" % tag, "(CNode (OStr SFromInt))", "IntToStr", [x], expect=isn(op.INT_TO_STR, [x]), sort=S)
            if isb:
                apply("Not(%s)" % tag, "CNot", "Not", [x], sort=B,
                      expect=lambda n, x=x: (None if n is x.arg(0) else "Not(Not(x)) is not x") if x.is_not() else isn(op.NOT, [x])(n))
                for meth, nt, cq in (("And", op.AND, "CAnd"), ("Or", op.OR, "COr")):
                    apply("%s1(%s)" % (meth, tag), cq, meth, [x], expect=lambda n, x=x: None if n is x else "unary n-ary constructor is not its argument", sort=B)
                    apply("%s2(%s)" % (meth, tag), cq, meth, [x, y], expect=isn(nt, [x, y]), sort=B)
                apply("Xor(%s)" % tag, "CXor", "Xor", [x, y], sort=B,
                      expect=lambda n, x=x, y=y: None if (n.is_not() and isn(op.IFF, [x, y])(n.arg(0)) is None) else "Xor is not Not(Iff)")
                apply("Implies(%s)" % tag, "(CNode OImplies)", "Implies", [x, y], expect=isn(op.IMPLIES, [x, y]), sort=B)
                apply("ForAll(%s)" % tag, "(CQuant true)", "ForAll", [x, i], sort=B, pyargs=("[%s], %s" % (h.name(E, i), h.name(E, x)), lambda x=x: m.ForAll([i], x)),
                      expect=lambda n, x=x: isn(op.FORALL, [x])(n))
                apply("ForAll0(%s)" % tag, "(CQuant true)", "ForAll", [x], sort=B, pyargs=("[], %s" % h.name(E, x), lambda x=x: m.ForAll([], x)),
                      expect=lambda n, x=x: None if n is x else "ForAll over no variable is not the body")
            if d == BV8:
                apply("BVExtract_full(%s)" % tag, "CBvExtract", "BVExtract", [x], zs=[0, 7], expect=isn(op.BV_EXTRACT, [x], (8, 0, 7)), sort=BV8)
                apply("BVExtract(%s)" % tag, "CBvExtract", "BVExtract", [x], zs=[2, 5], expect=isn(op.BV_EXTRACT, [x], (4, 2, 5)), sort=BVt(4))
                apply("BVZExt0(%s)" % tag, "CBvZext", "BVZExt", [x], zs=[0], expect=isn(op.BV_ZEXT, [x], (8, 0)), sort=BV8)
                apply("BVSExt(%s)" % tag, "CBvSext", "BVSExt", [x], zs=[4], expect=isn(op.BV_SEXT, [x], (12, 4)), sort=BVt(12))
                apply("BVRol0(%s)" % tag, "CBvRol", "BVRol", [x], zs=[0], expect=isn(op.BV_ROL, [x], (8, 0)), sort=BV8)
                apply("BVRor8(%s)" % tag, "CBvRor", "BVRor", [x], zs=[8], expect=isn(op.BV_ROR, [x], (8, 8)), sort=BV8)
                apply("BVNot(%s)" % tag, "(CBvUn BNot)", "BVNot", [x], expect=isn(op.BV_NOT, [x], (8,)), sort=BV8)
                apply("BVAdd1(%s)" % tag, "(CBvNary BAdd)", "BVAdd", [x], expect=lambda n, x=x: None if n is x else "unary BVAdd is not its argument", sort=BV8)
                apply("BVAdd2(%s)" % tag, "(CBvNary BAdd)", "BVAdd", [x, y], expect=isn(op.BV_ADD, [x, y], (8,)), sort=BV8)
                apply("BVConcat(%s)" % tag, "CBvConcat", "BVConcat", [x, y], expect=isn(op.BV_CONCAT, [x, y], (16,)), sort=BVt(16))
                apply("BVLShl_int(%s)" % tag, "(CBvShiftInt BLshl)", "BVLShl", [x], zs=[1], sort=BV8,
                      expect=lambda n, x=x: None if (n.node_type() == op.BV_LSHL and n.arg(0) is x and n.arg(1).is_bv_constant() and n.arg(1).constant_value() == 1) else "shift by int")
                apply("BVULT(%s)" % tag, "(CNode (OBVRel BUlt))", "BVULT", [x, y], expect=isn(op.BV_ULT, [x, y]), sort=B)
                apply("BVUGT(%s)" % tag, "(CBvSwapRel BUlt)", "BVUGT", [x, y], expect=isn(op.BV_ULT, [y, x]), sort=B)
                apply("BVToNatural(%s)" % tag, "(CNode OBVToNat)", "BVToNatural", [x], expect=isn(op.BV_TONATURAL, [x]), sort=I)
            if d == S:
                apply("StrConcat2(%s)" % tag, "CStrConcat", "StrConcat", [x, y], expect=isn(op.STR_CONCAT, [x, y]), sort=S)
                apply("StrConcat1(%s)" % tag, "CStrConcat", "StrConcat", [x])
                apply("StrLength(%s)" % tag, "(CNode (OStr SLength))", "StrLength", [x], expect=isn(op.STR_LENGTH, [x]), sort=I)
            if d == AII:
                apply("Select_arr(%s)" % tag, "(CNode OSelect)", "Select", [x, i], expect=isn(op.ARRAY_SELECT, [x, i]), sort=I)
                apply("Store_arr(%s)" % tag, "(CNode OStore)", "Store", [x, i, j], expect=isn(op.ARRAY_STORE, [x, i, j]), sort=AII)
    h.finish()
    return h


DIRECTED = "directed"


def directed_histories():
    """small fixed histories around the behaviours the faithful model singles out"""
    out = []

    def H(n, **kw):
        h = History(random.Random(1), n, **kw)
        out.append(h)
        return h
    # Int(1.0): accepted only after Int(1) filled the cache
    h = H(1)
    E = h.envs[0]
    for v in (1.0, 1, 1.0, True, Fraction(1)):
        h.do(E, "Int", "RInt %s" % cpyval(v), "m0.Int(%r)" % (v,), (lambda v=v: E.m.Int(v)), reqkey=("Int", type(v).__name__, repr(v)),
             )
    for v in (True, 1, True):
        h.do(E, "Real", "RReal %s" % cpyval(v), "m0.Real(%r)" % (v,), (lambda v=v: E.m.Real(v)), reqkey=("Real", type(v).__name__, repr(v)),
             )
    h.finish()
    # nested parametric sorts through normalize
    for d, nm in ((P_QI, "nx"), (ARR_IP, "ny"), (F_PI, "nf"), (P_I, "ok")):
        h = H(2, nested=True)
        E0, E1 = h.envs
        t = mkty(E0.env, d)
        h.do(E0, "Symbol", "RSymbol %s %s" % (tocoq.cstr(nm), cty(d)), "m0.Symbol(%r, %s)" % (nm, t), lambda: E0.m.Symbol(nm, t), reqkey=("Symbol", nm, d))
        h.g_normalize_of = None
        f = E0.pool[0]
        h.rnd = _Fixed(E0, f)
        h.g_normalize(E1)
        h.finish()
    # array assignments order in the copy: both insertion orders of the index constants in the target
    for order in ((1, 2), (2, 1)):
        h = H(2)
        E0, E1 = h.envs
        h.rnd = random.Random(3)
        ks = [h.do(E0, "Int", "RInt (PyInt %d%%Z)" % v, "m0.Int(%d)" % v, (lambda v=v: E0.m.Int(v))) for v in (1, 2, 7)]
        for v in order:
            h.do(E1, "Int", "RInt (PyInt %d%%Z)" % v, "m1.Int(%d)" % v, (lambda v=v: E1.m.Int(v)))
        import pysmt.typing as T
        pairs = [(ks[0], ks[2]), (ks[1], ks[2])]
        arr = h.do(E0, "Array", "RArray TInt %d [%s]" % (ks[0].node_id(), "; ".join("(%d, %d)" % (a.node_id(), b.node_id()) for a, b in pairs)),
                   "m0.Array(INT, n0_%d, {...})" % ks[0].node_id(), lambda: E0.m.Array(T.INT, ks[0], dict(pairs)))
        h.rnd = _Fixed(E0, arr)
        h.g_normalize(E1)
        h.finish()
    return out


class _Fixed(object):
    """stand-in PRNG that makes g_normalize pick a given source node"""

    def __init__(self, E, f):
        self.E, self.f = E, f

    def random(self):
        return 1.0

    def choice(self, l):
        if self.f in l:
            return self.f
        for x in l:
            if x is self.E:
                return x
        return l[0]


def gen_history(seed, k, tier):
    rnd = random.Random("%s:%d" % (seed, k))
    nenv = rnd.choice([1, 2, 2, 3])
    raw = rnd.random() < 0.15
    h = History(rnd, nenv, raw=raw)
    h.run(45 if tier == "quick" else 70)
    return h


def run(tier, only=None):
    chk = lib.Check("C04", tier)
    warnings.simplefilter("ignore")
    gen_all.regen_all()
    ok = chk.prove()
    lib.clean_cases(chk.dir)
    nh = 150 if tier == "quick" else 1500
    hists, tags = [], []
    if only is None:
        for j, h in enumerate(directed_histories()):
            hists.append(h)
            tags.append("%s:%d" % (DIRECTED, j))
        # magnitude: widths / sizes / indexes / integer payloads beyond the small-int cache and beyond machine words
        for j, ws in enumerate(([1, 2, 7, 8, 9, 63, 64, 65], [255, 256, 257, 258], [511, 1000], [4096])):
            hists.append(magnitude_history(ws, tier))
            tags.append("magnitude:%d" % j)
        hists.append(scalar_magnitude_history())
        tags.append("magnitude:scalars")
        # normalising constructors over every operand head
        hists.append(composition_history())
        tags.append("composition")
        # argument container protocol
        for j, h in enumerate(container_histories()):
            hists.append(h)
            tags.append("containers:%s" % ("modelled" if h.model else "oracle-only"))
        # lifetime: long-lived destination(s), many short-lived garbage-collected sources
        plan = [(40, 1), (40, 2), (30, 1)] if tier == "quick" else [(60, 1), (60, 2), (45, 1), (45, 2), (30, 1), (30, 2), (60, 1), (50, 2), (40, 1), (40, 2)]
        for j, (nw, nd) in enumerate(plan):
            hists.append(lifetime_history(chk.seed, j, nw, nd))
            tags.append("lifetime:%d" % j)
    for k in (range(nh) if only is None else only):
        if isinstance(k, str):
            continue
        hists.append(gen_history(chk.seed, k, tier))
        tags.append("random:%d" % k)
    chk.note("generated %d histories, %d calls" % (len(hists), sum(len(h.reqs) for h in hists)))
    hist_kinds = {}
    nerr = 0
    for h in hists:
        for kd, rp, er in zip(h.kinds, h.replies, h.errs):
            chk.count((kd, er is None), nontrivial=True)
            hist_kinds[kd] = hist_kinds.get(kd, 0) + 1
            nerr += er is not None
    # distinct = (constructor, argument ids shape, outcome)
    chk._distinct = set()
    for h in hists:
        for (e, r), rp in zip(h.reqs, h.replies):
            chk._distinct.add(hash((r.split(" ")[0:2].__repr__(), rp is None, len(r))))
    # ---------------------------------------------------------------- oracle complaints
    nviol = 0
    for h, tag in zip(hists, tags):
        for key, msg, idx in h.complaints:
            nviol += 1
            chk.violation({"kind": "history", "what": msg, "history": tag, "failing_step": idx,
                           "repro": h.script(idx), "oracle": "structural key / blueprint read-back / same-request-same-outcome (independent of the Coq model)",
                           "replay_hint": "VERIF_SEED=%d ./check C04 --replay <this file>" % chk.seed}, key=key)
    # ---------------------------------------------------------------- correspondence with the model
    files = write_cases(chk, hists)
    from . import termcases
    bad, errs = termcases.run(files)
    for e in errs[:2]:
        chk.note("case file error: " + e["error"][-400:])
    disagreements = []
    for i in bad[:6]:
        h = hists[i]
        at = diagnose(chk, h, str(i))
        disagreements.append({"history": tags[i], "first_differing_step": at,
                              "call": h.py[at] if at is not None and at < len(h.py) else "(replies agree; final tables differ, or a constructor-built node is not copyable)"})
        chk.note("model/implementation disagree in history %s at step %s: %s" % (tags[i], at, disagreements[-1]["call"]))
    chk.cov["correspondence"] = {"histories": len(hists), "calls": sum(len(h.reqs) for h in hists), "calls_raising": nerr,
                                 "environments": sum(len(h.envs) for h in hists), "nodes_compared": sum((E.nnodes if E.released else len(E.m.formulae)) for h in hists for E in h.envs),
                                 "composition_calls": sum(h.comp_calls for h in hists), "aliasing": {k: sum(h.alias_stats[k] for h in hists) for k in ("nodes", "reads", "mutable_results", "mutations")},
                                 "short_lived_environments": sum(h.released_n for h in hists), "of_which_garbage_collected": sum(h.collected for h in hists),
                                 "by_constructor": hist_kinds, "disagreements": len(bad), "case_file_errors": len(errs), "examples": disagreements}
    chk.sample({"kind": "history", "script_head": hists[-1].script(12)})
    chk.sample({"kind": "oracle", "pairs_checked": "all nodes of every final table by structural key", "complaints": nviol})
    if (bad or errs) and not chk.violations:
        # SEARCH: the property-level oracle already judged every call of every history (complaints above); a
        # disagreement without an oracle complaint is reported with the concrete history and the first differing call
        b0 = bad[0] if bad else None
        at = disagreements[0]["first_differing_step"] if disagreements else None
        chk.violation({"kind": "history", "theorem_or_correspondence": "correspondence core/Manager.v <-> pysmt/formula.py differs",
                       "examples": disagreements, "history": tags[b0] if b0 is not None else None,
                       "what": ("model and implementation differ at: %s" % disagreements[0]["call"]) if disagreements else errs[0]["error"][-400:],
                       "repro": hists[b0].script(at if at is not None and at < len(hists[b0].py) else None) if b0 is not None else ""},
                      found_input=False)
    if not ok and not chk.violations:
        chk.violation({"kind": "obligation", "theorem_or_correspondence": "proof obligations no longer check: " + lib.proof_failure_summary(chk)}, found_input=False)
    return chk.finish(TRUSTED, ASSUME, RULE)


def replay(path):
    d = json.load(open(path))
    print(json.dumps({k: d[k] for k in d if k != "repro"}, indent=1))
    print(d.get("repro", ""))
    tag = d.get("history", "")
    if tag.startswith("random:"):
        return run("quick", only=[int(tag.split(":")[1])])
    # directed / magnitude / lifetime histories are regenerated by every run
    return run("quick")
