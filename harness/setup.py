"""setup_cmd: regenerate coq/gen from /repo and build the whole development (.vo)."""
import sys

from . import gen_all, lib


def main():
    rep = gen_all.regen_all()
    for k, v in rep.items():
        if v.get("failed"):
            print("translator %s: %s" % (k, v["failed"]))
    ok, log = lib.coq_make()
    if not ok:
        # not fatal: every check rebuilds its own closure and fails closed on a broken file
        for x in lib.coq_failed_files(log):
            print("setup: %s:%s %s" % (x["file"], x["line"], x["error"].split("\n")[0]))
        print("setup: Coq build incomplete (see above); checks depending on those files will report it")
        return 0
    print("setup: Coq development built")
    return 0
