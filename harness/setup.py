"""setup_cmd: regenerate coq/gen from /repo and build the whole development (.vo)."""
import sys

from . import gen_all, lib


def main():
    rep = gen_all.regen_all()
    for k, v in rep.items():
        if v.get("failed"):
            print("translator %s: %s" % (k, v["failed"]))
    ok, log = lib.coq_make()
    if not ok:
        print(log[-6000:])
        print("setup: Coq build failed")
        return 1
    print("setup: Coq development built")
    return 0
