"""Fail-closed translator from a small subset of Python (via `ast`) to Gallina text.

Subset: functions over records of booleans (and a few scalars), whose bodies are
  * `x = <expr>` / `x.attr = <expr>` assignments,
  * `if / elif / else` whose branches assign (the same) local names or attributes,
  * `assert` (ignored: it can only raise, the models are about returned values;
    each ignored assert is listed in the translation report),
  * `return <expr>`.
Expressions: names, `self.attr`-style attribute reads, True/False, and/or/not,
comparison of booleans with == != <= >=, conditional expressions, calls that the
client maps through `call_hook`.

Anything else raises Untranslatable: the caller reports it and falls back to the
hand model + correspondence for that function.
"""
import ast


class Untranslatable(Exception):
    pass


class Ctx(object):
    def __init__(self, attr_of, call_hook=None, name_hook=None):
        self.attr_of = attr_of        # (objname, attr) -> gallina text of the read
        self.call_hook = call_hook    # (ast.Call, tr) -> text or None
        self.name_hook = name_hook
        self.ignored = []


def expr(e, env, cx):
    """env: local python name -> gallina text."""
    if isinstance(e, ast.Constant):
        if e.value is True:
            return "true"
        if e.value is False:
            return "false"
        raise Untranslatable("constant %r" % (e.value,))
    if isinstance(e, ast.Name):
        if e.id in env:
            return env[e.id]
        if cx.name_hook:
            r = cx.name_hook(e.id)
            if r is not None:
                return r
        raise Untranslatable("name %s" % e.id)
    if isinstance(e, ast.Attribute):
        if isinstance(e.value, ast.Name) and e.value.id in env:
            return cx.attr_of(env[e.value.id], e.attr)
        inner = expr(e.value, env, cx)
        return cx.attr_of(inner, e.attr)
    if isinstance(e, ast.BoolOp):
        op = "&&" if isinstance(e.op, ast.And) else "||"
        parts = [expr(v, env, cx) for v in e.values]
        out = parts[0]
        for p in parts[1:]:
            out = "(%s %s %s)" % (out, op, p)
        return out
    if isinstance(e, ast.UnaryOp) and isinstance(e.op, ast.Not):
        return "(negb %s)" % expr(e.operand, env, cx)
    if isinstance(e, ast.Compare):
        if len(e.ops) != 1:
            raise Untranslatable("chained comparison")
        a = expr(e.left, env, cx)
        b = expr(e.comparators[0], env, cx)
        o = e.ops[0]
        if isinstance(o, ast.Eq):
            return "(Bool.eqb %s %s)" % (a, b)
        if isinstance(o, ast.NotEq):
            return "(negb (Bool.eqb %s %s))" % (a, b)
        if isinstance(o, ast.LtE):      # on bools False <= True
            return "(implb %s %s)" % (a, b)
        if isinstance(o, ast.GtE):
            return "(implb %s %s)" % (b, a)
        raise Untranslatable("comparison %s" % type(o).__name__)
    if isinstance(e, ast.IfExp):
        return "(if %s then %s else %s)" % (expr(e.test, env, cx), expr(e.body, env, cx), expr(e.orelse, env, cx))
    if isinstance(e, ast.Call) and cx.call_hook:
        r = cx.call_hook(e, env, cx)
        if r is not None:
            return r
    raise Untranslatable("expression %s" % ast.dump(e)[:80])


def assigned_targets(stmts):
    """Names / (name, attr) assigned anywhere in stmts."""
    out = []
    for s in stmts:
        if isinstance(s, ast.Assign):
            for t in s.targets:
                if isinstance(t, ast.Name):
                    out.append(t.id)
                elif isinstance(t, ast.Attribute) and isinstance(t.value, ast.Name):
                    out.append(t.value.id)
                else:
                    raise Untranslatable("assignment target")
        elif isinstance(s, ast.If):
            out += assigned_targets(s.body) + assigned_targets(s.orelse)
        elif isinstance(s, (ast.Assert, ast.Pass, ast.Expr)):
            pass
        elif isinstance(s, ast.Return):
            raise Untranslatable("return inside a branch")
        else:
            raise Untranslatable("statement %s" % type(s).__name__)
    return out


def block(stmts, env, cx, set_attr, fresh):
    """Translate statements (no return) into a list of `let` bindings.
    Returns (lets, env'). set_attr(objtext, attr, valtext) -> text of updated record."""
    lets = []
    env = dict(env)
    for s in stmts:
        if isinstance(s, ast.Assign):
            if len(s.targets) != 1:
                raise Untranslatable("multiple targets")
            t = s.targets[0]
            v = expr(s.value, env, cx)
            if isinstance(t, ast.Name):
                n = fresh(t.id)
                lets.append((n, v))
                env[t.id] = n
            elif isinstance(t, ast.Attribute) and isinstance(t.value, ast.Name) and t.value.id in env:
                n = fresh(t.value.id)
                lets.append((n, set_attr(env[t.value.id], t.attr, v)))
                env[t.value.id] = n
            else:
                raise Untranslatable("assignment target")
        elif isinstance(s, ast.If):
            names = []
            for x in assigned_targets(s.body) + assigned_targets(s.orelse):
                if x not in names:
                    names.append(x)
            c = expr(s.test, env, cx)
            l1, e1 = block(s.body, env, cx, set_attr, fresh)
            l2, e2 = block(s.orelse, env, cx, set_attr, fresh)
            for x in names:
                if x not in e1 or x not in e2:
                    raise Untranslatable("variable %s not assigned on every path" % x)

            def wrap(ls, e):
                body = "(" + ", ".join(e[x] for x in names) + ")" if len(names) > 1 else e[names[0]]
                for n, v in reversed(ls):
                    body = "(let %s := %s in %s)" % (n, v, body)
                return body
            if not names:
                continue
            v = "(if %s then %s else %s)" % (c, wrap(l1, e1), wrap(l2, e2))
            if len(names) == 1:
                n = fresh(names[0])
                lets.append((n, v))
                env[names[0]] = n
            else:
                ns = [fresh(x) for x in names]
                lets.append(("'(" + ", ".join(ns) + ")", v))
                for x, n in zip(names, ns):
                    env[x] = n
        elif isinstance(s, ast.Assert):
            cx.ignored.append("assert at line %d ignored" % s.lineno)
        elif isinstance(s, ast.Pass):
            pass
        elif isinstance(s, ast.Expr) and isinstance(s.value, ast.Constant) and isinstance(s.value.value, str):
            pass  # docstring
        else:
            raise Untranslatable("statement %s" % type(s).__name__)
    return lets, env


def function(fn, params, cx, set_attr):
    """fn: ast.FunctionDef; params: python parameter name -> gallina name.
    Returns the Gallina body text."""
    counter = {}

    def fresh(base):
        counter[base] = counter.get(base, 0) + 1
        return "%s_%d" % (base, counter[base])
    body = list(fn.body)
    if not body or not isinstance(body[-1], ast.Return):
        raise Untranslatable("function does not end in return")
    lets, env = block(body[:-1], dict(params), cx, set_attr, fresh)
    out = expr(body[-1].value, env, cx)
    for n, v in reversed(lets):
        out = "let %s := %s in\n  %s" % (n, v, out)
    return out
