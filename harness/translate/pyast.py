"""Fail-closed translator from a small subset of Python (via `ast`) to Gallina text.

Subset: functions over records of booleans (and a few scalars), whose bodies are
  * `x = <expr>` / `x.attr = <expr>` assignments,
  * `if / elif / else` whose branches assign (the same) local names or attributes,
  * `assert` (ignored: it can only raise, the models are about returned values;
    each ignored assert is listed in the translation report),
  * `return <expr>` - at the end, or EARLY: an `if` that contains a return is normalised by
    continuation (`if c: A` followed by `rest` = `if c then [A; rest] else [orelse; rest]`), so guard
    clauses / `if c: return x` sequences give the same if/else tree as the elif chains they replace;
    statements after a return are unreachable and ignored (listed in the report).
Expressions: names, `self.attr`-style attribute reads, `getattr(obj, "name")` where the name is a
string literal or a parameter that an inlined call bound to a string literal, True/False, and/or/not,
comparison of booleans with == != <= >=, conditional expressions, `any(...)` / `all(...)` over a
generator with one `for` over a literal tuple/list of constants (unrolled), calls that the client maps
through `call_hook` (logics_tr INLINES calls to other methods / private functions there).

Anything else raises Untranslatable: the caller reports it and falls back to the
hand model + correspondence for that function.
"""
import ast


class Untranslatable(Exception):
    pass


class StrConst(object):
    """A string literal bound to a parameter of an inlined call (only usable as an attribute name)."""

    def __init__(self, value):
        self.value = value


class Ctx(object):
    def __init__(self, attr_of, call_hook=None, name_hook=None):
        self.attr_of = attr_of        # (objname, attr) -> gallina text of the read
        self.call_hook = call_hook    # (ast.Call, tr) -> text or None
        self.name_hook = name_hook
        self.ignored = []
        self.fresh = None             # set by function(): one name supply for a function and everything inlined into it
        self.inlining = []            # callees being inlined (recursion is rejected)


def expr(e, env, cx):
    """env: local python name -> gallina text."""
    if isinstance(e, ast.Constant):
        if e.value is True:
            return "true"
        if e.value is False:
            return "false"
        raise Untranslatable("constant %r" % (e.value,))
    if isinstance(e, ast.Name):
        if e.id in env:
            if isinstance(env[e.id], StrConst):
                raise Untranslatable("string parameter %s used as a value" % e.id)
            return env[e.id]
        if cx.name_hook:
            r = cx.name_hook(e.id)
            if r is not None:
                return r
        raise Untranslatable("name %s" % e.id)
    if isinstance(e, ast.Attribute):
        if isinstance(e.value, ast.Name) and e.value.id in env:
            return cx.attr_of(env[e.value.id], e.attr)
        inner = expr(e.value, env, cx)
        return cx.attr_of(inner, e.attr)
    if isinstance(e, ast.BoolOp):
        op = "&&" if isinstance(e.op, ast.And) else "||"
        parts = [expr(v, env, cx) for v in e.values]
        out = parts[0]
        for p in parts[1:]:
            out = "(%s %s %s)" % (out, op, p)
        return out
    if isinstance(e, ast.UnaryOp) and isinstance(e.op, ast.Not):
        return "(negb %s)" % expr(e.operand, env, cx)
    if isinstance(e, ast.Compare):
        if len(e.ops) != 1:
            raise Untranslatable("chained comparison")
        a = expr(e.left, env, cx)
        b = expr(e.comparators[0], env, cx)
        o = e.ops[0]
        if isinstance(o, ast.Eq):
            return "(Bool.eqb %s %s)" % (a, b)
        if isinstance(o, ast.NotEq):
            return "(negb (Bool.eqb %s %s))" % (a, b)
        if isinstance(o, ast.LtE):      # on bools False <= True
            return "(implb %s %s)" % (a, b)
        if isinstance(o, ast.GtE):
            return "(implb %s %s)" % (b, a)
        raise Untranslatable("comparison %s" % type(o).__name__)
    if isinstance(e, ast.IfExp):
        return "(if %s then %s else %s)" % (expr(e.test, env, cx), expr(e.body, env, cx), expr(e.orelse, env, cx))
    if isinstance(e, ast.Call) and isinstance(e.func, ast.Name) and e.func.id == "getattr" and e.func.id not in env:
        if len(e.args) != 2 or e.keywords:
            raise Untranslatable("getattr with a default")
        n = e.args[1]
        if isinstance(n, ast.Constant) and isinstance(n.value, str):
            name = n.value
        elif isinstance(n, ast.Name) and isinstance(env.get(n.id), StrConst):
            name = env[n.id].value
        else:
            raise Untranslatable("getattr with a computed attribute name")
        return cx.attr_of(expr(e.args[0], env, cx), name)
    if isinstance(e, ast.Call) and isinstance(e.func, ast.Name) and e.func.id in ("any", "all") and e.func.id not in env:
        if len(e.args) != 1 or e.keywords or not isinstance(e.args[0], ast.GeneratorExp):
            raise Untranslatable("%s over something that is not a generator expression" % e.func.id)
        g = e.args[0]
        if len(g.generators) != 1 or g.generators[0].ifs or g.generators[0].is_async or not isinstance(g.generators[0].target, ast.Name) \
                or not isinstance(g.generators[0].iter, (ast.Tuple, ast.List)):
            raise Untranslatable("generator that is not one `for <name> in (<literals>)`")
        parts = []
        for item in g.generators[0].iter.elts:
            if not isinstance(item, ast.Constant):
                raise Untranslatable("generator over non-literals")
            env2 = dict(env)
            env2[g.generators[0].target.id] = StrConst(item.value) if isinstance(item.value, str) else expr(item, env, cx)
            parts.append(expr(g.elt, env2, cx))
        if not parts:
            return "true" if e.func.id == "all" else "false"
        out = parts[0]
        for q in parts[1:]:
            out = "(%s %s %s)" % (out, "&&" if e.func.id == "all" else "||", q)
        return out
    if isinstance(e, ast.Call) and cx.call_hook:
        r = cx.call_hook(e, env, cx)
        if r is not None:
            return r
    raise Untranslatable("expression %s" % ast.dump(e)[:80])


def assigned_targets(stmts):
    """Names / (name, attr) assigned anywhere in stmts."""
    out = []
    for s in stmts:
        if isinstance(s, ast.Assign):
            for t in s.targets:
                if isinstance(t, ast.Name):
                    out.append(t.id)
                elif isinstance(t, ast.Attribute) and isinstance(t.value, ast.Name):
                    out.append(t.value.id)
                else:
                    raise Untranslatable("assignment target")
        elif isinstance(s, ast.If):
            out += assigned_targets(s.body) + assigned_targets(s.orelse)
        elif isinstance(s, (ast.Assert, ast.Pass, ast.Expr)):
            pass
        elif isinstance(s, ast.Return):
            raise Untranslatable("return inside a branch")
        else:
            raise Untranslatable("statement %s" % type(s).__name__)
    return out


def block(stmts, env, cx, set_attr, fresh):
    """Translate statements (no return) into a list of `let` bindings.
    Returns (lets, env'). set_attr(objtext, attr, valtext) -> text of updated record."""
    lets = []
    env = dict(env)
    for s in stmts:
        if isinstance(s, ast.Assign):
            if len(s.targets) != 1:
                raise Untranslatable("multiple targets")
            t = s.targets[0]
            v = expr(s.value, env, cx)
            if isinstance(t, ast.Name):
                n = fresh(t.id)
                lets.append((n, v))
                env[t.id] = n
            elif isinstance(t, ast.Attribute) and isinstance(t.value, ast.Name) and t.value.id in env:
                n = fresh(t.value.id)
                lets.append((n, set_attr(env[t.value.id], t.attr, v)))
                env[t.value.id] = n
            else:
                raise Untranslatable("assignment target")
        elif isinstance(s, ast.If):
            names = []
            for x in assigned_targets(s.body) + assigned_targets(s.orelse):
                if x not in names:
                    names.append(x)
            c = expr(s.test, env, cx)
            l1, e1 = block(s.body, env, cx, set_attr, fresh)
            l2, e2 = block(s.orelse, env, cx, set_attr, fresh)
            for x in names:
                if x not in e1 or x not in e2:
                    raise Untranslatable("variable %s not assigned on every path" % x)

            def wrap(ls, e):
                body = "(" + ", ".join(e[x] for x in names) + ")" if len(names) > 1 else e[names[0]]
                for n, v in reversed(ls):
                    body = "(let %s := %s in %s)" % (n, v, body)
                return body
            if not names:
                continue
            v = "(if %s then %s else %s)" % (c, wrap(l1, e1), wrap(l2, e2))
            if len(names) == 1:
                n = fresh(names[0])
                lets.append((n, v))
                env[names[0]] = n
            else:
                ns = [fresh(x) for x in names]
                lets.append(("'(" + ", ".join(ns) + ")", v))
                for x, n in zip(names, ns):
                    env[x] = n
        elif isinstance(s, ast.Assert):
            cx.ignored.append("assert at line %d ignored" % s.lineno)
        elif isinstance(s, ast.Pass):
            pass
        elif isinstance(s, ast.Expr) and isinstance(s.value, ast.Constant) and isinstance(s.value.value, str):
            pass  # docstring
        else:
            raise Untranslatable("statement %s" % type(s).__name__)
    return lets, env


def contains_return(stmts):
    return any(isinstance(n, ast.Return) for s in stmts for n in ast.walk(s))


def always_returns(stmts):
    for s in stmts:
        if isinstance(s, ast.Return):
            return True
        if isinstance(s, ast.If) and s.orelse and always_returns(s.body) and always_returns(s.orelse):
            return True
    return False


def body_expr(stmts, env, cx, set_attr, fresh):
    """Gallina expression of a statement list that returns on every path."""
    lets, env = [], dict(env)

    def wrap(out):
        for n, v in reversed(lets):
            out = "let %s := %s in\n  %s" % (n, v, out)
        return out
    for i, s in enumerate(stmts):
        if isinstance(s, ast.Return):
            if s.value is None:
                raise Untranslatable("return without a value")
            if stmts[i + 1:]:
                cx.ignored.append("unreachable statements after the return at line %d ignored" % s.lineno)
            return wrap(expr(s.value, env, cx))
        if isinstance(s, ast.If) and contains_return([s]):
            rest = stmts[i + 1:]
            c = expr(s.test, env, cx)
            then_e = body_expr(s.body if always_returns(s.body) else s.body + rest, env, cx, set_attr, fresh)
            else_e = body_expr((s.orelse if always_returns(s.orelse) else s.orelse + rest) if s.orelse else rest, env, cx, set_attr, fresh)
            return wrap("(if %s then %s else %s)" % (c, then_e, else_e))
        l1, env = block([s], env, cx, set_attr, fresh)
        lets += l1
    raise Untranslatable("a path does not end in return")


def function(fn, params, cx, set_attr):
    """fn: ast.FunctionDef; params: python parameter name -> gallina name.
    Returns the Gallina body text."""
    counter = {}

    def fresh(base):
        counter[base] = counter.get(base, 0) + 1
        return "%s_%d" % (base, counter[base])
    if cx.fresh is None:
        cx.fresh = fresh
    return body_expr(list(fn.body), dict(params), cx, set_attr, cx.fresh)
