"""Translator (T) for the operator table and the DISPATCH structure of the walker classes.

  pysmt/operators.py                         -> coq/gen/Operators.v
  the walker classes listed in CLASSES       -> coq/gen/Dispatch.v   (node type -> NAME of the handling method)

Everything is read from the Python `ast` of the repository under test and is FAIL-CLOSED: a construct that is not in
the small language below raises Untranslatable; the generator then emits no table for that class (the Coq proof that
needs it no longer compiles and the check reports the obligation).

Language understood
  * operators.py: `ALL_TYPES = list(range(a, b))`, one tuple assignment `(NAME, ...) = ALL_TYPES`, group definitions
    built from frozenset / set / list / tuple displays, `|`, `-`, `&` and earlier names, the `__OP_STR__` dictionary
    display, `CUSTOM_NODE_TYPES = []`; the module's asserts are EVALUATED on the translated values (a failing one is
    an error).  Functions (new_node_type, op_to_str, all_types) are not translated.
  * a walker class: single inheritance from a class of the same module or from Walker / DagWalker / TreeWalker /
    IdentityDagWalker; methods `def name(...)` whose only decorators are `handles(...)` / `walkers.handles(...)`
    (stacked decorators accumulate) with arguments that are node types or ONE iterable of node types written in the
    set language above (module-level constants of the same kind are followed); class-level aliases
    `walk_x = walk_y` of a method defined earlier in the same class body.
    Dispatch is then computed as Python does (pysmt/walkers/generic.py): when a class is created every decorated
    function of its body is bound to `walk_<op name>` for each of its node types, in the order of the class body
    (a later one wins, and it wins over a plain `def walk_<op name>` of the same body); an instance takes
    getattr(self, "walk_<op name>") through the inheritance chain; Walker.walk_error is decorated with ALL_TYPES, so
    it is what remains.
  * SizeOracle only: the per-call rebinding `self.set_function(self.measure_to_fun[measure], *op.ALL_TYPES)` with the
    dictionary display `measure_to_fun = {SizeOracle.MEASURE_X: self.walk_y, ...}` and `(MEASURE_X, ...) = range(n)`.
  Any other use of set_function / set_handler / setattr / `functions[...] =` in a translated class, a decorator that
  is not `handles`, multiple inheritance, an unknown base, a name that cannot be evaluated: Untranslatable.
"""
import ast
import os

from .pyast import Untranslatable

# operator name -> pattern of core/Syntax.v's `op` (None: not modelled in Syntax.v)
OPMAP = {
    "FORALL": "OForall _", "EXISTS": "OExists _", "AND": "OAnd", "OR": "OOr", "NOT": "ONot", "IMPLIES": "OImplies", "IFF": "OIff",
    "SYMBOL": "OSymbol _ _", "FUNCTION": "OFunction _ _", "REAL_CONSTANT": "ORealC _ _", "BOOL_CONSTANT": "OBoolC _",
    "INT_CONSTANT": "OIntC _", "STR_CONSTANT": "OStrC _", "PLUS": "OPlus", "MINUS": "OMinus", "TIMES": "OTimes", "LE": "OLe",
    "LT": "OLt", "EQUALS": "OEquals", "ITE": "OIte", "TOREAL": "OToReal", "BV_CONSTANT": "OBVC _ _",
    "BV_NOT": "OBV BNot _", "BV_AND": "OBV BAnd _", "BV_OR": "OBV BOr _", "BV_XOR": "OBV BXor _", "BV_CONCAT": "OBV BConcat _",
    "BV_EXTRACT": "OBVExtract _ _ _", "BV_ULT": "OBVRel BUlt", "BV_ULE": "OBVRel BUle", "BV_NEG": "OBV BNeg _",
    "BV_ADD": "OBV BAdd _", "BV_SUB": "OBV BSub _", "BV_MUL": "OBV BMul _", "BV_UDIV": "OBV BUdiv _", "BV_UREM": "OBV BUrem _",
    "BV_LSHL": "OBV BLshl _", "BV_LSHR": "OBV BLshr _", "BV_ROL": "OBVRol _ _", "BV_ROR": "OBVRor _ _", "BV_ZEXT": "OBVZext _ _",
    "BV_SEXT": "OBVSext _ _", "BV_SLT": "OBVRel BSlt", "BV_SLE": "OBVRel BSle", "BV_COMP": "OBV BComp _",
    "BV_SDIV": "OBV BSdiv _", "BV_SREM": "OBV BSrem _", "BV_ASHR": "OBV BAshr _", "STR_LENGTH": "OStr SLength",
    "STR_CONCAT": "OStr SConcat", "STR_CONTAINS": "OStr SContains", "STR_INDEXOF": "OStr SIndexOf", "STR_REPLACE": "OStr SReplace",
    "STR_SUBSTR": "OStr SSubstr", "STR_PREFIXOF": "OStr SPrefixOf", "STR_SUFFIXOF": "OStr SSuffixOf", "STR_TO_INT": "OStr SToInt",
    "INT_TO_STR": "OStr SFromInt", "STR_CHARAT": "OStr SCharAt", "ARRAY_SELECT": "OSelect", "ARRAY_STORE": "OStore",
    "ARRAY_VALUE": "OArrayValue _", "DIV": "ODiv", "POW": "OPow", "ALGEBRAIC_CONSTANT": None, "BV_TONATURAL": "OBVToNat",
}

# Coq name of the table, file, class
CLASSES = [
    ("tc", "pysmt/type_checker.py", "SimpleTypeChecker"),
    ("qfo", "pysmt/oracles.py", "QuantifierOracle"),
    ("fvo", "pysmt/oracles.py", "FreeVarsOracle"),
    ("ao", "pysmt/oracles.py", "AtomsOracle"),
    ("theoryo", "pysmt/oracles.py", "TheoryOracle"),
    ("typeso", "pysmt/oracles.py", "TypesOracle"),
    ("simplifier", "pysmt/simplifier.py", "Simplifier"),
    ("nnf", "pysmt/rewritings.py", "NNFizer"),
    ("prenex", "pysmt/rewritings.py", "PrenexNormalizer"),
    ("aig", "pysmt/rewritings.py", "AIGer"),
    ("subst", "pysmt/substituter.py", "Substituter"),
    ("mgsubst", "pysmt/substituter.py", "MGSubstituter"),
    ("mssubst", "pysmt/substituter.py", "MSSubstituter"),
    ("smtprinter", "pysmt/smtlib/printers.py", "SmtPrinter"),
    ("smtdagprinter", "pysmt/smtlib/printers.py", "SmtDagPrinter"),
    ("hrprinter", "pysmt/printers.py", "HRPrinter"),
]
BASES = {"Walker": ("pysmt/walkers/generic.py", "Walker"), "DagWalker": ("pysmt/walkers/dag.py", "DagWalker"),
         "TreeWalker": ("pysmt/walkers/tree.py", "TreeWalker"), "IdentityDagWalker": ("pysmt/walkers/identitydag.py", "IdentityDagWalker")}
DYNAMIC = ("set_function", "set_handler", "setattr")
ORIGINS = {}         # (file, class) -> {op id: name of the class of the inheritance chain that defines the handler}


# ------------------------------------------------------------------ operators.py
class Ops(object):
    def __init__(self):
        self.ids = {}        # NAME -> id
        self.names = {}      # id -> string of __OP_STR__
        self.groups = {}     # NAME -> frozenset of ids (in definition order)
        self.all_types = []
        self.asserts = 0


def _set_eval(e, lookup):
    """Value of an expression of the set language: int, or frozenset of ints."""
    if isinstance(e, ast.Constant) and type(e.value) is int:
        return e.value
    if isinstance(e, (ast.Name, ast.Attribute)):
        return lookup(e)
    if isinstance(e, (ast.Set, ast.List, ast.Tuple)):
        vals = [_set_eval(x, lookup) for x in e.elts]
        if not all(type(v) is int for v in vals):
            raise Untranslatable("display of non-integers at line %d" % e.lineno)
        return frozenset(vals)
    if isinstance(e, ast.Call) and isinstance(e.func, ast.Name) and e.func.id in ("set", "frozenset", "list", "tuple") \
            and len(e.args) == 1 and not e.keywords:
        v = _set_eval(e.args[0], lookup)
        if type(v) is int:
            raise Untranslatable("%s(<int>) at line %d" % (e.func.id, e.lineno))
        return frozenset(v)
    if isinstance(e, ast.BinOp) and isinstance(e.op, (ast.BitOr, ast.Sub, ast.BitAnd)):
        a, b = _set_eval(e.left, lookup), _set_eval(e.right, lookup)
        if type(a) is int or type(b) is int:
            raise Untranslatable("set operator on an integer at line %d" % e.lineno)
        return a | b if isinstance(e.op, ast.BitOr) else (a - b if isinstance(e.op, ast.Sub) else a & b)
    raise Untranslatable("expression %s at line %d" % (ast.dump(e)[:60], getattr(e, "lineno", 0)))


def read_operators(repo):
    path = os.path.join(repo, "pysmt", "operators.py")
    tree = ast.parse(open(path).read())
    ops = Ops()

    def lookup(e):
        if isinstance(e, ast.Name):
            if e.id in ops.ids:
                return ops.ids[e.id]
            if e.id in ops.groups:
                return ops.groups[e.id]
            if e.id == "ALL_TYPES" and ops.all_types:
                return frozenset(ops.all_types)
        raise Untranslatable("operators.py: name %s at line %d" % (ast.dump(e)[:40], e.lineno))

    def truth(e):
        if isinstance(e, ast.Compare) and len(e.ops) == 1 and isinstance(e.ops[0], ast.Eq):
            return value(e.left) == value(e.comparators[0])
        raise Untranslatable("operators.py: assert at line %d" % e.lineno)

    def value(e):
        if isinstance(e, ast.Call) and isinstance(e.func, ast.Name) and e.func.id == "len" and len(e.args) == 1:
            return len(_set_eval(e.args[0], lookup))
        if isinstance(e, ast.Constant) and type(e.value) is int:
            return e.value
        return _set_eval(e, lookup)
    for s in tree.body:
        if isinstance(s, (ast.Import, ast.ImportFrom, ast.FunctionDef)):
            continue
        if isinstance(s, ast.Expr) and isinstance(s.value, ast.Constant) and isinstance(s.value.value, str):
            continue
        if isinstance(s, ast.Assert):
            if not truth(s.test):
                raise Untranslatable("operators.py: the assert at line %d does not hold for the translated tables" % s.lineno)
            ops.asserts += 1
            continue
        if isinstance(s, ast.AnnAssign) and isinstance(s.target, ast.Name) and s.target.id == "CUSTOM_NODE_TYPES" \
                and isinstance(s.value, ast.List) and not s.value.elts:
            continue
        if not (isinstance(s, ast.Assign) and len(s.targets) == 1):
            raise Untranslatable("operators.py: statement at line %d" % s.lineno)
        t, v = s.targets[0], s.value
        if isinstance(t, ast.Name) and t.id == "ALL_TYPES":
            if not (isinstance(v, ast.Call) and isinstance(v.func, ast.Name) and v.func.id == "list" and len(v.args) == 1
                    and isinstance(v.args[0], ast.Call) and isinstance(v.args[0].func, ast.Name) and v.args[0].func.id == "range"
                    and all(isinstance(a, ast.Constant) and type(a.value) is int for a in v.args[0].args) and len(v.args[0].args) in (1, 2)):
                raise Untranslatable("operators.py: ALL_TYPES is not list(range(..))")
            ops.all_types = list(range(*[a.value for a in v.args[0].args]))
        elif isinstance(t, ast.Tuple) and isinstance(v, ast.Name) and v.id == "ALL_TYPES":
            names = []
            for x in t.elts:
                if not isinstance(x, ast.Name):
                    raise Untranslatable("operators.py: tuple target at line %d" % s.lineno)
                names.append(x.id)
            if len(names) != len(ops.all_types) or len(set(names)) != len(names):
                raise Untranslatable("operators.py: %d names for %d node types" % (len(names), len(ops.all_types)))
            ops.ids = dict(zip(names, ops.all_types))
        elif isinstance(t, ast.Name) and t.id == "__OP_STR__":
            if not isinstance(v, ast.Dict):
                raise Untranslatable("operators.py: __OP_STR__ is not a dictionary display")
            for k, x in zip(v.keys, v.values):
                if not (isinstance(k, ast.Name) and k.id in ops.ids and isinstance(x, ast.Constant) and isinstance(x.value, str)):
                    raise Untranslatable("operators.py: __OP_STR__ entry at line %d" % k.lineno)
                if ops.ids[k.id] in ops.names:
                    raise Untranslatable("operators.py: __OP_STR__ has two entries for %s" % k.id)
                ops.names[ops.ids[k.id]] = x.value
        elif isinstance(t, ast.Name) and t.id.isupper():
            val = _set_eval(v, lookup)
            if type(val) is int:
                raise Untranslatable("operators.py: %s is not a set" % t.id)
            ops.groups[t.id] = val
        else:
            raise Untranslatable("operators.py: assignment at line %d" % s.lineno)
    if sorted(ops.names) != ops.all_types:
        raise Untranslatable("operators.py: __OP_STR__ does not name every node type exactly once")
    unknown = [n for n in ops.ids if n not in OPMAP]
    if unknown:
        raise Untranslatable("operators.py: node types unknown to the translator's op mapping: %s" % unknown)
    gone = [n for n in OPMAP if n not in ops.ids]
    if gone:
        raise Untranslatable("operators.py: node types of the translator's op mapping no longer defined: %s" % gone)
    return ops


def coq_str(s):
    return '"%s"' % s.replace('"', '""')


def operators_v(ops):
    by_id = sorted(ops.ids.items(), key=lambda kv: kv[1])
    out = ["(* GENERATED by harness/translate/dispatch_tr.py from pysmt/operators.py - do not edit *)",
           "From Coq Require Import List NArith String Bool.\nFrom PySMT.core Require Import Syntax.\nImport ListNotations.\nOpen Scope string_scope.\n",
           "Inductive node_type : Type :=\n  %s.\n" % "\n  ".join("| NT_%s" % n for n, _ in by_id),
           "Definition nt_id (n : node_type) : N :=\n  match n with\n  %s\n  end.\n" % "\n  ".join("| NT_%s => %d" % (n, i) for n, i in by_id),
           "Definition nt_name (n : node_type) : string :=\n  match n with\n  %s\n  end.\n"
           % "\n  ".join("| NT_%s => %s" % (n, coq_str(ops.names[i])) for n, i in by_id),
           "Definition all_node_types : list node_type :=\n  [%s].\n" % "; ".join("NT_%s" % n for n, _ in by_id),
           "Definition nt_eqb (a b : node_type) : bool := N.eqb (nt_id a) (nt_id b).",
           "Definition nt_in (g : list node_type) (n : node_type) : bool := existsb (nt_eqb n) g.\n",
           "(* the node type of an operator of core/Syntax.v (mapping kept in the translator; exhaustive and irredundant or this file does not compile) *)",
           "Definition nt_of_op (o : op) : node_type :=\n  match o with\n  %s\n  end.\n"
           % "\n  ".join("| %s => NT_%s" % (OPMAP[n], n) for n, _ in by_id if OPMAP[n]),
           "Definition nt_modelled (n : node_type) : bool :=\n  match n with %s => false | _ => true end.\n"
           % " | ".join("NT_%s" % n for n, _ in by_id if OPMAP[n] is None)]
    name_of = {i: n for n, i in ops.ids.items()}
    for g, val in ops.groups.items():
        out.append("Definition G_%s : list node_type := [%s]." % (g, "; ".join("NT_%s" % name_of[i] for i in sorted(val))))
    out.append("Definition G_ALL_TYPES : list node_type := all_node_types.\n")
    out.append("Definition group_names : list (string * list node_type) :=\n  [%s].\n"
               % ";\n   ".join("(%s, G_%s)" % (coq_str(g), g) for g in ops.groups))
    return "\n".join(out) + "\n"


def validate_operators(ops, repo):
    """Compare with the module the running implementation imports."""
    import importlib
    mod = importlib.import_module("pysmt.operators")
    if not os.path.abspath(mod.__file__).startswith(os.path.abspath(repo)):
        raise RuntimeError("pysmt.operators imported from %s, not from %s" % (mod.__file__, repo))
    bad = []
    if list(mod.ALL_TYPES) != ops.all_types:
        bad.append("ALL_TYPES")
    for n, i in ops.ids.items():
        if getattr(mod, n, None) != i:
            bad.append("id of %s" % n)
        elif mod.op_to_str(i) != ops.names[i]:
            bad.append("name of %s" % n)
    for g, val in ops.groups.items():
        live = getattr(mod, g, None)
        if live is None or frozenset(live) != val:
            bad.append("group %s" % g)
    for g in dir(mod):
        if g.isupper() and isinstance(getattr(mod, g), (set, frozenset)) and g not in ops.groups:
            bad.append("group %s of the module is not translated" % g)
    return bad


# ------------------------------------------------------------------ walker classes
class Module(object):
    def __init__(self, repo, rel, ops):
        self.rel = rel
        self.tree = ast.parse(open(os.path.join(repo, rel)).read())
        self.classes = {n.name: n for n in self.tree.body if isinstance(n, ast.ClassDef)}
        self.ops = ops
        self.consts = {}
        # module-level constants of the set language (only those that evaluate are kept)
        for s in self.tree.body:
            if isinstance(s, ast.Assign) and len(s.targets) == 1 and isinstance(s.targets[0], ast.Name) and s.targets[0].id.isupper():
                try:
                    v = _set_eval(s.value, self.lookup)
                except Untranslatable:
                    continue
                if type(v) is not int:
                    self.consts[s.targets[0].id] = v

    def lookup(self, e):
        ops = self.ops
        if isinstance(e, ast.Attribute) and isinstance(e.value, ast.Name) and e.value.id == "op":
            if e.attr in ops.ids:
                return ops.ids[e.attr]
            if e.attr in ops.groups:
                return ops.groups[e.attr]
            if e.attr == "ALL_TYPES":
                return frozenset(ops.all_types)
        if isinstance(e, ast.Name) and e.id in self.consts:
            return self.consts[e.id]
        raise Untranslatable("%s: cannot evaluate %s at line %d" % (self.rel, ast.dump(e)[:60], e.lineno))


def wrapper_decorators(mod):
    """Module-level decorators of the shape
         def D(f):
             def inner(self, formula, *args, **kwargs): ... f(self, formula, *args, **kwargs) ...
             return inner
       (the wrapped method is called exactly once, with the arguments it was given; nothing else is dispatched)."""
    out = set()
    want = ast.dump(ast.parse("f(self, formula, *args, **kwargs)", mode="eval").body)
    for s in mod.tree.body:
        if not (isinstance(s, ast.FunctionDef) and len(s.args.args) == 1 and not s.decorator_list):
            continue
        body = [x for x in s.body if not (isinstance(x, ast.Expr) and isinstance(x.value, ast.Constant))]
        if len(body) != 2 or not isinstance(body[0], ast.FunctionDef) or not isinstance(body[1], ast.Return) \
                or not isinstance(body[1].value, ast.Name) or body[1].value.id != body[0].name:
            continue
        inner, f = body[0], s.args.args[0].arg
        if [a.arg for a in inner.args.args] != ["self", "formula"] or inner.args.vararg is None or inner.args.kwarg is None:
            continue
        calls = [n for n in ast.walk(inner) if isinstance(n, ast.Call) and isinstance(n.func, ast.Name) and n.func.id == f]
        uses = [n for n in ast.walk(inner) if isinstance(n, ast.Name) and n.id == f]
        hidden = [n for n in ast.walk(inner) if isinstance(n, ast.Attribute) and (n.attr.startswith("walk") or n.attr == "functions")]
        if len(calls) == 1 and len(uses) == 1 and not hidden and ast.dump(calls[0]).replace("'%s'" % f, "'f'") == want:
            out.add(s.name)
    return out


def _is_handles(d):
    if not isinstance(d, ast.Call):
        return False
    f = d.func
    return (isinstance(f, ast.Name) and f.id == "handles") or \
        (isinstance(f, ast.Attribute) and f.attr == "handles" and isinstance(f.value, (ast.Name, ast.Attribute)))


def _handles_types(d, mod):
    """Node types of one handles(...) decorator, as handles.__init__ computes them."""
    if d.keywords:
        raise Untranslatable("%s: handles(...) with keywords at line %d" % (mod.rel, d.lineno))
    if any(isinstance(a, ast.Starred) for a in d.args):
        raise Untranslatable("%s: handles(*...) at line %d" % (mod.rel, d.lineno))
    vals = [_set_eval(a, mod.lookup) for a in d.args]
    if len(vals) == 1 and type(vals[0]) is not int:
        return sorted(vals[0])
    if not all(type(v) is int for v in vals):
        raise Untranslatable("%s: handles(...) mixes node types and collections at line %d" % (mod.rel, d.lineno))
    return vals


def _dynamic_uses(node):
    out = []
    for n in ast.walk(node):
        if isinstance(n, ast.Call):
            f = n.func
            nm = f.attr if isinstance(f, ast.Attribute) else (f.id if isinstance(f, ast.Name) else None)
            if nm in DYNAMIC:
                out.append((nm, n.lineno))
        if isinstance(n, (ast.Assign, ast.AugAssign)):
            for t in (n.targets if isinstance(n, ast.Assign) else [n.target]):
                if isinstance(t, ast.Subscript) and isinstance(t.value, ast.Attribute) and t.value.attr == "functions":
                    out.append(("functions[...] =", n.lineno))
    return out


def class_layer(mod, cname, allow_dynamic=False):
    """walk_<op> attributes that the body of class cname itself defines: {op id: handler name}, and the base."""
    cls = mod.classes.get(cname)
    if cls is None:
        raise Untranslatable("%s: class %s not found" % (mod.rel, cname))
    if len(cls.bases) != 1 or (cls.keywords and cname != "Walker"):
        raise Untranslatable("%s: class %s does not have exactly one base (or has class keywords)" % (mod.rel, cname))
    if cname != "Walker" and not allow_dynamic:
        dyn = _dynamic_uses(cls)
        if dyn:
            raise Untranslatable("%s: class %s rebinds handlers dynamically (%s at line %d)" % (mod.rel, cname, dyn[0][0], dyn[0][1]))
    b = cls.bases[0]
    base = b.id if isinstance(b, ast.Name) else (b.attr if isinstance(b, ast.Attribute) else None)
    if base is None:
        raise Untranslatable("%s: base of %s" % (mod.rel, cname))
    opname = {("walk_%s" % mod.ops.names[i].lower()): i for i in mod.ops.all_types}
    plain, decorated, defined, wrapped, wrapname = {}, [], {}, {}, {}
    wrappers = wrapper_decorators(mod)
    for s in cls.body:
        if isinstance(s, ast.FunctionDef):
            hs = [d for d in s.decorator_list if _is_handles(d)]
            others = [d for d in s.decorator_list if not _is_handles(d)]
            wrap = None
            if others and (hs or s.name in opname):
                # a handler may carry ONE wrapper decorator of the recognised shape, outside (above) any handles(...)
                d0 = s.decorator_list[-1]       # innermost: applied first, so the handles(...) above it mark the wrapper
                if len(others) == 1 and d0 is others[0] and isinstance(d0, ast.Name) and d0.id in wrappers:
                    wrap = d0.id
                else:
                    raise Untranslatable("%s: %s.%s has a decorator the translator does not read (line %d)" % (mod.rel, cname, s.name, s.lineno))
            # a function wrapped by another decorator may only be a helper or a directly named handler (never aliased)
            defined[s.name] = None if others else s.name
            if s.name in opname:
                if wrap:
                    wrapped[opname[s.name]] = wrap
                else:
                    wrapped.pop(opname[s.name], None)
            wrapname[s.name] = wrap
            if s.name in opname:
                plain[opname[s.name]] = s.name
            if hs:
                # decorators apply bottom-up; handles.__call__ PREPENDS the earlier list: order is irrelevant for one function
                nts = []
                for d in hs:
                    nts += _handles_types(d, mod)
                decorated.append((s.name, nts))
                # a redefinition of the same NAME later in the body replaces the dictionary entry
                decorated = [(n, t) for (n, t) in decorated[:-1] if n != s.name] + [decorated[-1]]
        elif isinstance(s, ast.Assign):
            for t in s.targets:
                names = [t] if isinstance(t, ast.Name) else (t.elts if isinstance(t, ast.Tuple) else [])
                for x in names:
                    if isinstance(x, ast.Name) and x.id.startswith("walk_"):
                        if not (isinstance(s.value, ast.Name) and defined.get(s.value.id) and len(s.targets) == 1 and isinstance(t, ast.Name)):
                            raise Untranslatable("%s: %s.%s is assigned something the translator does not read (line %d)"
                                                 % (mod.rel, cname, x.id, s.lineno))
                        defined[x.id] = defined[s.value.id]
                        if x.id in opname:
                            plain[opname[x.id]] = defined[s.value.id]
                        if any(n == s.value.id for n, _ in decorated):
                            raise Untranslatable("%s: alias %s of a decorated handler (line %d)" % (mod.rel, x.id, s.lineno))
        elif isinstance(s, (ast.AnnAssign, ast.AugAssign)):
            t = s.target
            if isinstance(t, ast.Name) and t.id.startswith("walk_"):
                raise Untranslatable("%s: %s.%s assigned at line %d" % (mod.rel, cname, t.id, s.lineno))
        elif isinstance(s, ast.ClassDef) or isinstance(s, (ast.If, ast.For, ast.While, ast.With, ast.Try)):
            raise Untranslatable("%s: class %s has a compound statement in its body (line %d)" % (mod.rel, cname, s.lineno))
    layer = dict(plain)
    # set_handler runs after the body, in the order of the class dictionary: overrides plain definitions, later wins
    for name, nts in decorated:
        for i in nts:
            layer[i] = name
            wrapped.pop(i, None)
            if wrapname.get(name):
                wrapped[i] = wrapname[name]
    # a wrapped handler is recorded as "<wrapper>:<method>"
    for i, w in wrapped.items():
        if layer.get(i) and ":" not in layer[i]:
            layer[i] = "%s:%s" % (w, layer[i])
    return layer, base


def nary_symbols(mod, cname, ops, table):
    """For the printers: the literal passed to walk_nary by a handler whose body is exactly
    `return self.walk_nary(formula[, args], "<literal>")` -> {op id: literal} (handlers of another shape are left out)."""
    out = {}
    funcs = {}
    c = cname
    while c in mod.classes:
        for s in mod.classes[c].body:
            if isinstance(s, ast.FunctionDef) and s.name not in funcs:
                funcs[s.name] = s
        b = mod.classes[c].bases[0]
        c = b.id if isinstance(b, ast.Name) else None
    for i, h in table.items():
        f = funcs.get(h.split(":")[-1])
        if f is None:
            continue
        body = [x for x in f.body if not (isinstance(x, ast.Expr) and isinstance(x.value, ast.Constant))]
        if len(body) == 1 and isinstance(body[0], ast.Return) and isinstance(body[0].value, ast.Call):
            call = body[0].value
            if isinstance(call.func, ast.Attribute) and call.func.attr == "walk_nary" and isinstance(call.func.value, ast.Name) \
                    and call.func.value.id == "self" and call.args and isinstance(call.args[-1], ast.Constant) \
                    and isinstance(call.args[-1].value, str) and not call.keywords:
                out[i] = call.args[-1].value
    return out


def resolve(repo, rel, cname, ops, cache, allow_dynamic=False):
    """{op id: handler name} for instances of the class, through the inheritance chain."""
    chain, chain_names = [], []
    rel0 = rel
    seen = set()
    while True:
        if (rel, cname) in seen:
            raise Untranslatable("inheritance cycle at %s" % cname)
        seen.add((rel, cname))
        if rel not in cache:
            cache[rel] = Module(repo, rel, ops)
        layer, base = class_layer(cache[rel], cname, allow_dynamic)
        chain.append(layer)
        chain_names.append(cname)
        if cname == "Walker" and rel == BASES["Walker"][0]:
            break
        if base in cache[rel].classes:
            cname = base
        elif base in BASES:
            rel, cname = BASES[base]
        else:
            raise Untranslatable("%s: unknown base class %s of %s" % (rel, base, cname))
        allow_dynamic = False
    table = {}
    origin = {}
    for i in ops.all_types:
        for layer, cn in zip(chain, chain_names):
            if i in layer:
                table[i] = layer[i]
                origin[i] = cn
                break
        else:
            raise Untranslatable("%s.%s: no handler for node type %d (Walker.walk_error no longer covers it?)" % (rel, cname, i))
    ORIGINS[(rel0, chain_names[0])] = origin
    return table


def size_oracle(repo, ops, cache):
    """SizeOracle: measure -> handler for every node type (see the module docstring)."""
    rel = "pysmt/oracles.py"
    if rel not in cache:
        cache[rel] = Module(repo, rel, ops)
    mod = cache[rel]
    cls = mod.classes.get("SizeOracle")
    if cls is None:
        raise Untranslatable("SizeOracle not found")
    static = resolve(repo, rel, "SizeOracle", ops, cache, allow_dynamic=True)
    measures, m2f, rebinding = {}, {}, 0
    methods = set(s.name for s in cls.body if isinstance(s, ast.FunctionDef))
    for s in cls.body:
        if isinstance(s, ast.Assign) and isinstance(s.targets[0], ast.Tuple) and isinstance(s.value, ast.Call) \
                and isinstance(s.value.func, ast.Name) and s.value.func.id == "range" and len(s.value.args) == 1 \
                and isinstance(s.value.args[0], ast.Constant):
            names = [x.id for x in s.targets[0].elts if isinstance(x, ast.Name)]
            if len(names) != s.value.args[0].value or len(names) != len(s.targets[0].elts):
                raise Untranslatable("SizeOracle: measure tuple")
            measures = dict(zip(names, range(len(names))))
    dyn = _dynamic_uses(cls)
    for s in cls.body:
        if not isinstance(s, ast.FunctionDef):
            continue
        for n in ast.walk(s):
            if isinstance(n, ast.Assign) and len(n.targets) == 1 and isinstance(n.targets[0], ast.Attribute) \
                    and n.targets[0].attr == "measure_to_fun":
                if s.name != "__init__" or not isinstance(n.value, ast.Dict) or m2f:
                    raise Untranslatable("SizeOracle: measure_to_fun is not one dictionary display in __init__")
                for k, v in zip(n.value.keys, n.value.values):
                    if not (isinstance(k, ast.Attribute) and isinstance(k.value, ast.Name) and k.value.id == "SizeOracle" and k.attr in measures
                            and isinstance(v, ast.Attribute) and isinstance(v.value, ast.Name) and v.value.id == "self" and v.attr in methods):
                        raise Untranslatable("SizeOracle: measure_to_fun entry at line %d" % k.lineno)
                    m2f[measures[k.attr]] = v.attr
            if isinstance(n, ast.Call) and isinstance(n.func, ast.Attribute) and n.func.attr == "set_function":
                want = ast.dump(ast.parse("self.set_function(self.measure_to_fun[measure], *op.ALL_TYPES)", mode="eval").body)
                if s.name != "set_walking_measure" or ast.dump(n) != want:
                    raise Untranslatable("SizeOracle: set_function call at line %d is not the known rebinding" % n.lineno)
                rebinding += 1
    if rebinding != 1 or len(dyn) != 1 or sorted(m2f) != sorted(measures.values()) or not measures:
        raise Untranslatable("SizeOracle: dynamic dispatch is not the known pattern")
    return static, measures, m2f


def dispatch_v(tables, size, ops, nary=None):
    name_of = {i: n for n, i in ops.ids.items()}
    out = ["(* GENERATED by harness/translate/dispatch_tr.py from the walker classes of the repository - do not edit *)",
           "From Coq Require Import List NArith String.\nFrom PySMT.gen Require Import Operators.\nImport ListNotations.\nOpen Scope string_scope.\n"]
    for coqname, rel, cname, table in tables:
        out.append("(* %s.%s *)" % (rel, cname))
        out.append("Definition %s_dispatch (n : node_type) : string :=\n  match n with\n  %s\n  end.\n"
                   % (coqname, "\n  ".join("| NT_%s => %s" % (name_of[i], coq_str(table[i])) for i in ops.all_types)))
        org = ORIGINS.get((rel, cname))
        if org:
            out.append("(* the class of the inheritance chain whose body defines that handler *)")
            out.append("Definition %s_origin (n : node_type) : string :=\n  match n with\n  %s\n  end.\n"
                       % (coqname, "\n  ".join("| NT_%s => %s" % (name_of[i], coq_str(org[i])) for i in ops.all_types)))
    for coqname, syms in (nary or {}).items():
        out.append("(* the literal a handler of the shape `return self.walk_nary(formula, <literal>)` passes on *)")
        out.append("Definition %s_nary_symbol (n : node_type) : option string :=\n  match n with\n  %s\n  | _ => None\n  end.\n"
                   % (coqname, "\n  ".join("| NT_%s => Some %s" % (name_of[i], coq_str(v)) for i, v in sorted(syms.items()))))
    if size is not None:
        static, measures, m2f = size
        out.append("(* pysmt/oracles.py.SizeOracle: get_size(formula, measure) rebinds EVERY node type to measure_to_fun[measure] *)")
        out.append("Definition sizeo_measures : list (string * N) := [%s]."
                   % "; ".join("(%s, %d%%N)" % (coq_str(k), v) for k, v in sorted(measures.items(), key=lambda kv: kv[1])))
        out.append("Definition sizeo_dispatch (measure : N) (n : node_type) : option string :=\n  match measure with\n  %s\n  | _ => None\n  end%%N.\n"
                   % "\n  ".join("| %d => Some %s" % (m, coq_str(f)) for m, f in sorted(m2f.items())))
    out.append("Definition dispatch_tables : list string := [%s].\n" % "; ".join(coq_str(c) for c, _, _, _ in tables))
    return "\n".join(out) + "\n"


def validate_dispatch(tables, size, ops, repo):
    """walker.functions[op].__name__ of live instances against the translated tables."""
    import importlib
    from pysmt.environment import Environment
    env = Environment()
    bad = []

    def fname(f):
        f = getattr(f, "__func__", f)
        qn = getattr(f, "__qualname__", "")
        if ".<locals>." in qn and getattr(f, "__closure__", None):
            inner = [c.cell_contents for c in f.__closure__ if callable(c.cell_contents)]
            if len(inner) == 1:
                return "%s:%s" % (qn.split(".<locals>.")[0], getattr(inner[0], "__name__", "?"))
        return getattr(f, "__name__", None) or repr(f)
    for coqname, rel, cname, table in tables:
        mod = importlib.import_module(rel[:-3].replace("/", "."))
        if not os.path.abspath(mod.__file__).startswith(os.path.abspath(repo)):
            raise RuntimeError("%s imported from %s" % (rel, mod.__file__))
        cls = getattr(mod, cname)
        from pysmt.walkers.generic import nt_to_fun
        for i in ops.all_types:
            live = fname(getattr(cls, nt_to_fun(i)))
            if live != table[i]:
                bad.append("%s.%s: node type %s is handled by %s (class attribute), translated %s" % (rel, cname, ops.names[i], live, table[i]))
            f = getattr(cls, nt_to_fun(i))
            f = getattr(f, "__func__", f)
            if getattr(f, "__closure__", None):
                inner = [c.cell_contents for c in f.__closure__ if callable(c.cell_contents)]
                f = inner[0] if len(inner) == 1 else f
            qn = getattr(f, "__qualname__", "").split(".")[0]
            org = ORIGINS.get((rel, cname), {}).get(i)
            if org is not None and qn != org:
                bad.append("%s.%s: the handler of %s is defined in class %s, translated %s" % (rel, cname, ops.names[i], qn, org))
        try:
            if coqname in ("smtprinter", "smtdagprinter", "hrprinter"):
                import io
                inst = cls(io.StringIO())
            else:
                inst = cls(env)
        except NotImplementedError:
            continue                # abstract class (Substituter): its concrete subclasses are translated as well
        for i in ops.all_types:
            live = fname(inst.functions[i])
            if live != table[i]:
                bad.append("%s.%s: node type %s is handled by %s, translated %s" % (rel, cname, ops.names[i], live, table[i]))
    if size is not None:
        static, measures, m2f = size
        import warnings
        from pysmt.oracles import SizeOracle
        so = SizeOracle(env)
        for k, m in measures.items():
            if getattr(SizeOracle, k, None) != m:
                bad.append("SizeOracle.%s != %d" % (k, m))
            with warnings.catch_warnings():
                warnings.simplefilter("ignore")
                so.set_walking_measure(m)
            for i in ops.all_types:
                if fname(so.functions[i]) != m2f[m]:
                    bad.append("SizeOracle measure %d: node type %s handled by %s, translated %s" % (m, ops.names[i], fname(so.functions[i]), m2f[m]))
    return bad


def translate(repo):
    """Returns ({file name: text}, report)."""
    report = {"translated": [], "failed": [], "validation": []}
    texts = {}
    ops = read_operators(repo)          # an error here fails everything (nothing can be emitted without the table)
    texts["Operators.v"] = operators_v(ops)
    report["translated"].append("operators.py: %d node types, %d groups, %d asserts evaluated" % (len(ops.ids), len(ops.groups), ops.asserts))
    report["validation"] += ["operators: " + b for b in validate_operators(ops, repo)]
    cache, tables = {}, []
    for coqname, rel, cname in CLASSES:
        try:
            tables.append((coqname, rel, cname, resolve(repo, rel, cname, ops, cache)))
            report["translated"].append("%s.%s" % (rel, cname))
        except Untranslatable as ex:
            report["failed"].append("%s.%s: %s" % (rel, cname, ex))
    size = None
    try:
        size = size_oracle(repo, ops, cache)
        report["translated"].append("pysmt/oracles.py.SizeOracle (measure table)")
    except Untranslatable as ex:
        report["failed"].append("pysmt/oracles.py.SizeOracle: %s" % ex)
    nary = {}
    for coqname, rel, cname, table in tables:
        if coqname in ("smtprinter", "smtdagprinter", "hrprinter"):
            nary[coqname] = nary_symbols(cache[rel], cname, ops, table)
    texts["Dispatch.v"] = dispatch_v(tables, size, ops, nary)
    try:
        report["validation"] += validate_dispatch(tables, size, ops, repo)
    except Exception as ex:   # noqa: fail closed
        report["validation"].append("validation could not run: %r" % (ex,))
    if report["validation"]:
        report["failed"] += ["translated table differs from the running implementation: " + v for v in report["validation"][:10]]
    return texts, report
