"""harness/smtread.py - an independent reader of SMT-LIB 2.6 text (C07's SEARCH oracle).

Written from the standard (sections 3.1-3.9 and the theory files Core, Ints, Reals, Reals_Ints,
FixedSizeBitVectors + QF_BV, ArraysEx, Strings); shares no code with pysmt's parser or printers.
It uses `pysmt.typing` objects to name sorts and harness/refeval.py's *value* functions
(`int_div`, `bv_*`, `str_*`, `ArrayVal`, `BV`, `UVal`, `Interp`) so that the value of a read term can be
compared with `refeval.evaluate_ex(fnode, interp)`.

  tokens(text)            lexer: list of token texts ("(" ")" and atoms exactly as written);
                          comments, |quoted symbols|, "string literals with "" escapes"
  read_all(text)          s-expressions: nested Python lists of atom strings
  Script(text)            command reader: set-logic first, declare-sort / declare-fun / declare-const /
                          define-fun / assert / push / pop / check-sat ...; checks that every sort and
                          symbol is declared before use and at most once per scope and that every
                          term is well-sorted (static sorting); .assertions = list of (term, Sig)
  sort_of_term(sx, sig)   static sort of a term (SmtError if ill-formed / ill-sorted)
  value(sx, sig, interp)  value of a term under a refeval.Interp (parallel let, binders over
                          interp's domains, indexed identifiers, as const, ! annotations)

Errors: SmtError(kind, msg) with kind in lex | syntax | reserved | undeclared | redeclared | sort |
unknown-symbol | unsupported.
"""
import itertools
import sys
from fractions import Fraction

from pysmt.environment import get_env
from pysmt.typing import BOOL, INT, REAL, STRING, BVType, ArrayType

from . import refeval as R

sys.setrecursionlimit(max(sys.getrecursionlimit(), 20000))


class SmtError(Exception):
    def __init__(self, kind, msg):
        Exception.__init__(self, "%s: %s" % (kind, msg))
        self.kind = kind
        self.msg = msg


class Skip(Exception):
    """The term cannot be evaluated faithfully under this interpretation (domain too large)."""


# ------------------------------------------------------------------------------------------------
# Lexicon (2.6, section 3.1)
# ------------------------------------------------------------------------------------------------
WS = " \t\r\n"
SYMCHARS = set("~!@$%^&*_-+=<>.?/") | set("abcdefghijklmnopqrstuvwxyzABCDEFGHIJKLMNOPQRSTUVWXYZ0123456789")
DIGITS = "0123456789"
RESERVED = set("""! _ as BINARY DECIMAL exists HEXADECIMAL forall let match NUMERAL par STRING
assert check-sat check-sat-assuming declare-const declare-datatype declare-datatypes declare-fun
declare-sort define-fun define-fun-rec define-funs-rec define-sort echo exit get-assertions
get-assignment get-info get-model get-option get-proof get-unsat-assumptions get-unsat-core get-value
pop push reset reset-assertions set-info set-logic set-option""".split())


def _printable(ch):
    o = ord(ch)
    return 32 <= o <= 126 or o >= 128


def tokens(text):
    out = []
    i, n = 0, len(text)
    while i < n:
        c = text[i]
        if c in WS:
            i += 1
        elif c == ";":
            while i < n and text[i] not in "\r\n":
                i += 1
        elif c in "()":
            out.append(c)
            i += 1
        elif c == '"':
            j = i + 1
            while True:
                if j >= n:
                    raise SmtError("lex", "unterminated string literal at %d" % i)
                if text[j] == '"':
                    if j + 1 < n and text[j + 1] == '"':
                        j += 2
                        continue
                    break
                if not (_printable(text[j]) or text[j] in WS):
                    raise SmtError("lex", "non-printable character %r in string literal" % text[j])
                j += 1
            out.append(text[i:j + 1])
            i = j + 1
        elif c == "|":
            j = i + 1
            while True:
                if j >= n:
                    raise SmtError("lex", "unterminated quoted symbol at %d: %r" % (i, text[i:i + 30]))
                if text[j] == "|":
                    break
                if text[j] == "\\":
                    raise SmtError("lex", "backslash inside a quoted symbol: %r" % text[i:j + 2])
                if not (_printable(text[j]) or text[j] in WS):
                    raise SmtError("lex", "non-printable character %r in quoted symbol" % text[j])
                j += 1
            out.append(text[i:j + 1])
            i = j + 1
        else:
            j = i
            while j < n and text[j] not in WS and text[j] not in '();"|':
                j += 1
            tok = text[i:j]
            out.append(tok)
            i = j
    return out


def read_all(text):
    """All s-expressions of the text (atoms = token strings)."""
    toks = tokens(text)
    stack = [[]]
    for t in toks:
        if t == "(":
            stack.append([])
        elif t == ")":
            if len(stack) == 1:
                raise SmtError("syntax", "unbalanced ')'")
            x = stack.pop()
            stack[-1].append(x)
        else:
            stack[-1].append(t)
    if len(stack) != 1:
        raise SmtError("syntax", "missing ')'")
    return stack[0]


def read_one(text):
    xs = read_all(text)
    if len(xs) != 1:
        raise SmtError("syntax", "expected one s-expression, found %d" % len(xs))
    return xs[0]


def is_numeral(a):
    return a == "0" or (a != "" and a[0] in "123456789" and all(c in DIGITS for c in a))


def is_decimal(a):
    if a.count(".") != 1:
        return False
    x, y = a.split(".")
    return is_numeral(x) and y != "" and all(c in DIGITS for c in y)


def is_binary(a):
    return a.startswith("#b") and len(a) > 2 and all(c in "01" for c in a[2:])


def is_hex(a):
    return a.startswith("#x") and len(a) > 2 and all(c in "0123456789abcdefABCDEF" for c in a[2:])


def is_string_literal(a):
    return len(a) >= 2 and a[0] == '"' and a[-1] == '"'


def string_value(a):
    """Characters denoted by a string literal (Strings theory, 2.6): "" is one double quote;
    \\ud3d2d1d0, \\u{d0}..\\u{d4d3d2d1d0} are escape sequences."""
    body = a[1:-1].replace('""', '"')
    out, i, n = [], 0, len(body)
    hexd = "0123456789abcdefABCDEF"
    while i < n:
        c = body[i]
        if c == "\\" and i + 1 < n and body[i + 1] == "u":
            if i + 2 < n and body[i + 2] == "{":
                j = body.find("}", i + 3)
                if j != -1 and 1 <= j - (i + 3) <= 5 and all(h in hexd for h in body[i + 3:j]):
                    v = int(body[i + 3:j], 16)
                    if v <= 0x2FFFF:
                        out.append(chr(v))
                        i = j + 1
                        continue
            elif i + 6 <= n and all(h in hexd for h in body[i + 2:i + 6]):
                out.append(chr(int(body[i + 2:i + 6], 16)))
                i += 6
                continue
        out.append(c)
        i += 1
    return "".join(out)


def is_simple_symbol(a):
    return a != "" and a[0] not in DIGITS and all(c in SYMCHARS for c in a) and a not in RESERVED


def is_quoted_symbol(a):
    return len(a) >= 2 and a[0] == "|" and a[-1] == "|" and "|" not in a[1:-1] and "\\" not in a[1:-1]


def is_keyword(a):
    return len(a) >= 2 and a[0] == ":" and all(c in SYMCHARS for c in a[1:])


def sym(a):
    """Name of the symbol an atom denotes (|abc| and abc are the same symbol), else None."""
    if not isinstance(a, str):
        return None
    if is_quoted_symbol(a):
        return a[1:-1]
    if is_simple_symbol(a):
        return a
    return None


def need_sym(a, what):
    s = sym(a)
    if s is None:
        if isinstance(a, str) and a in RESERVED:
            raise SmtError("reserved", "reserved word %r used as %s" % (a, what))
        raise SmtError("syntax", "%r is not a symbol (%s)" % (a, what))
    return s


# ------------------------------------------------------------------------------------------------
# Signatures and sorts
# ------------------------------------------------------------------------------------------------
THEORY_SORTS = {"Bool", "Int", "Real", "String", "Array", "BitVec"}


class Sig(object):
    """Declared sorts (name -> arity) and functions (name -> (param sorts, result sort)), in a
    stack of scopes."""

    def __init__(self, type_manager=None):
        self.tm = type_manager or get_env().type_manager
        self.sorts = [{}]
        self.funs = [{}]

    def copy(self):
        s = Sig(self.tm)
        s.sorts = [dict(d) for d in self.sorts]
        s.funs = [dict(d) for d in self.funs]
        return s

    def sort_arity(self, n):
        for d in reversed(self.sorts):
            if n in d:
                return d[n]
        return None

    def fun(self, n):
        for d in reversed(self.funs):
            if n in d:
                return d[n]
        return None

    def declare_sort(self, n, k):
        if n in THEORY_SORTS:
            raise SmtError("redeclared", "sort %s is a theory sort" % n)
        if self.sort_arity(n) is not None:
            raise SmtError("redeclared", "sort %s declared twice" % n)
        self.sorts[-1][n] = k

    def declare_fun(self, n, params, res):
        if n in THEORY or n in ("true", "false"):
            raise SmtError("redeclared", "%s is a theory symbol" % n)
        if self.fun(n) is not None:
            raise SmtError("redeclared", "symbol %s declared twice" % n)
        self.funs[-1][n] = (tuple(params), res)

    def push(self, k=1):
        for _ in range(k):
            self.sorts.append({})
            self.funs.append({})

    def pop(self, k=1):
        if k >= len(self.sorts):
            raise SmtError("syntax", "pop %d with %d levels" % (k, len(self.sorts) - 1))
        for _ in range(k):
            self.sorts.pop()
            self.funs.pop()

    def user_sort(self, n, args):
        d = self.tm.Type(n, len(args))
        if not args:
            return d
        return self.tm.get_type_instance(d, *args)


def read_sort(sx, sig):
    if isinstance(sx, str):
        n = need_sym(sx, "sort")
        if n == "Bool":
            return BOOL
        if n == "Int":
            return INT
        if n == "Real":
            return REAL
        if n == "String":
            return STRING
        k = sig.sort_arity(n)
        if k is None:
            raise SmtError("undeclared", "sort %s is not declared" % n)
        if k != 0:
            raise SmtError("sort", "sort %s needs %d arguments" % (n, k))
        return sig.user_sort(n, ())
    if not sx:
        raise SmtError("syntax", "empty sort")
    if sx[0] == "_":
        if len(sx) == 3 and sx[1] == "BitVec" and isinstance(sx[2], str) and is_numeral(sx[2]) and int(sx[2]) > 0:
            return BVType(int(sx[2]))
        raise SmtError("syntax", "bad indexed sort %r" % (sx,))
    n = need_sym(sx[0], "sort")
    args = [read_sort(a, sig) for a in sx[1:]]
    if n == "Array":
        if len(args) != 2:
            raise SmtError("sort", "Array takes 2 sorts")
        return ArrayType(args[0], args[1])
    k = sig.sort_arity(n)
    if k is None:
        raise SmtError("undeclared", "sort %s is not declared" % n)
    if k != len(args) or k == 0:
        raise SmtError("sort", "sort %s has arity %d, applied to %d" % (n, k, len(args)))
    return sig.user_sort(n, tuple(args))


# ------------------------------------------------------------------------------------------------
# Theory functions: name -> (rank function on sorts, value function on values)
# ------------------------------------------------------------------------------------------------
def _bad(msg):
    raise SmtError("sort", msg)


def _all_same(ts, what):
    for t in ts[1:]:
        if t != ts[0]:
            _bad("%s: arguments of different sorts %s" % (what, [str(x) for x in ts]))
    return ts[0]


def _arith(t, what):
    if not (t.is_int_type() or t.is_real_type()):
        _bad("%s on sort %s" % (what, t))
    return t


def _min(ts, k, what):
    if len(ts) < k:
        _bad("%s needs at least %d arguments" % (what, k))


def _exact(ts, k, what):
    if len(ts) != k:
        _bad("%s takes %d arguments, got %d" % (what, k, len(ts)))


def _bv(t, what):
    if not t.is_bv_type():
        _bad("%s on sort %s" % (what, t))
    return t


def _fold(f):
    def g(I, vs):
        r = vs[0]
        for x in vs[1:]:
            r = f(r, x)
        return r
    return g


def _chain(f):
    return lambda I, vs: all(f(vs[i], vs[i + 1]) for i in range(len(vs) - 1))


def _r_bool_nary(name):
    def r(ts):
        _min(ts, 2, name)
        for t in ts:
            if not t.is_bool_type():
                _bad("%s on sort %s" % (name, t))
        return BOOL
    return r


def _r_arith_nary(name, k=2):
    def r(ts):
        _min(ts, k, name)
        return _arith(_all_same(ts, name), name)
    return r


def _r_arith_rel(name):
    def r(ts):
        _min(ts, 2, name)
        _arith(_all_same(ts, name), name)
        return BOOL
    return r


def _r_eq(name):
    def r(ts):
        _min(ts, 2, name)
        _all_same(ts, name)
        return BOOL
    return r


def _r_ite(ts):
    _exact(ts, 3, "ite")
    if not ts[0].is_bool_type():
        _bad("ite condition of sort %s" % ts[0])
    return _all_same(ts[1:], "ite")


def _r_only(name, sort, k=2):
    def r(ts):
        _min(ts, k, name)
        for t in ts:
            if t != sort:
                _bad("%s on sort %s" % (name, t))
        return sort
    return r


def _r_sig(name, params, res):
    def r(ts):
        _exact(ts, len(params), name)
        for t, p in zip(ts, params):
            if t != p:
                _bad("%s: argument of sort %s where %s is expected" % (name, t, p))
        return res
    return r


def _r_bv_un(name):
    def r(ts):
        _exact(ts, 1, name)
        return _bv(ts[0], name)
    return r


def _r_bv_bin(name, left_assoc=False):
    def r(ts):
        if left_assoc:
            _min(ts, 2, name)
        else:
            _exact(ts, 2, name)
        return _bv(_all_same(ts, name), name)
    return r


def _r_bv_rel(name):
    def r(ts):
        _exact(ts, 2, name)
        _bv(_all_same(ts, name), name)
        return BOOL
    return r


def _r_concat(ts):
    _exact(ts, 2, "concat")
    return BVType(_bv(ts[0], "concat").width + _bv(ts[1], "concat").width)


def _r_bvcomp(ts):
    _exact(ts, 2, "bvcomp")
    _bv(_all_same(ts, "bvcomp"), "bvcomp")
    return BVType(1)


def _r_bv2nat(ts):
    _exact(ts, 1, "bv2nat")
    _bv(ts[0], "bv2nat")
    return INT


def _r_select(ts):
    _exact(ts, 2, "select")
    if not ts[0].is_array_type() or ts[0].index_type != ts[1]:
        _bad("select on %s, %s" % (ts[0], ts[1]))
    return ts[0].elem_type


def _r_store(ts):
    _exact(ts, 3, "store")
    if not ts[0].is_array_type() or ts[0].index_type != ts[1] or ts[0].elem_type != ts[2]:
        _bad("store on %s, %s, %s" % tuple(ts))
    return ts[0]


def _v_minus(I, vs):
    if len(vs) == 1:
        return -vs[0]
    return _fold(lambda a, b: a - b)(I, vs)


def _v_realdiv(I, vs):
    r = vs[0]
    for y in vs[1:]:
        r = I.div_by_zero("real", r) if y == 0 else r / y
    return r


def _v_intdiv(I, vs):
    r = vs[0]
    for y in vs[1:]:
        r = I.div_by_zero("int", r) if y == 0 else R.int_div(r, y)
    return r


def _v_mod(I, vs):
    if vs[1] == 0:
        raise Skip("mod by zero")
    return R.int_mod(vs[0], vs[1])


def _v_implies(I, vs):
    r = vs[-1]
    for a in reversed(vs[:-1]):
        r = (not a) or r
    return r


def _v_distinct(I, vs):
    return all(vs[i] != vs[j] for i in range(len(vs)) for j in range(i + 1, len(vs)))


def _v_xor(I, vs):
    r = vs[0]
    for x in vs[1:]:
        r = r != x
    return r


def _lift(f):
    return lambda I, vs: f(*vs)


THEORY = {
    # Core
    "not": (_r_sig("not", [BOOL], BOOL), _lift(lambda a: not a)),
    "and": (_r_bool_nary("and"), lambda I, vs: all(vs)),
    "or": (_r_bool_nary("or"), lambda I, vs: any(vs)),
    "xor": (_r_bool_nary("xor"), _v_xor),
    "=>": (_r_bool_nary("=>"), _v_implies),
    "=": (_r_eq("="), _chain(lambda a, b: a == b)),
    "distinct": (_r_eq("distinct"), _v_distinct),
    "ite": (_r_ite, _lift(lambda c, a, b: a if c else b)),
    # Ints / Reals
    "+": (_r_arith_nary("+"), _fold(lambda a, b: a + b)),
    "*": (_r_arith_nary("*"), _fold(lambda a, b: a * b)),
    "-": (_r_arith_nary("-", 1), _v_minus),
    "/": (_r_only("/", REAL), _v_realdiv),
    "div": (_r_only("div", INT), _v_intdiv),
    "mod": (_r_sig("mod", [INT, INT], INT), _v_mod),
    "abs": (_r_sig("abs", [INT], INT), _lift(abs)),
    "<=": (_r_arith_rel("<="), _chain(lambda a, b: a <= b)),
    "<": (_r_arith_rel("<"), _chain(lambda a, b: a < b)),
    ">=": (_r_arith_rel(">="), _chain(lambda a, b: a >= b)),
    ">": (_r_arith_rel(">"), _chain(lambda a, b: a > b)),
    "to_real": (_r_sig("to_real", [INT], REAL), _lift(lambda a: Fraction(a))),
    "to_int": (_r_sig("to_int", [REAL], INT), _lift(lambda a: a.numerator // a.denominator)),
    "is_int": (_r_sig("is_int", [REAL], BOOL), _lift(lambda a: a.denominator == 1)),
    # FixedSizeBitVectors + QF_BV
    "bvnot": (_r_bv_un("bvnot"), _lift(R.bv_not)), "bvneg": (_r_bv_un("bvneg"), _lift(R.bv_neg)),
    "bvand": (_r_bv_bin("bvand", True), _fold(R.bv_and)), "bvor": (_r_bv_bin("bvor", True), _fold(R.bv_or)),
    "bvxor": (_r_bv_bin("bvxor", True), _fold(R.bv_xor)),
    "bvadd": (_r_bv_bin("bvadd", True), _fold(R.bv_add)), "bvmul": (_r_bv_bin("bvmul", True), _fold(R.bv_mul)),
    "bvsub": (_r_bv_bin("bvsub"), _lift(R.bv_sub)),
    "bvudiv": (_r_bv_bin("bvudiv"), _lift(R.bv_udiv)), "bvurem": (_r_bv_bin("bvurem"), _lift(R.bv_urem)),
    "bvshl": (_r_bv_bin("bvshl"), _lift(R.bv_shl)), "bvlshr": (_r_bv_bin("bvlshr"), _lift(R.bv_lshr)),
    "bvashr": (_r_bv_bin("bvashr"), _lift(R.bv_ashr)),
    "bvsdiv": (_r_bv_bin("bvsdiv"), _lift(R.bv_sdiv)), "bvsrem": (_r_bv_bin("bvsrem"), _lift(R.bv_srem)),
    "bvsmod": (_r_bv_bin("bvsmod"), _lift(R.bv_smod)),
    "bvult": (_r_bv_rel("bvult"), _lift(R.bv_ult)), "bvule": (_r_bv_rel("bvule"), _lift(R.bv_ule)),
    "bvslt": (_r_bv_rel("bvslt"), _lift(R.bv_slt)), "bvsle": (_r_bv_rel("bvsle"), _lift(R.bv_sle)),
    "bvugt": (_r_bv_rel("bvugt"), _lift(lambda a, b: R.bv_ult(b, a))), "bvuge": (_r_bv_rel("bvuge"), _lift(lambda a, b: R.bv_ule(b, a))),
    "bvsgt": (_r_bv_rel("bvsgt"), _lift(lambda a, b: R.bv_slt(b, a))), "bvsge": (_r_bv_rel("bvsge"), _lift(lambda a, b: R.bv_sle(b, a))),
    "concat": (_r_concat, _lift(R.bv_concat)), "bvcomp": (_r_bvcomp, _lift(R.bv_comp)),
    "bv2nat": (_r_bv2nat, _lift(lambda a: a.value)),
    # ArraysEx
    "select": (_r_select, _lift(lambda a, i: a.get(i))),
    "store": (_r_store, _lift(lambda a, i, v: a.set(i, v))),
    # Strings (2.6)
    "str.len": (_r_sig("str.len", [STRING], INT), _lift(R.str_len)),
    "str.++": (_r_only("str.++", STRING), lambda I, vs: R.str_concat(*vs)),
    "str.at": (_r_sig("str.at", [STRING, INT], STRING), _lift(R.str_at)),
    "str.substr": (_r_sig("str.substr", [STRING, INT, INT], STRING), _lift(R.str_substr)),
    "str.prefixof": (_r_sig("str.prefixof", [STRING, STRING], BOOL), _lift(R.str_prefixof)),
    "str.suffixof": (_r_sig("str.suffixof", [STRING, STRING], BOOL), _lift(R.str_suffixof)),
    "str.contains": (_r_sig("str.contains", [STRING, STRING], BOOL), _lift(R.str_contains)),
    "str.indexof": (_r_sig("str.indexof", [STRING, STRING, INT], INT), _lift(R.str_indexof)),
    "str.replace": (_r_sig("str.replace", [STRING, STRING, STRING], STRING), _lift(R.str_replace)),
    "str.to_int": (_r_sig("str.to_int", [STRING], INT), _lift(R.str_to_int)),
    "str.from_int": (_r_sig("str.from_int", [INT], STRING), _lift(R.str_from_int)),
}


def _rank_indexed(name, idx, ts):
    if len(ts) != 1 or not ts[0].is_bv_type():
        _bad("(_ %s ...) applied to %s" % (name, [str(t) for t in ts]))
    w = ts[0].width
    if name == "extract" and len(idx) == 2:
        i, j = idx
        if not (0 <= j <= i < w):
            _bad("(_ extract %d %d) on width %d" % (i, j, w))
        return BVType(i - j + 1)
    if name in ("rotate_left", "rotate_right") and len(idx) == 1:
        return ts[0]
    if name in ("zero_extend", "sign_extend") and len(idx) == 1:
        return BVType(w + idx[0]) if idx[0] > 0 else ts[0]
    if name == "repeat" and len(idx) == 1 and idx[0] >= 1:
        return BVType(w * idx[0])
    raise SmtError("unknown-symbol", "indexed identifier (_ %s %s)" % (name, " ".join(map(str, idx))))


def _value_indexed(name, idx, vs):
    a = vs[0]
    if name == "extract":
        return R.bv_extract(a, idx[0], idx[1])
    if name == "rotate_left":
        return R.bv_rol(a, idx[0])
    if name == "rotate_right":
        return R.bv_ror(a, idx[0])
    if name == "zero_extend":
        return R.bv_zext(a, idx[0])
    if name == "sign_extend":
        return R.bv_sext(a, idx[0])
    if name == "repeat":
        r = a
        for _ in range(idx[0] - 1):
            r = R.bv_concat(r, a)
        return r
    raise SmtError("unknown-symbol", name)


# ------------------------------------------------------------------------------------------------
# Terms: static sort and value
# ------------------------------------------------------------------------------------------------
def _indices(xs):
    out = []
    for x in xs:
        if not (isinstance(x, str) and is_numeral(x)):
            raise SmtError("syntax", "index %r is not a numeral" % (x,))
        out.append(int(x))
    return out


def _bindings(bs, what):
    if not isinstance(bs, list) or not bs:
        raise SmtError("syntax", "%s needs a non-empty binding list" % what)
    out = []
    for b in bs:
        if not (isinstance(b, list) and len(b) == 2):
            raise SmtError("syntax", "bad binding %r" % (b,))
        out.append((need_sym(b[0], "bound variable"), b[1]))
    return out


def _literal(a):
    """(sort, value) of a literal atom, or None."""
    if is_numeral(a):
        return INT, int(a)
    if is_decimal(a):
        return REAL, Fraction(a)
    if is_binary(a):
        return BVType(len(a) - 2), R.BV(len(a) - 2, int(a[2:], 2))
    if is_hex(a):
        return BVType(4 * (len(a) - 2)), R.BV(4 * (len(a) - 2), int(a[2:], 16))
    if is_string_literal(a):
        return STRING, string_value(a)
    return None


def sort_of_term(sx, sig, scope=None):
    """Static sort of a term; scope = {bound variable name: sort}."""
    scope = scope or {}
    if isinstance(sx, str):
        lit = _literal(sx)
        if lit is not None:
            return lit[0]
        n = need_sym(sx, "term")
        if n in scope:
            return scope[n]
        if n in ("true", "false"):
            return BOOL
        if n in THEORY:
            _bad("theory function %s used as a constant" % n)
        f = sig.fun(n)
        if f is None:
            raise SmtError("undeclared", "symbol %s is not declared" % n)
        if f[0]:
            _bad("function %s used as a constant" % n)
        return f[1]
    if not sx:
        raise SmtError("syntax", "empty application")
    h = sx[0]
    if isinstance(h, str):
        if h == "let":
            if len(sx) != 3:
                raise SmtError("syntax", "let takes bindings and a body")
            bs = _bindings(sx[1], "let")
            names = [n for n, _ in bs]
            if len(set(names)) != len(names):
                raise SmtError("syntax", "let binds %s twice" % names)
            new = dict(scope)
            for n, e in bs:
                new[n] = sort_of_term(e, sig, scope)          # parallel: outer scope
            return sort_of_term(sx[2], sig, new)
        if h in ("forall", "exists"):
            if len(sx) != 3:
                raise SmtError("syntax", "%s takes variables and a body" % h)
            new = dict(scope)
            for n, s in _bindings(sx[1], h):
                new[n] = read_sort(s, sig)
            if not sort_of_term(sx[2], sig, new).is_bool_type():
                _bad("%s body is not Bool" % h)
            return BOOL
        if h == "!":
            if len(sx) < 4:
                raise SmtError("syntax", "! needs a term and attributes")
            return sort_of_term(sx[1], sig, scope)
        if h == "_":
            if len(sx) == 3 and isinstance(sx[1], str) and sx[1].startswith("bv") and is_numeral(sx[1][2:]) and is_numeral(sx[2]) and int(sx[2]) > 0:
                return BVType(int(sx[2]))
            raise SmtError("unknown-symbol", "indexed identifier %r" % (sx,))
        if h in ("match", "as", "par"):
            raise SmtError("unsupported", "%s terms" % h)
        f = need_sym(h, "function")
        ts = [sort_of_term(a, sig, scope) for a in sx[1:]]
        if f in scope:
            _bad("bound variable %s applied to arguments" % f)
        if f in THEORY:
            return THEORY[f][0](ts)
        d = sig.fun(f)
        if d is None:
            if f in ("true", "false"):
                _bad("%s applied" % f)
            raise SmtError("undeclared", "function %s is not declared (or not an SMT-LIB theory symbol)" % f)
        if not d[0] or len(d[0]) != len(ts) or any(a != b for a, b in zip(d[0], ts)):
            _bad("%s : %s applied to %s" % (f, [str(x) for x in d[0]], [str(x) for x in ts]))
        return d[1]
    # head is a list: indexed identifier or (as const ...)
    if h and h[0] == "_" and len(h) >= 3 and isinstance(h[1], str):
        ts = [sort_of_term(a, sig, scope) for a in sx[1:]]
        return _rank_indexed(h[1], _indices(h[2:]), ts)
    if h and h[0] == "as" and len(h) == 3 and h[1] == "const":
        t = read_sort(h[2], sig)
        if not t.is_array_type() or len(sx) != 2:
            _bad("(as const %s)" % (t,))
        if sort_of_term(sx[1], sig, scope) != t.elem_type:
            _bad("(as const %s) applied to a term of another sort" % (t,))
        return t
    raise SmtError("syntax", "bad application head %r" % (h,))


def _domain(I, t):
    d = None
    if not (t.is_bv_type() and t.width > I.bv_enum_width):
        d = I.finite_domain(t, I.enum_limit)
    if d is None:
        d = I.sample_domain(t)
    return list(d)


def value(sx, sig, I, scope=None):
    """Value of a well-sorted term under the refeval.Interp I; scope = {name: value}."""
    scope = scope or {}
    if isinstance(sx, str):
        lit = _literal(sx)
        if lit is not None:
            return lit[1]
        n = sym(sx)
        if n in scope:
            return scope[n]
        if n == "true":
            return True
        if n == "false":
            return False
        f = sig.fun(n)
        return I.value((n, f[1]))
    h = sx[0]
    if isinstance(h, str):
        if h == "let":
            new = dict(scope)
            for n, e in _bindings(sx[1], "let"):
                new[n] = value(e, sig, I, scope)
            return value(sx[2], sig, I, new)
        if h in ("forall", "exists"):
            vs = [(n, read_sort(s, sig)) for n, s in _bindings(sx[1], h)]
            doms = [_domain(I, t) for _, t in vs]
            total = 1
            for d in doms:
                total *= len(d)
            if total > I.enum_limit:
                raise Skip("quantifier domain too large")
            # nested quantifiers multiply: bound the product along the nesting as well, otherwise
            # three nested binders over 256-element domains mean 16M evaluations of the body
            qprod = scope.get("\0qprod", 1) * total
            if qprod > I.enum_limit:
                raise Skip("nested quantifier domains too large")
            for xs in itertools.product(*doms):
                new = dict(scope)
                new["\0qprod"] = qprod
                for (n, _), x in zip(vs, xs):
                    new[n] = x
                b = value(sx[2], sig, I, new)
                if h == "forall" and not b:
                    return False
                if h == "exists" and b:
                    return True
            return h == "forall"
        if h == "!":
            return value(sx[1], sig, I, scope)
        if h == "_":
            return R.BV(int(sx[2]), int(sx[1][2:]) % (1 << int(sx[2])))
        f = sym(h)
        vs = [value(a, sig, I, scope) for a in sx[1:]]
        if f in THEORY:
            return THEORY[f][1](I, vs)
        d = sig.fun(f)
        from pysmt.typing import FunctionType
        return I.apply((f, FunctionType(d[1], list(d[0]))), tuple(vs))
    if h[0] == "_":
        return _value_indexed(h[1], _indices(h[2:]), [value(a, sig, I, scope) for a in sx[1:]])
    if h[0] == "as":
        t = read_sort(h[2], sig)
        return R.ArrayVal(value(sx[1], sig, I, scope), None, I.index_dom(t.index_type))
    raise SmtError("syntax", "bad term")


# ------------------------------------------------------------------------------------------------
# Scripts
# ------------------------------------------------------------------------------------------------
NOARG = {"check-sat", "exit", "get-model", "get-assignment", "get-unsat-core", "get-proof", "get-assertions",
         "get-unsat-assumptions", "reset-assertions", "get-objectives"}


class Script(object):
    """Reads a whole script, checking well-formedness command by command."""

    def __init__(self, text, type_manager=None, require_logic=True):
        self.sig = Sig(type_manager)
        self.commands = read_all(text)
        self.logic = None
        self.assertions = []          # (term s-expression, Sig snapshot)
        self.names = []
        first = True
        for c in self.commands:
            if not isinstance(c, list) or not c or not isinstance(c[0], str):
                raise SmtError("syntax", "not a command: %r" % (c,))
            name = c[0]
            self.names.append(name)
            if first and require_logic and name not in ("set-logic", "set-option", "set-info"):
                raise SmtError("syntax", "first command is %s, not set-logic" % name)
            if name == "set-logic":
                if self.logic is not None or len(c) != 2:
                    raise SmtError("syntax", "bad/duplicate set-logic")
                self.logic = need_sym(c[1], "logic name")
                first = False
                continue
            first = False
            self.command(name, c)

    def command(self, name, c):
        sig = self.sig
        if name == "declare-sort":
            if len(c) != 3 or not (isinstance(c[2], str) and is_numeral(c[2])):
                raise SmtError("syntax", "declare-sort needs a symbol and a numeral: %r" % (c,))
            sig.declare_sort(need_sym(c[1], "sort name"), int(c[2]))
        elif name == "declare-fun":
            if len(c) != 4 or not isinstance(c[2], list):
                raise SmtError("syntax", "bad declare-fun %r" % (c,))
            n = need_sym(c[1], "function name")
            ps = [read_sort(p, sig) for p in c[2]]
            sig.declare_fun(n, ps, read_sort(c[3], sig))
        elif name == "declare-const":
            if len(c) != 3:
                raise SmtError("syntax", "bad declare-const %r" % (c,))
            sig.declare_fun(need_sym(c[1], "constant name"), [], read_sort(c[2], sig))
        elif name == "assert":
            if len(c) != 2:
                raise SmtError("syntax", "assert takes one term")
            if not sort_of_term(c[1], sig).is_bool_type():
                _bad("asserted term is not Bool")
            self.assertions.append((c[1], sig.copy()))
        elif name in ("push", "pop"):
            k = 1
            if len(c) == 2 and isinstance(c[1], str) and is_numeral(c[1]):
                k = int(c[1])
            elif len(c) != 1:
                raise SmtError("syntax", "bad %s" % name)
            (sig.push if name == "push" else sig.pop)(k)
        elif name in ("set-option", "set-info"):
            if len(c) < 2 or not (isinstance(c[1], str) and is_keyword(c[1])):
                raise SmtError("syntax", "bad %s" % name)
        elif name in NOARG:
            if len(c) != 1:
                raise SmtError("syntax", "%s takes no argument" % name)
        elif name == "get-value":
            if len(c) != 2 or not isinstance(c[1], list):
                raise SmtError("syntax", "bad get-value")
            for t in c[1]:
                sort_of_term(t, sig)
        else:
            raise SmtError("unsupported", "command %s" % name)


def read_term_with(text, decls, type_manager=None):
    """Read one term given declarations {name: (param sorts, result sort)} and sorts {name: arity}
    (decls = (sorts, funs)); returns (sexp, Sig)."""
    sig = Sig(type_manager)
    for n, k in decls[0].items():
        sig.declare_sort(n, k)
    for n, (ps, r) in decls[1].items():
        sig.declare_fun(n, ps, r)
    return read_one(text), sig
