"""C01 - Simplification preserves type and meaning.

1. proof: builds the Coq closure of props/C01.v (models/Simplifier.v, models/Ctors.v,
   core/PyPrims.v + proofs/Simplifier_proofs.v).
2. correspondence (H):
   * "prims": every function of core/PyPrims.v against the CPython built-in it models;
   * "simplify": Simplifier.simplify of /repo against models/Simplifier.v (simplify_opt) on a
     random stream (gen/formulas.py) and a directed per-operator stream (cross product of argument
     shapes), compared with exact structural equality inside Coq.  Orders that depend on node
     ids (Python sets, sort by node_id) are supplied to the model as an oracle built from the
     observed run; the model accepts them only if they are permutations of its own result.
3. property-level oracle on the implementation, independent of the model: harness/refeval.py
   (type, free symbols, value under random / exhaustive interpretations).
"""
import hashlib
import itertools
import json
import warnings
import os
import random
import sys
import time
from fractions import Fraction

import pysmt.operators as op
import pysmt.environment
from pysmt.environment import Environment
from pysmt.simplifier import Simplifier
from pysmt.typing import BOOL, INT, REAL, STRING, BVType, ArrayType, FunctionType

from . import gen_all, lib, refeval, tocoq
from .gen.formulas import Config, FormulaGen

TRUSTED = [
    "Coq 8.16 kernel + vm_compute",
    "coq/core/Syntax.v (term syntax) and harness/tocoq.py + c01.emit (FNode -> Gallina literal; array-value "
    "assignments written in the model's canonical key order)",
    "hand models coq/models/Simplifier.v, Ctors.v, TypeChecker.v, Oracles.v (fv) and coq/core/PyPrims.v: tied to "
    "the implementation / to CPython by the correspondence streams of this run, not by proof",
    "harness/refeval.py (independent reference evaluator) as the SEARCH oracle for semantic differences",
    "the order oracle: orders of And/Or/Times arguments and quantified variables produced from Python sets / "
    "node ids are taken from the observed run (the model only accepts permutations of its own result)",
]
ASSUMPTIONS = [
    "inputs are well-typed formulas built through the public FormulaManager constructors",
    "the memoised DAG walk equals bottom-up structural recursion (proved separately: proofs/DagWalk_proofs.v)",
    "not modelled (model answers 'raises'; generator avoids): Pow with a non-integer exponent (C pow on doubles); "
    "code points >= 256 in str.to_int (Unicode digits / spaces accepted by int())",
    "a rule's intermediate nodes (e.g. Not(s) built only to be inspected) are assumed to pass create_node's type check",
]
RULE = ("for every generated well-typed formula f: Simplifier.simplify(f) of the implementation equals the Coq model's "
        "simplify_opt on the same term (exact structural equality, including raising); and f.simplify() has the type "
        "of f, only symbols free in f, and the value of f under sampled/exhaustive interpretations (refeval)")

SIMPLIFIER_FILE = sys.modules[Simplifier.__module__].__file__


# ----------------------------------------------------------------------------------------------
# Gallina emission (array values in canonical key order)
# ----------------------------------------------------------------------------------------------

def const_key(n):
    nt = n.node_type()
    if nt == op.BOOL_CONSTANT:
        return [0, 1 if n.constant_value() else 0]
    if nt == op.INT_CONSTANT:
        return [1, int(n.constant_value())]
    if nt == op.REAL_CONSTANT:
        v = Fraction(n.constant_value())
        return [2, v.numerator, v.denominator]
    if nt == op.BV_CONSTANT:
        return [3, int(n._content.payload[0]), int(n._content.payload[1])]
    if nt == op.STR_CONSTANT:
        return [4] + [ord(c) for c in n.constant_value()]
    return [9]


def canon_args(n):
    a = n.args()
    if n.node_type() != op.ARRAY_VALUE or len(a) <= 3:
        return a
    pairs = sorted(zip(a[1::2], a[2::2]), key=lambda kv: const_key(kv[0]))
    out = [a[0]]
    for k, v in pairs:
        out += [k, v]
    return tuple(out)


def zl(n):
    """Gallina Z literal.  Ints beyond 96 bits are written as `zchunks` of their 64-bit
    limbs (least significant first): coqc's number parser is very slow on literals with thousands of digits, and
    Python's own str() refuses more than 4300 digits (a limit that must stay at its default here,
    because the code under test depends on it)."""
    n = int(n)
    if abs(n) < (1 << 96):
        return "(%d)%%Z" % n
    a, chunks = abs(n), []
    while a:
        chunks.append(a & ((1 << 64) - 1))
        a >>= 64
    return "(%szchunks [%s])%%Z" % ("- " if n < 0 else "", "; ".join("%d" % c for c in chunks))


PRIM_HELPERS = """
Definition oz_eqb (a b : option Z) : bool :=
  match a, b with Some x, Some y => Z.eqb x y | None, None => true | _, _ => false end.
Definition os_eqb (a b : option (list Z)) : bool :=
  match a, b with Some x, Some y => list_eqb Z.eqb x y | None, None => true | _, _ => false end.
Definition fr_is (r : Z * Z) (n d : Z) : bool := Z.eqb (fst r) n && Z.eqb (snd r) d.
Definition ofr_is (a b : option (Z * Z)) : bool :=
  match a, b with Some x, Some y => fr_is x (fst y) (snd y) | None, None => true | _, _ => false end.
"""

ZCHUNKS = ("Definition zchunks (l : list Z) : Z := fold_right (fun c acc => (c + Z.shiftl acc 64)%Z) 0%Z l.\n"
           "Definition zrepeat {A} (x : A) (n : Z) : list A := List.repeat x (Z.to_nat n).\n")


def zseq(codes):
    """Gallina `list Z` for a sequence of code points; long runs are written with List.repeat
    (coqc is very slow on list literals with thousands of elements)."""
    codes = list(codes)
    if len(codes) <= 200:
        return "[" + "; ".join(zl(c) for c in codes) + "]"
    parts, lit, i = [], [], 0
    while i < len(codes):
        j = i
        while j < len(codes) and codes[j] == codes[i]:
            j += 1
        if j - i >= 8:
            if lit:
                parts.append("[" + "; ".join(zl(c) for c in lit) + "]")
                lit = []
            parts.append("zrepeat %s %s" % (zl(codes[i]), zl(j - i)))
        else:
            lit += codes[i:j]
        i = j
    if lit:
        parts.append("[" + "; ".join(zl(c) for c in lit) + "]")
    return "(" + " ++ ".join(parts) + ")"


def opr(n):
    if n.node_type() == op.INT_CONSTANT:
        return "(OIntC %s)" % zl(n.constant_value())
    if n.node_type() == op.STR_CONSTANT:
        return "(OStrC %s)" % zseq(ord(c) for c in n.constant_value())
    return tocoq.opr(n)


def emit(roots, body_fn):
    names, lines = {}, []
    for i, n in enumerate(tocoq.topo(roots)):
        nm = "n%d" % i
        names[n] = nm
        lines.append("let %s := T %s [%s] in" % (nm, opr(n), "; ".join(names[c] for c in canon_args(n))))
    return "(" + "\n  ".join(lines) + "\n  " + body_fn(names) + ")"


PREAMBLE = ("From Coq Require Import List ZArith Bool String.\n"
            "From PySMT.core Require Import CaseUtil Syntax PyPrims.\n"
            "From PySMT.models Require Import TypeChecker Oracles Ctors Simplifier.\n"
            "Import ListNotations.\nOpen Scope bool_scope.\n" + ZCHUNKS)

OK_DEF = """
Definition entry := (op * list term * term)%type.
Definition lookup (tbl : list entry) : oracle := fun o args =>
  match find (fun e : entry => op_eqb o (fst (fst e)) && list_eqb term_eqb args (snd (fst e))) tbl with
  | Some e => Some (snd e)
  | None => None
  end.
Definition ok (c : term * list entry * option term) : bool :=
  match simplify_opt (lookup (snd (fst c))) (fst (fst c)), snd c with
  | Some r, Some e => term_eqb r e
  | None, None => true
  | _, _ => false
  end.
"""


def write_case_files(dirpath, tag, rows, shard, offset=0):
    """Rows are dealt round-robin to the files (row i -> file i mod n), so that the few expensive
    cases of one stream do not end up in the same file.  Returns [(path, [global indexes])]; `offset` is
    the global index of rows[0]."""
    nfiles = max(1, (len(rows) + shard - 1) // shard)
    files = []
    for k in range(nfiles):
        idx = list(range(k, len(rows), nfiles))
        text = PREAMBLE
        text += "Definition cases : list (term * list (op * list term * term) * option term) := [\n%s\n].\n" % ";\n".join(rows[i] for i in idx)
        text += OK_DEF + "\nEval vm_compute in mismatches ok cases.\n"
        p = os.path.join(dirpath, "cases_%s_%d.v" % (tag, k))
        with open(p, "w") as f:
            f.write(text)
        files.append((p, [offset + i for i in idx]))
    return files


class CasePool(object):
    """coqc on case files in the background (subprocesses), so that the model is evaluated while the implementation
    and the reference evaluator work on the next cases."""
    def __init__(self, jobs=None):
        from concurrent.futures import ThreadPoolExecutor
        self.ex = ThreadPoolExecutor(max_workers=jobs or max(2, lib.NPROC // 2))
        self.futs = []          # (path, [global indexes], future)

    def submit(self, files):
        for p, idx in files:
            self.futs.append((p, idx, self.ex.submit(lib.coqc_file, p)))

    def results(self):
        bad, errs = [], []
        for p, idx, fut in self.futs:
            rc, out = fut.result()
            mm = lib.parse_nat_list(out) if rc == 0 else None
            if mm is None:
                errs.append({"file": p, "error": out[-800:]})
            else:
                bad += [idx[i] for i in mm]
        self.ex.shutdown()
        return sorted(bad), errs


def run_files(files):
    res = lib.run_case_files([p for p, _ in files])
    bad, errs = [], []
    for p, idx in files:
        rc, out = res[p]
        mm = lib.parse_nat_list(out) if rc == 0 else None
        if mm is None:
            errs.append({"file": p, "error": out[-800:]})
        else:
            bad += [idx[i] for i in mm]
    return sorted(bad), errs


# ----------------------------------------------------------------------------------------------
# Running the implementation
# ----------------------------------------------------------------------------------------------

class EnvCtx(object):
    """Fresh pysmt Environment made the current one (FNode methods consult the global stack)."""

    def __enter__(self):
        self.env = Environment()
        pysmt.environment.push_env(self.env)
        return self.env

    def __exit__(self, *a):
        pysmt.environment.pop_env()


class LineCov(object):
    def __init__(self):
        self.lines = set()

    def _global(self, frame, event, arg):
        if frame.f_code.co_filename == SIMPLIFIER_FILE:
            return self._local
        return None

    def _local(self, frame, event, arg):
        if event == "line":
            self.lines.add(frame.f_lineno)
        return self._local

    def __enter__(self):
        sys.settrace(self._global)

    def __exit__(self, *a):
        sys.settrace(None)


def modelled_lines():
    """{method name: executable lines} of Simplifier.walk_* (walk_debug excluded)."""
    out = {}

    def lines_of(code):
        ls = set(l for _, _, l in code.co_lines() if l is not None and l != code.co_firstlineno)
        for c in code.co_consts:
            if hasattr(c, "co_lines"):
                ls |= lines_of(c)
        return ls
    for name, fn in Simplifier.__dict__.items():
        if name.startswith("walk_") and name != "walk_debug" and hasattr(fn, "__code__"):
            out[name] = sorted(lines_of(fn.__code__))
    return out


ORDERED = (op.AND, op.OR, op.TIMES, op.FORALL, op.EXISTS)


def impl_simplify(env, f, cov=None):
    """(result or None, exception name or None, order records)."""
    s = Simplifier(env)
    records = []
    for nt in ORDERED:
        orig = s.functions[nt]

        def w(formula, args, orig=orig, nt=nt, **kw):
            r = orig(formula, args=args, **kw)
            if r.node_type() == nt:
                records.append((formula, list(args), r))
            return r
        s.functions[nt] = w
    try:
        if cov is not None:
            with cov:
                r = s.simplify(f)
        else:
            r = s.simplify(f)
        return r, None, records
    except Exception as ex:  # noqa: the model predicts where the code raises (RecursionError included)
        return None, type(ex).__name__, records


def case_row(f, r, records):
    roots = [f] + ([r] if r is not None else [])
    for frm, args, res in records:
        roots += args + [res]

    def body(names):
        tbl = "; ".join("(%s, [%s], %s)" % (opr(frm), "; ".join(names[a] for a in args), names[res])
                        for frm, args, res in records)
        return "(%s, [%s], %s)" % (names[f], tbl, "Some %s" % names[r] if r is not None else "None")
    return emit(roots, body)


# ----------------------------------------------------------------------------------------------
# Property-level oracle (independent of the model)
# ----------------------------------------------------------------------------------------------

def fun_names(f):
    return set(n.function_name() for n in tocoq.topo([f]) if n.node_type() == op.FUNCTION)


class Problem(object):
    def __init__(self, kind, what, interp=None):
        self.kind, self.what, self.interp = kind, what, interp


def formula_constants(nodes):
    """constants occurring in the given formulas / values: {"int": set, "real": set, "str": set, "bv": {width: set}}"""
    cs = {"int": set(), "real": set(), "str": set(), "bv": {}}
    for n in tocoq.topo(list(nodes)):
        nt = n.node_type()
        if nt == op.INT_CONSTANT:
            cs["int"].add(n.constant_value())
        elif nt == op.REAL_CONSTANT:
            cs["real"].add(Fraction(n.constant_value()))
        elif nt == op.STR_CONSTANT:
            cs["str"].add(n.constant_value())
        elif nt == op.BV_CONSTANT:
            cs["bv"].setdefault(n.bv_width(), set()).add(n.constant_value())
    return cs


def boundary_values(t, cs, rnd, small_bits=4):
    """refeval values of sort t at which a rewrite that is right 'almost everywhere' goes wrong: for Bool and BV(w <= 4)
    EVERY value; else 0, +-1, all-ones, min / max signed, 2^(w-1), and c-1, c, c+1 for every constant c of the sort
    in the formula; None for sorts without a boundary notion here (arrays, user sorts)."""
    if t.is_bool_type():
        return [False, True]
    if t.is_bv_type():
        w = t.width
        mx = (1 << w) - 1
        if w <= small_bits:
            return [refeval.BV(w, v) for v in range(mx + 1)]
        vs = [0, 1, mx, mx - 1, 1 << (w - 1), (1 << (w - 1)) - 1, (1 << (w - 1)) + 1]
        for c in sorted(cs["bv"].get(w, ())):
            vs += [(c - 1) & mx, c, (c + 1) & mx]
        for c in sorted(cs["int"]):              # shift amounts / rotation counts written as Int
            if 0 <= c <= mx:
                vs.append(c)
        out = []
        for v in vs:
            if v not in out:
                out.append(v)
        return [refeval.BV(w, v) for v in out[:24]]
    if t.is_int_type():
        vs = [0, 1, -1, 2, -2]
        for c in sorted(cs["int"], key=abs)[:8]:
            vs += [c - 1, c, c + 1]
        for s_ in sorted(cs["str"], key=len)[:4]:
            vs += [len(s_) - 1, len(s_), len(s_) + 1]
        out = []
        for v in vs:
            if v not in out:
                out.append(v)
        return out[:24]
    if t.is_real_type():
        vs = [Fraction(0), Fraction(1), Fraction(-1), Fraction(1, 2)]
        for c in sorted(cs["real"], key=abs)[:6]:
            vs += [c - 1, c, c + 1]
        for c in sorted(cs["int"], key=abs)[:4]:
            vs += [Fraction(c)]
        out = []
        for v in vs:
            if v not in out:
                out.append(v)
        return out[:20]
    if t.is_string_type():
        vs = ["", "0", "a"]
        for c in sorted(cs["str"], key=len)[:6]:
            vs += [c, c + "0", c[1:], c[:-1]]
        out = []
        for v in vs:
            if v not in out:
                out.append(v)
        return out[:16]
    return None


def boundary_assignments(symbols, cs, rnd, interp, full_limit, limit):
    """[{symbol: value}]: every combination of the boundary values when there are at most `full_limit` of them, else
    `limit` assignments: the 'uniform' combinations (the k-th boundary value for every symbol) and random ones;
    symbols of sorts without boundary values get random values."""
    symbols = sorted(symbols, key=lambda s_: s_.symbol_name())
    cand = {}
    for s_ in symbols:
        vs = boundary_values(s_.symbol_type(), cs, rnd)
        if vs is None:
            vs = [refeval.random_value(rnd, s_.symbol_type(), interp) for _ in range(3)]
        cand[s_] = vs
    total = 1
    for s_ in symbols:
        total *= len(cand[s_])
    if total <= full_limit:
        return [dict(zip(symbols, combo)) for combo in itertools.product(*[cand[s_] for s_ in symbols])]
    out = []
    for k in range(max(len(v) for v in cand.values())):
        if len(out) >= limit // 2:
            break
        out.append(dict((s_, cand[s_][k % len(cand[s_])]) for s_ in symbols))
    while len(out) < limit:
        out.append(dict((s_, rnd.choice(cand[s_])) for s_ in symbols))
    return out


def semantic_problem(f, r, exc, rnd, ninterp, stats=None, nboundary=4):
    """None, or a Problem: the implementation's result r (or exception) breaks the property on f."""
    try:
        tf = refeval.type_of(f)
    except refeval.RefEvalError:
        if stats is not None:
            stats["input_not_typable_by_oracle"] = stats.get("input_not_typable_by_oracle", 0) + 1
        return None
    if r is None:
        return Problem("raises", "simplify raises %s on a well-typed formula" % exc)
    try:
        tr = refeval.type_of(r)
    except refeval.RefEvalError as ex:
        return Problem("ill-typed-result", "simplify returns an ill-typed formula: %s" % ex)
    if tr != tf:
        return Problem("type-change", "type of the formula is %s, type of simplify(f) is %s" % (tf, tr))
    new = (refeval.free_symbols([r]) - refeval.free_symbols([f])) | (fun_names(r) - fun_names(f))
    if new:
        return Problem("new-symbol", "simplify(f) mentions %s which is not free in f" % sorted(str(x) for x in new))
    if r is f:
        return None
    closed = not refeval.free_symbols([f]) and not fun_names(f)
    cache = refeval.EvalCache()
    interps = []
    for k in range(1 if closed else ninterp):
        interps.append(refeval.random_interp(rnd, [f, r], int_range=rnd.choice([(-8, 8), (-3, 3), (-40, 40)])))
    if not closed and nboundary:
        # boundary interpretations: every value of the symbols when they are Bool / BV of at most 4 bits and there are
        # at most 32 combinations, else 0 / +-1 / all-ones / min, max signed / neighbours of the formula's constants
        syms = [s_ for s_ in f.get_free_variables() if not s_.symbol_type().is_function_type()]
        if syms:
            base = interps[0]
            quantified = any(n.is_quantifier() or n.is_function_application() for n in tocoq.topo([f]))
            for asg in boundary_assignments(syms, formula_constants([f]), rnd, base, 0 if quantified else 32, 1 if quantified else nboundary):
                interps.append(refeval.interp_updated(base, asg))
            if stats is not None:
                stats["boundary_interpretations"] = stats.get("boundary_interpretations", 0) + len(interps) - ninterp
    for it in interps:
        try:
            vf, ef = refeval.evaluate_ex(f, it, cache)
        except refeval.DivisionByZeroEvaluated:
            if stats is not None:
                stats["interp_skipped_div0"] = stats.get("interp_skipped_div0", 0) + 1
            continue
        except refeval.RefEvalError:
            if stats is not None:
                stats["oracle_unsupported"] = stats.get("oracle_unsupported", 0) + 1
            return None
        try:
            vr, er = refeval.evaluate_ex(r, it, cache)
        except refeval.DivisionByZeroEvaluated:
            return Problem("div0-introduced", "simplify(f) evaluates a division by zero under an interpretation "
                           "where f does not", it)
        except refeval.RefEvalError:
            if stats is not None:
                stats["oracle_unsupported"] = stats.get("oracle_unsupported", 0) + 1
            return None
        if stats is not None:
            stats["evaluations"] = stats.get("evaluations", 0) + 1
        if not (ef and er):
            if stats is not None:
                stats["inexact_skipped"] = stats.get("inexact_skipped", 0) + 1
            continue
        if type(vf) is not type(vr) or vf != vr:
            return Problem("value", "value of f is %s, value of simplify(f) is %s" % (srepr(vf), srepr(vr)), it)
    return None


def minimise(env, f, rnd):
    """Smallest sub-formula (children first) on which the property already fails; its children
    replaced by their simplified forms when that still fails."""
    mgr = env.formula_manager
    for s in tocoq.topo([f]):
        if not s.args():
            continue
        r, exc, _ = impl_simplify(env, s)
        p = semantic_problem(s, r, exc, rnd, 12)
        if p is None:
            continue
        try:
            kids = []
            for c in s.args():
                rc, ec, _ = impl_simplify(env, c)
                kids.append(rc if rc is not None else c)
            s2 = mgr.create_node(s.node_type(), tuple(kids), s._content.payload)
            if s2 is not s:
                r2, exc2, _ = impl_simplify(env, s2)
                p2 = semantic_problem(s2, r2, exc2, rnd, 12)
                if p2 is not None:
                    return s2, r2, exc2, p2
        except Exception:  # noqa
            pass
        return s, r, exc, p
    return None


def srepr(v):
    try:
        return repr(v)[:400]
    except ValueError:
        return "<value with more than 4300 digits>"


def ser(f, limit=2000):
    """serialize() that survives ints beyond Python's str() digit limit"""
    try:
        return f.serialize()[:limit].encode("ascii", "backslashreplace").decode("ascii")
    except ValueError:
        return "<formula with an integer constant of more than 4300 digits; see repro>"


def arg_kind(c):
    nt = c.node_type()
    if nt == op.INT_CONSTANT:
        return "int"
    if nt == op.REAL_CONSTANT:
        return "real"
    if nt == op.BV_CONSTANT:
        return "bv"
    if nt == op.STR_CONSTANT:
        return "str"
    if nt == op.BOOL_CONSTANT:
        return "bool"
    if nt == op.ARRAY_VALUE:
        return "arrayconst" if c.is_constant() else "arrayvalue"
    if nt == op.SYMBOL:
        return "sym"
    return op.op_to_str(nt).lower()


def detail(s):
    """Discriminator of the known defect classes (so that a different failure of the same rule is
    not hidden by a known finding)."""
    nt = s.node_type()
    a = s.args()
    try:
        if nt == op.STR_TO_INT and a[0].is_string_constant():
            v = a[0].constant_value()
            st = v.strip()
            if len([c for c in st if c.isdigit()]) > 4300:
                return "more-than-4300-digits"
            if st != v:
                return "surrounding-whitespace"
            if st[:1] in "+-" and len(st) > 1:
                return "sign"
            if "_" in st:
                return "underscore"
        if nt == op.INT_TO_STR and a[0].is_int_constant() and a[0].constant_value() >= 10 ** 4300:
            return "more-than-4300-digits"
        if nt == op.STR_INDEXOF and a[2].is_int_constant() and a[2].constant_value() < 0:
            return "negative-start"
        if nt == op.STR_CHARAT and a[1].is_int_constant() and a[1].constant_value() < 0:
            return "negative-index"
        if nt == op.STR_SUBSTR and a[1].is_int_constant() and a[2].is_int_constant():
            i, n = a[1].constant_value(), a[2].constant_value()
            if i < 0:
                return "negative-start"
            if i + n < 0:
                return "negative-end"
        if nt == op.EQUALS and a[0].is_array_value() and a[1].is_array_value():
            def finite_inner(x):
                return any(e.is_array_value() and (e.array_value_index_type().is_bv_type() or e.array_value_index_type().is_bool_type())
                           for e in x.args())
            if finite_inner(a[0]) or finite_inner(a[1]):
                return "elements-are-arrays-over-a-finite-index-sort"
        if nt == op.POW and a[1].is_constant():
            return "negative-exponent" if a[1].constant_value() < 0 else "nonnegative-exponent"
    except Exception:  # noqa
        pass
    return ""


def finding_key(s, p):
    d = detail(s)
    return "%s(%s):%s%s" % (op.op_to_str(s.node_type()), ",".join(arg_kind(c) for c in s.args()), p.kind,
                            (":" + d) if d else "")


def rebuild_text(f):
    """How to rebuild the formula: SMT-LIB-ish serialization + a python expression over create_node."""
    lines, names = [], {}
    for i, n in enumerate(tocoq.topo([f])):
        names[n] = "n%d" % i
        nt = n.node_type()
        if nt == op.SYMBOL:
            lines.append("n%d = m.Symbol(%r, %s)" % (i, n.symbol_name(), type_text(n.symbol_type())))
        elif nt == op.INT_CONSTANT:
            lines.append("n%d = m.Int(%s)" % (i, hex(n.constant_value())))
        elif nt == op.REAL_CONSTANT:
            v = Fraction(n.constant_value())
            lines.append("n%d = m.Real(Fraction(%d, %d))" % (i, v.numerator, v.denominator))
        elif nt == op.BOOL_CONSTANT:
            lines.append("n%d = m.Bool(%r)" % (i, bool(n.constant_value())))
        elif nt == op.STR_CONSTANT:
            lines.append("n%d = m.String(%r)" % (i, n.constant_value()))
        elif nt == op.BV_CONSTANT:
            lines.append("n%d = m.BV(%d, %d)" % (i, n._content.payload[0], n._content.payload[1]))
        elif nt in (op.FORALL, op.EXISTS):
            vs = ", ".join("m.Symbol(%r, %s)" % (v.symbol_name(), type_text(v.symbol_type())) for v in n.quantifier_vars())
            lines.append("n%d = m.create_node(%d, (%s,), (%s,))  # %s" % (i, nt, names[n.arg(0)], vs, op.op_to_str(nt)))
        elif nt == op.FUNCTION:
            fn = n.function_name()
            lines.append("n%d = m.Function(m.Symbol(%r, %s), [%s])" % (i, fn.symbol_name(), type_text(fn.symbol_type()),
                                                                     ", ".join(names[c] for c in n.args())))
        elif nt == op.ARRAY_VALUE:
            a = n.args()
            lines.append("n%d = m.Array(%s, %s, {%s})" % (i, type_text(n.array_value_index_type()), names[a[0]],
                                                          ", ".join("%s: %s" % (names[k], names[v]) for k, v in zip(a[1::2], a[2::2]))))
        else:
            lines.append("n%d = m.create_node(%d, (%s,), %r)  # %s" % (i, nt, ", ".join(names[c] for c in n.args()),
                                                                     n._content.payload, op.op_to_str(nt)))
    lines.append("f = %s" % names[f])
    return "\n".join(lines)


def type_text(t):
    if t.is_bool_type():
        return "BOOL"
    if t.is_int_type():
        return "INT"
    if t.is_real_type():
        return "REAL"
    if t.is_string_type():
        return "STRING"
    if t.is_bv_type():
        return "BVType(%d)" % t.width
    if t.is_array_type():
        return "ArrayType(%s, %s)" % (type_text(t.index_type), type_text(t.elem_type))
    if t.is_function_type():
        return "FunctionType(%s, [%s])" % (type_text(t.return_type), ", ".join(type_text(p) for p in t.param_types))
    return "env.type_manager.Type(%r, 0)" % t.basename


REPLAY_HEADER = ("from fractions import Fraction\nfrom pysmt.environment import Environment, push_env\n"
                 "from pysmt.typing import *\nenv = Environment(); push_env(env); m = env.formula_manager\n")


FIRST = {}


def report(chk, env, f, r, exc, p, rnd, stream):
    mini = None
    try:
        mini = minimise(env, f, rnd)
    except Exception:  # noqa
        mini = None
    if mini is not None:
        s, rs, excs, ps = mini
    else:
        s, rs, excs, ps = f, r, exc, p
    key = finding_key(s, ps)
    FIRST.setdefault(key, {"minimal_formula": ser(s, 300), "observed": ("raises %s" % excs) if rs is None else ser(rs, 300),
                           "what": ps.what[:300]})
    chk.violation({"kind": "input", "stream": stream, "what": ps.what,
                   "minimal_formula": ser(s),
                   "observed": ("raises %s" % excs) if rs is None else ser(rs),
                   "expected": "a formula of the same type, over the free symbols of the input, with the same value "
                               "under every interpretation",
                   "interpretation": ps.interp.describe() if ps.interp is not None and hasattr(ps.interp, "describe") else None,
                   "oracle": "harness/refeval.py",
                   "repro": REPLAY_HEADER + rebuild_text(s) + "\nprint(f.simplify())",
                   "found_in": ser(f, 1500)}, key=key)
    return key


# ----------------------------------------------------------------------------------------------
# Directed per-operator stream
# ----------------------------------------------------------------------------------------------

INT_CONSTS = [0, 1, -1, 2, -2, 3, 7, -7, 10, 2 ** 70, -(2 ** 70) - 1, 10 ** 17 + 1]
REAL_CONSTS = [Fraction(0), Fraction(1), Fraction(-1), Fraction(1, 2), Fraction(-3, 4), Fraction(5, 3), Fraction(2),
               Fraction(10 ** 20 + 1, 7)]
STR_CONSTS = ["", "a", "ab", "abc", "ba", "aa", "abcabc", "0", "12", "-5", " 12", "12 ", "007", "1_0", "+5", "_1",
              "1__0", "\t3\n", "\xa07", "9" * 25, "x y", "-", "1 2", "- 5"]
STR_IDX = [0, 1, 2, 3, 4, 6, 7, -1, -2, -3, -7, 100, -100, 2 ** 70]
# strings on which Python's str builtins (isdigit / isdecimal / int / str.strip / len on UTF-16 platforms) and the
# SMT-LIB 2.6 theory (digits are U+0030..U+0039 only; a string is a sequence of code points) can disagree
STR_HAZARD = [
    "", "0", "7", "00", "007", "42", "+1", "-1", " 1", "1 ", "1_0", "0x10", "1e3", "\n1", "1a",
    "\u0663", "\u0661\u0662",                  # ARABIC-INDIC digits (category Nd)
    "\u06f4\u06f2",                            # EXTENDED ARABIC-INDIC digits
    "\uff11\uff12", "\uff10",                  # FULLWIDTH digits
    "\u096a\u0968",                            # DEVANAGARI digits
    "\u0e53", "\u1811",                        # THAI, MONGOLIAN digits
    "1\u0663", "\u06634", "0\uff11",           # ASCII and non-ASCII digits mixed
    "\U0001d7d7", "\U0001d7ce\U0001d7cf",      # MATHEMATICAL digits (beyond the BMP, category Nd)
    "\u00b2", "\u2460", "\u2075", "\u00b9\u00b2",   # superscripts / circled: isdigit() but int() raises
    "\u00bd", "\u216b", "\u4e09", "\u3007",    # numeric but neither digit nor decimal
    "\u20031", "1\u2003", "\x1f1", "\x851", "\ufeff1",   # Unicode spaces / separators around a digit
    "\u2212" + "1", "\uff0b1",                  # MINUS SIGN, FULLWIDTH PLUS
    "\xe9", "\xdf", "\u0130", "\u01c5", "\ufb01",     # case-folding oddities (length changes under upper/casefold)
    "e\u0301",                                  # combining sequence
    "\U00010000", "a\U0001f600b", "\U0002ffff", "\U0001f600\U0001f600",   # beyond the BMP: one code point each
    "\ud7ff", "\ud800", "\udbff", "\udc00", "\udfff", "\ue000", "\ud800\udc00", "x\udc00\ud800y",   # around the surrogates
    "\x00", "\x000", "\uffff",
]


class Directed(object):
    def __init__(self, env, rnd, tier):
        self.env, self.rnd, self.tier = env, rnd, tier
        self.m = env.formula_manager
        m = self.m
        self.p, self.q, self.b3 = m.Symbol("p", BOOL), m.Symbol("q", BOOL), m.Symbol("b3", BOOL)
        self.i, self.j = m.Symbol("i", INT), m.Symbol("j", INT)
        self.r, self.s = m.Symbol("r", REAL), m.Symbol("s", REAL)
        self.sx, self.sy = m.Symbol("sx", STRING), m.Symbol("sy", STRING)
        self.cap = 60 if tier == "quick" else 400

    def pick(self, items, cap=None):
        items = list(items)
        cap = cap or self.cap
        if len(items) <= cap:
            return items
        return self.rnd.sample(items, cap)

    # ---- shapes ------------------------------------------------------------------------------
    def bools(self):
        m, p, q = self.m, self.p, self.q
        return [m.TRUE(), m.FALSE(), p, q, m.Not(p), m.Not(q), m.And(p, q), m.Or(p, q), m.And(p, m.Not(q)),
                m.Or(m.Not(p), q), m.LE(self.i, self.j), m.Ite(m.TRUE(), p, q), m.Not(m.And(p, q)),
                m.And(q, p), m.Iff(p, q)]

    def nums(self, t):
        m = self.m
        if t.is_int_type():
            x, y = self.i, self.j
            cs = [m.Int(v) for v in INT_CONSTS]
            two, mtwo, mone = m.Int(2), m.Int(-2), m.Int(-1)
        else:
            x, y = self.r, self.s
            cs = [m.Real(v) for v in REAL_CONSTS]
            two, mtwo, mone = m.Real(2), m.Real(-2), m.Real(-1)
        comp = [x, y, m.Plus(x, y), m.Plus(x, cs[1]), m.Minus(x, y), m.Minus(x, cs[1]), m.Times(x, two), m.Times(x, mtwo),
                m.Times(x, mone), m.Times(two, x), m.Times(x, y), m.Ite(self.p, x, y), m.Ite(m.TRUE(), cs[3], x),
                m.Ite(m.FALSE(), x, cs[0]), m.Div(x, y), m.Div(x, two), m.Minus(m.Plus(x, y), m.Plus(y, cs[2])),
                m.Times(m.Plus(x, y), mtwo), m.Plus(m.Times(x, mtwo), m.Times(y, m.Times(two, mone)))]
        if t.is_real_type():
            comp += [m.ToReal(self.i), m.ToReal(m.Plus(self.i, m.Int(1))), m.Pow(x, m.Real(2))]
        else:
            comp += [m.BVToNatural(m.Symbol("bv8", BVType(8))), m.StrLength(self.sx)]
        return cs, comp

    def bv_consts(self, w):
        mx = (1 << w) - 1
        vals = [0, 1 & mx, mx, 1 << (w - 1), ((1 << (w - 1)) - 1) & mx, w & mx, (w - 1) & mx, (w + 1) & mx,
                self.rnd.randint(0, mx), self.rnd.randint(0, mx)]
        out = []
        for v in vals:
            if v not in out:
                out.append(v)
        return [self.m.BV(v, w) for v in out]

    def bv_comps(self, w):
        m = self.m
        x, y = m.Symbol("x%d" % w, BVType(w)), m.Symbol("y%d" % w, BVType(w))
        g = m.Symbol("g%d" % w, FunctionType(BVType(w), [BVType(w)]))
        arr = m.Symbol("abv%d" % w, ArrayType(INT, BVType(w)))
        c = m.BV(1, w)
        return [x, y, m.BVAdd(x, y), m.Ite(self.p, x, y), m.Ite(m.TRUE(), c, x), m.Function(g, [x]),
                m.Select(arr, self.i), m.BVNot(x), m.Ite(self.p, m.Select(arr, self.i), x)]

    # ---- streams -----------------------------------------------------------------------------
    def gen_bool(self):
        m = self.m
        B = self.bools()
        out = []
        for a in B:
            out.append(m.Not(a))
        for a, b in self.pick(itertools.product(B, B), 3 * self.cap):
            out += [m.And(a, b), m.Or(a, b)]
        for a, b in self.pick(itertools.product(B, B), 2 * self.cap):
            out += [m.Implies(a, b), m.Iff(a, b)]
        for a, b, c in self.pick(itertools.product(B, B, B), 3 * self.cap):
            out += [m.And(a, b, c), m.Or(a, b, c)]
        T_, F_ = m.TRUE(), m.FALSE()
        out += [m.And(T_, T_, T_), m.Or(F_, F_, F_), m.And(T_, T_, T_, T_), m.Or(F_, F_, F_, F_), m.And(T_, T_), m.Or(F_, F_),
                m.And(T_, F_, T_), m.Or(F_, T_, F_)]
        for n in (0, 1, 4, 5):
            for _ in range(6):
                args = [self.rnd.choice(B) for _ in range(n)]
                out += [m.And(args), m.Or(args)]
        for c, a, b in self.pick(itertools.product(B, B, B), 2 * self.cap):
            out.append(m.Ite(c, a, b))
        return out

    def gen_arith(self, t):
        m = self.m
        cs, comp = self.nums(t)
        S = cs + comp
        out = []
        for a, b in self.pick(itertools.product(S, S), 4 * self.cap):
            out += [m.Plus(a, b), m.Minus(a, b), m.Times(a, b)]
        for a, b in self.pick(itertools.product(S, S), 3 * self.cap):
            out += [m.LE(a, b), m.LT(a, b), m.Equals(a, b), m.Div(a, b)]
        for a, b, c in self.pick(itertools.product(S, S, S), 3 * self.cap):
            out += [m.Plus(a, b, c), m.Times(a, b, c)]
        for _ in range(self.cap):
            n = self.rnd.randint(4, 6)
            out.append(m.Plus([self.rnd.choice(S) for _ in range(n)]))
            out.append(m.Times([self.rnd.choice(S) for _ in range(n)]))
        for c in self.bools()[:6]:
            for a, b in self.pick(itertools.product(S, S), 8):
                out.append(m.Ite(c, a, b))
        # Pow: the constructor folds constant bases; a base that SIMPLIFIES to a constant reaches walk_pow
        exps = [0, 1, 2, 3, -1, -2, 5]
        for a in S:
            bases = [a] if not a.is_constant() else []
            bases.append(m.Ite(m.TRUE(), a, comp[0]))
            for base in bases:
                for e in (exps if self.tier != "quick" else self.rnd.sample(exps, 3)):
                    out.append(m.Pow(base, m.Int(e) if t.is_int_type() else m.Real(e)))
        if t.is_int_type():
            for a in S:
                out.append(m.ToReal(a))
            # Int division goes through C doubles
            big = [2 ** 53 + 1, 2 ** 53 + 3, 10 ** 17 + 1, 2 ** 62 - 1, 3 * 2 ** 60 + 1, 2 ** 100 + 12345, -(2 ** 53) - 1,
                   10 ** 30, 2 ** 1023, 2 ** 1024 - 1, 2 ** 1024, -(2 ** 1024), 10 ** 400, 6, -6, 7, -7, 0, 1]
            dens = [1, -1, 2, 3, -3, 7, 10, 2 ** 53 + 1, 2 ** 60, 10 ** 20, -(10 ** 20), 2 ** 1024, 10 ** 400 + 1]
            for a, b in self.pick(itertools.product(big, dens), 3 * self.cap):
                out.append(m.Div(m.Int(a), m.Int(b)))
                out.append(m.Div(m.Ite(m.TRUE(), m.Int(a), self.i), m.Int(b)))
        return out

    def gen_bv_exhaustive(self, widths):
        """every operator on every pair of constants"""
        m = self.m
        bi = [m.BVAnd, m.BVOr, m.BVXor, m.BVAdd, m.BVSub, m.BVMul, m.BVUDiv, m.BVURem, m.BVLShl, m.BVLShr, m.BVAShr,
              m.BVSDiv, m.BVSRem, m.BVConcat, m.BVComp, m.BVULT, m.BVULE, m.BVSLT, m.BVSLE]
        out = []
        for w in widths:
            cs = [m.BV(v, w) for v in range(1 << w)]
            for a in cs:
                out += [m.BVNot(a), m.BVNeg(a), m.BVToNatural(a)]
                for k in range(0, w + 1):
                    out += [m.BVRol(a, k), m.BVRor(a, k)]
                for k in range(0, 3):
                    out += [m.BVZExt(a, k), m.BVSExt(a, k)]
                for st in range(w):
                    for en in range(st, w):
                        out.append(m.BVExtract(a, st, en))
                for b in cs:
                    for f in bi:
                        out.append(f(a, b))
        return out

    def gen_bv_shapes(self, w):
        m = self.m
        cs = self.bv_consts(w)
        S = cs + self.bv_comps(w)
        bi = [m.BVAnd, m.BVOr, m.BVXor, m.BVAdd, m.BVSub, m.BVMul, m.BVUDiv, m.BVURem, m.BVLShl, m.BVLShr, m.BVAShr,
              m.BVSDiv, m.BVSRem, m.BVConcat, m.BVComp, m.BVULT, m.BVULE, m.BVSLT, m.BVSLE, m.Equals]
        out = []
        cap = max(12, self.cap // 3)
        for f in bi:
            for a, b in self.pick(itertools.product(S, S), cap):
                out.append(f(a, b))
        for a in S:
            out += [m.BVNot(a), m.BVNeg(a), m.BVToNatural(a)]
            for k in set([0, 1, w - 1, w, self.rnd.randint(0, w)]):
                out += [m.BVRol(a, k), m.BVRor(a, k)]
            for k in (0, 1, 3):
                out += [m.BVZExt(a, k), m.BVSExt(a, k)]
            for _ in range(3):
                st = self.rnd.randint(0, w - 1)
                out.append(m.BVExtract(a, st, self.rnd.randint(st, w - 1)))
            out.append(m.BVExtract(a, 0, w - 1))
            out.append(m.Ite(self.p, a, S[0]))
        return out

    def gen_strings(self):
        m = self.m
        cs = [m.String(v) for v in STR_CONSTS]
        comp = [self.sx, self.sy, m.StrConcat(self.sx, self.sy), m.Ite(m.TRUE(), m.String("ab"), self.sx),
                m.Ite(self.p, self.sx, self.sy), m.IntToStr(self.i)]
        S = cs + comp
        idx = [m.Int(v) for v in STR_IDX] + [self.i, m.Plus(self.i, m.Int(1)), m.Ite(m.TRUE(), m.Int(-2), self.i)]
        short = [m.String(v) for v in ["", "a", "ab", "abc", "abcabc", "ba", "b", "c", "bc"]] + [self.sx]
        out = []
        for a in S:
            out += [m.StrLength(a), m.StrToInt(a)]
        for v in INT_CONSTS + [12345678901234567890, 10 ** 4299, 10 ** 4300 - 1, 10 ** 4300, -(10 ** 4300)]:
            out.append(m.IntToStr(m.Int(v)))
        out += [m.IntToStr(self.i), m.IntToStr(m.Plus(self.i, self.i))]
        for dg in (4299, 4300, 4301):
            out.append(m.StrToInt(m.String("7" * dg)))
            out.append(m.StrToInt(m.String("0" * dg + "1")))
        out.append(m.StrToInt(m.String("1_" * 40 + "1")))
        out.append(m.StrToInt(m.String(" " * 10 + "-" + "3" * 4300 + " ")))
        for a, b in self.pick(itertools.product(S, S), 3 * self.cap):
            out += [m.StrConcat(a, b), m.StrContains(a, b), m.StrPrefixOf(a, b), m.StrSuffixOf(a, b), m.Equals(a, b)]
        for a, b, c in self.pick(itertools.product(S, S, S), self.cap):
            out.append(m.StrConcat(a, b, c))
        for a, i in self.pick(itertools.product(short, idx), 3 * self.cap):
            out.append(m.StrCharAt(a, i))
        for a, b, i in self.pick(itertools.product(short, short, idx), 5 * self.cap):
            out.append(m.StrIndexOf(a, b, i))
        for a, i, n in self.pick(itertools.product(short, idx, idx), 5 * self.cap):
            out.append(m.StrSubstr(a, i, n))
        for a, b, c in self.pick(itertools.product(short, short, short), 4 * self.cap):
            out.append(m.StrReplace(a, b, c))
        return out

    def gen_arrays(self):
        m = self.m
        out = []
        A = ArrayType(INT, INT)
        a, b = m.Symbol("a", A), m.Symbol("b", A)
        i, j = self.i, self.j
        c = [m.Int(v) for v in (0, 1, 2, 3, 5)]
        avs = [m.Array(INT, c[0]), m.Array(INT, c[1]), m.Array(INT, c[0], {c[1]: c[2]}), m.Array(INT, c[0], {c[1]: c[3]}),
               m.Array(INT, c[0], {c[1]: c[2], c[2]: c[3], c[3]: c[4]}), m.Array(INT, c[0], {c[1]: c[0]}),
               m.Array(INT, i, {c[1]: c[2]}), m.Array(INT, c[0], {c[1]: i, c[2]: m.Plus(i, c[0])}),
               m.Array(INT, m.Plus(i, c[0]), {c[1]: i}), m.Array(INT, c[0], {c[4]: c[1], c[0]: c[1], c[2]: c[1], c[1]: c[2], c[3]: c[2]})]
        arrs = avs + [a, b, m.Store(a, i, j), m.Store(a, c[1], c[2]), m.Ite(self.p, a, b), m.Ite(m.TRUE(), avs[2], a)]
        idxs = c + [i, j, m.Plus(i, c[1]), m.Ite(m.TRUE(), c[1], i), m.Plus(c[1], c[1])]
        vals = c[:3] + [i, m.Plus(i, c[0]), m.Select(a, i)]
        for x, k in itertools.product(arrs, idxs):
            out.append(m.Select(x, k))
        for x, k, v in self.pick(itertools.product(arrs, idxs, vals), 6 * self.cap):
            out.append(m.Store(x, k, v))
            out.append(m.Select(m.Store(x, k, v), self.rnd.choice(idxs)))
            out.append(m.Store(m.Store(x, k, v), self.rnd.choice(idxs), self.rnd.choice(vals)))
        for x, y in itertools.product(arrs, arrs):
            out.append(m.Equals(x, y))
        # other index sorts: BV, Real, String, Bool-valued elements; nested arrays
        bv2 = BVType(2)
        for it, ks, et, vs in [(bv2, [m.BV(v, 2) for v in range(4)], BOOL, [m.TRUE(), m.FALSE(), self.p]),
                               (bv2, [m.BV(v, 2) for v in range(4)], bv2, [m.BV(0, 2), m.BV(3, 2), m.Symbol("x2", bv2)]),
                               (REAL, [m.Real(v) for v in REAL_CONSTS[:4]], REAL, [m.Real(0), m.Real(1), self.r]),
                               (STRING, [m.String(v) for v in ["", "a", "ab"]], INT, c[:2] + [i])]:
            sym = m.Symbol("arr_%s_%s" % (FormulaGen._tname(it), FormulaGen._tname(et)), ArrayType(it, et))
            for _ in range(self.cap // 2):
                d = self.rnd.choice(vs)
                asg = dict((self.rnd.choice(ks), self.rnd.choice(vs)) for _ in range(self.rnd.randint(0, 3)))
                av = m.Array(it, d, asg)
                k, v = self.rnd.choice(ks), self.rnd.choice(vs)
                out += [av, m.Select(av, k), m.Store(av, k, v), m.Select(m.Store(av, k, v), self.rnd.choice(ks)),
                        m.Equals(av, m.Array(it, self.rnd.choice(vs), {k: v})), m.Equals(av, sym),
                        m.Store(sym, k, v), m.Select(m.Store(sym, k, v), k)]
        # distinct constant array NODES with the same extension (finite index sort), nested under an infinite one
        b1 = BVType(1)
        in1 = m.Array(b1, m.Int(0), {m.BV(0, 1): m.Int(1), m.BV(1, 1): m.Int(1)})
        in2 = m.Array(b1, m.Int(1))
        inb1 = m.Array(BOOL, m.Int(0), {m.TRUE(): m.Int(1), m.FALSE(): m.Int(1)})
        inb2 = m.Array(BOOL, m.Int(1))
        out += [m.Equals(in1, in2), m.Equals(inb1, inb2), m.Equals(m.Array(INT, in1), m.Array(INT, in2)),
                m.Equals(m.Array(INT, inb1), m.Array(INT, inb2)),
                m.Equals(m.Array(INT, in2, {c[1]: in1}), m.Array(INT, in2)),
                m.Equals(m.Array(STRING, in1), m.Array(STRING, in2, {m.String("a"): in1}))]
        AA = ArrayType(INT, A)
        aa = m.Symbol("aa", AA)
        nested = m.Array(INT, avs[0], {c[1]: avs[2], c[2]: a})
        out += [nested, m.Select(nested, c[1]), m.Select(m.Select(nested, c[1]), c[1]), m.Select(nested, c[3]),
                m.Store(nested, c[3], avs[3]), m.Store(nested, c[1], avs[0]), m.Select(m.Select(aa, i), j),
                m.Equals(m.Select(nested, c[1]), avs[2]), m.Equals(m.Select(nested, c[1]), avs[3]),
                m.Equals(nested, m.Array(INT, avs[0])), m.Equals(nested, aa)]
        return out

    def gen_string_hazard(self):
        """every string rule on the hazard pool STR_HAZARD (constants; the rules fold)"""
        m, rnd = self.m, self.rnd
        quick = self.tier == "quick"
        pool = STR_HAZARD
        C = dict((v, m.String(v)) for v in pool)
        one, x_ = m.String("1"), m.String("x")
        out = []
        for v in pool:
            c = C[v]
            n = len(v)
            rest, out_all = [], out
            out_all += [m.StrToInt(c), m.StrLength(c), m.IntToStr(m.StrToInt(c)), m.StrLength(m.IntToStr(m.StrToInt(c))),
                    m.StrToInt(m.StrConcat(c, one)), m.StrToInt(m.StrConcat(one, c)), m.StrToInt(m.StrConcat(c, c)),
                    m.StrLength(m.StrConcat(c, c)), m.Equals(m.StrToInt(c), m.Int(-1)),
                    m.StrToInt(m.StrConcat(self.sx, c)), m.Plus(m.StrToInt(c), self.i),
                    m.Ite(m.LE(m.Int(0), m.StrToInt(c)), m.StrConcat(self.sx, c), self.sx)]
            out = rest          # the other families: all of them in the thorough tier, a sample per string in quick
            for i in sorted(set([0, 1, n - 1, n, -1, n + 1])):
                out.append(m.StrCharAt(c, m.Int(i)))
                out.append(m.StrToInt(m.StrCharAt(c, m.Int(i))))
            for i, k in [(0, 1), (0, n), (1, n), (n - 1, 1), (0, n - 1), (1, 1), (n, 1), (-1, 2), (0, 0), (1, 2 ** 70)]:
                out.append(m.StrSubstr(c, m.Int(i), m.Int(k)))
            pieces = [v[-1:], v[:1], v[1:], v[:-1], "", "1", v + v[:1]]
            for t in pieces:
                ct = m.String(t)
                out += [m.StrContains(c, ct), m.StrPrefixOf(ct, c), m.StrSuffixOf(ct, c), m.StrReplace(c, ct, x_)]
                for i in (0, 1, n, n + 1, -1):
                    out.append(m.StrIndexOf(c, ct, m.Int(i)))
            out += [m.StrReplace(c, m.String(v[-1:]), c), m.StrReplace(x_, x_, c), m.StrLength(m.StrReplace(c, m.String(v[:1]), m.String("")))]
            out = out_all
            out += self.pick(rest, 11) if quick else rest
        for a, b in self.pick(itertools.product(pool, pool), 32 if quick else 1000):
            ca, cb = C[a], C[b]
            out += [m.StrConcat(ca, cb), m.StrLength(m.StrConcat(ca, cb)), m.StrContains(m.StrConcat(ca, cb), cb),
                    m.StrIndexOf(m.StrConcat(ca, cb), cb, m.Int(len(a))), m.StrIndexOf(m.StrConcat(ca, cb), cb, m.Int(0)),
                    m.StrPrefixOf(ca, m.StrConcat(ca, cb)), m.StrSuffixOf(cb, m.StrConcat(ca, cb)),
                    m.StrSuffixOf(ca, cb), m.StrReplace(m.StrConcat(ca, cb), cb, ca), m.Equals(ca, cb),
                    m.StrToInt(m.StrConcat(ca, cb)), m.StrCharAt(m.StrConcat(ca, cb), m.Int(len(a)))]
        for k in [-5, -1, 0, 1, 9, 10, 99, 100, 4300, 12345678901234567890, 10 ** 40, -(10 ** 40)]:
            out += [m.IntToStr(m.Int(k)), m.StrToInt(m.IntToStr(m.Int(k))), m.StrLength(m.IntToStr(m.Int(k))),
                    m.Equals(m.StrToInt(m.IntToStr(m.Plus(self.i, m.Int(k)))), m.Plus(self.i, m.Int(k))),
                    m.StrToInt(m.StrConcat(m.IntToStr(m.Int(k)), m.String("\u0663")))]
        return out

    # index sorts of the array-nesting family: three finite ones, three infinite ones
    NEST_IDX = [BOOL, BVType(1), BVType(2), INT, REAL, STRING]

    def _idx_consts(self, t):
        m = self.m
        if t.is_bool_type():
            return [m.FALSE(), m.TRUE()]
        if t.is_bv_type():
            return [m.BV(v, t.width) for v in range(1 << t.width)]
        if t.is_int_type():
            return [m.Int(0), m.Int(7)]
        if t.is_real_type():
            return [m.Real(0), m.Real(Fraction(1, 3))]
        return [m.String(""), m.String("k")]

    def _nest_values(self, ty):
        """(values, alt): ground values of sort ty in several spellings.  values[0] = D and values[1] = E are the
        constant arrays of 0 and of 1 (all the way down); when alt is true values[2] is ANOTHER SPELLING of E (same
        array, different term): over a finite index sort every index assigned to E (covers the domain, hides the
        default), over any index sort the constant array of another spelling of E's element - so the hidden equality
        propagates to every depth.  Then: one exception at the first / last listed index, every listed index
        assigned, exceptions spelled with the alternative element, constant arrays of further element values."""
        m = self.m
        if not ty.is_array_type():
            return [m.Int(0), m.Int(1)], False
        elems, ealt = self._nest_values(ty.elem_type)
        idxs = self._idx_consts(ty.index_type)
        it = ty.index_type
        finite = it.is_bool_type() or it.is_bv_type()
        d, e = elems[0], elems[1]
        cover = m.Array(it, d, dict((i, e) for i in idxs))
        res = [m.Array(it, d), m.Array(it, e)]
        alts = []
        if ealt:
            e2 = elems[2]
            alts.append(m.Array(it, e2))
            alts.append(m.Array(it, e, {idxs[0]: e2}))
            if finite:
                alts.append(m.Array(it, d, dict((i, (e2 if k % 2 else e)) for k, i in enumerate(idxs))))
        if finite:
            alts.append(cover)
            alts.append(m.Array(it, e, {idxs[-1]: e}))
        alt = bool(alts)
        res += alts
        if not finite:
            res.append(cover)
        res += [m.Array(it, d, {idxs[0]: e}), m.Array(it, d, {idxs[-1]: e}), m.Array(it, e, {idxs[0]: e, idxs[-1]: d})]
        if ealt:
            res += [m.Array(it, d, {idxs[0]: elems[2]}), m.Array(it, d, {idxs[-1]: elems[2]})]
        res += [m.Array(it, x) for x in elems[3:6]]
        seen, out = set(), []
        for r in res:
            if r not in seen:
                seen.add(r)
                out.append(r)
        # out[2] must be a spelling of E different from out[1]
        if alt and (len(out) < 3 or out[2] is out[1]):
            alt = False
        return out, alt

    def gen_array_nest(self):
        """Equalities (and store/select) between ground array values over every chain of index sorts of depth 1..3 and,
        at depth 4, every finite/infinite pattern (thorough tier: every chain): pairs of values that are extensionally
        equal but spelled differently at some level, and pairs that are extensionally different."""
        m, rnd = self.m, self.rnd
        quick = self.tier == "quick"
        I = self.NEST_IDX
        fin, inf = I[:3], I[3:]
        chains = []
        for depth in (1, 2, 3):
            chains += list(itertools.product(I, repeat=depth))
        if quick:
            for pat in itertools.product((0, 1), repeat=4):
                for _ in range(2):
                    chains.append(tuple(rnd.choice(inf if b else fin) for b in pat))
        else:
            chains += list(itertools.product(I, repeat=4))
        it0 = refeval.random_interp(rnd, [m.TRUE()])
        out = []
        self.nest_stats = {"chains": len(chains), "equal_pairs": 0, "different_pairs": 0, "by_depth": {}}
        for ch in chains:
            ty = INT
            for i in reversed(ch):
                ty = ArrayType(i, ty)
            vals, alt = self._nest_values(ty)
            den = [refeval.evaluate(v, it0) for v in vals]
            assert not alt or den[1] == den[2]
            eq = [(a, b) for a in range(len(vals)) for b in range(len(vals)) if a != b and den[a] == den[b]]
            ne = [(a, b) for a in range(len(vals)) for b in range(len(vals)) if a < b and den[a] != den[b]]
            eq = self.pick(eq, 3 if quick else (12 if len(ch) < 4 else 5))
            if alt and (1, 2) not in eq:
                eq[0] = (1, 2)
            ne = self.pick(ne, (2 if len(ch) < 3 else 1) if quick else (10 if len(ch) < 4 else 3))
            self.nest_stats["equal_pairs"] += len(eq)
            self.nest_stats["different_pairs"] += len(ne)
            n0 = len(out)
            for a, b in eq + ne:
                out.append(m.Equals(vals[a], vals[b]))
            ks = self._idx_consts(ty.index_type)
            evs = self._nest_values(ty.elem_type)[0]
            # store / select on the values: a store may complete the coverage of a finite domain
            a = rnd.randrange(len(vals))
            b = rnd.randrange(len(vals))
            k = rnd.choice(ks)
            x = rnd.choice(evs)
            out += [m.Equals(m.Store(vals[a], k, x), vals[b]), m.Equals(m.Select(vals[a], k), m.Select(vals[b], ks[-1])),
                    m.Equals(m.Store(m.Store(vals[0], ks[0], evs[1]), ks[-1], evs[1]), vals[1])]
            self.nest_stats["by_depth"][len(ch)] = self.nest_stats["by_depth"].get(len(ch), 0) + len(out) - n0
        return out

    def gen_boundary(self):
        """symbol x boundary-constant and boundary-constant x symbol for every binary BV operator at widths 1..4 (the
        oracle then runs over EVERY value of the symbol), for the Int / Real operators and for the string operators."""
        m = self.m
        out = []
        for w in (1, 2, 3, 4):
            x, y = m.Symbol("bx%d" % w, BVType(w)), m.Symbol("by%d" % w, BVType(w))
            mx = (1 << w) - 1
            cs = []
            for v in (0, 1, mx, mx - 1, 1 << (w - 1), (1 << (w - 1)) - 1):
                if 0 <= v <= mx and v not in cs:
                    cs.append(v)
            cs = [m.BV(v, w) for v in cs]
            bins = [m.BVAnd, m.BVOr, m.BVXor, m.BVAdd, m.BVSub, m.BVMul, m.BVUDiv, m.BVURem, m.BVLShl, m.BVLShr, m.BVAShr,
                    m.BVSDiv, m.BVSRem, m.BVConcat, m.BVComp, m.BVULT, m.BVULE, m.BVSLT, m.BVSLE, m.Equals]
            rels = [m.BVULT, m.BVULE, m.BVSLT, m.BVSLE, m.Equals]
            one = m.BV(1 & mx, w)
            for b in bins:
                for c in cs:
                    out += [b(x, c), b(c, x)]
            for b in rels:
                for c in cs:
                    out += [b(m.BVAdd(x, one), c), b(c, m.BVAdd(x, one)), b(m.BVNot(x), c), b(m.Ite(self.p, x, c), c),
                            m.Ite(b(x, c), self.i, self.j), m.And(b(x, c), self.p), b(c, m.BVNeg(x))]
            for c in cs:
                out += [m.BVNot(m.BVComp(x, c)), m.BVComp(c, m.BVAdd(x, one))]
            if w > 1:
                for c in cs:
                    out += [m.BVULT(m.BVExtract(m.BVConcat(x, y), 0, w - 1), c), m.BVULT(m.BVZExt(x, 1), m.BVZExt(c, 1))]
        for t in (INT, REAL):
            v = self.i if t.is_int_type() else self.r
            K = (lambda z: m.Int(z)) if t.is_int_type() else (lambda z: m.Real(z))
            for z in (0, 1, -1, 2):
                c = K(z)
                for b in (m.Plus, m.Minus, m.Times, m.Div, m.LE, m.LT, m.Equals):
                    out += [b(v, c), b(c, v), b(m.Plus(v, K(1)), c), b(c, m.Minus(v, K(1)))]
                out += [m.Ite(m.LE(v, c), v, c), m.Ite(m.LT(c, v), c, v)]
        sx, e, a = self.sx, m.String(""), m.String("a")
        for c in (e, a):
            out += [m.StrConcat(sx, c), m.StrConcat(c, sx), m.StrLength(m.StrConcat(c, sx)), m.StrContains(sx, c), m.StrContains(c, sx),
                    m.StrPrefixOf(c, sx), m.StrPrefixOf(sx, c), m.StrSuffixOf(c, sx), m.StrSuffixOf(sx, c), m.StrReplace(sx, c, a),
                    m.StrReplace(c, sx, a), m.StrReplace(sx, a, c), m.Equals(sx, c), m.StrToInt(m.StrConcat(sx, c))]
            for z in (0, 1, -1):
                out += [m.StrIndexOf(sx, c, m.Int(z)), m.StrIndexOf(c, sx, m.Int(z)), m.StrCharAt(sx, m.Int(z)), m.StrCharAt(c, self.i),
                        m.StrSubstr(sx, m.Int(z), m.Int(1)), m.StrSubstr(sx, m.Int(0), m.Int(z)), m.StrSubstr(c, self.i, m.Int(z))]
        return out

    def gen_siblings(self):
        """Both operands of one binary relation are n-ary nodes over the same 2-3 element support: identical, permuted,
        same support with different multiplicities, sub-multiset, one extra operand, an operand replaced by 0 / 1,
        nested against flat spelling; every relation x every n-ary operator (StrConcat: order matters)."""
        m = self.m
        out = []

        def variants(x, y, z, c0, c1, nary, binary):
            """pairs (L, R) of operand LISTS turned into terms by nary (flat) / binary (left-nested)"""
            xxy, xyy, yxx, xyx = [x, x, y], [x, y, y], [y, x, x], [x, y, x]
            pairs = [(xxy, xxy), (xxy, yxx), (xxy, xyx), (xxy, xyy), (xyy, yxx), (xxy, [x, y]), ([x, y], [y, x]), ([x, y], [x, y, z]),
                     ([x, y, z], [z, y, x]), ([x, y, z], [x, y, y]), (xxy, [x, c0, y]), (xxy, [x, c1, y]), ([x, y], [x, c0]), ([x, y], [c1, y])]
            res = []
            for l, r in pairs:
                res.append((nary(l), nary(r)))
            res += [(binary(xxy), nary(xxy)), (binary(xxy), nary(yxx)), (binary(xxy), binary(xyy)), (binary([x, y, z]), binary([z, y, x]))]
            return res

        def lnest(f):
            def g(l):
                t = l[0]
                for a in l[1:]:
                    t = f(t, a)
                return t
            return g
        # Int / Real
        for (x, y, z, K) in ((self.i, self.j, m.Symbol("k", INT), m.Int), (self.r, self.s, m.Symbol("t", REAL), m.Real)):
            for nary in (m.Plus, m.Times):
                for l, r in variants(x, y, z, K(0), K(1), lambda l, nary=nary: nary(l), lnest(lambda a, b, nary=nary: nary(a, b))):
                    out += [m.Equals(l, r), m.LE(l, r), m.LT(l, r), m.Not(m.Equals(l, r))]
        # Bool
        p, q, b3 = self.p, self.q, self.b3
        for nary in (m.And, m.Or):
            for l, r in variants(p, q, b3, m.FALSE(), m.TRUE(), lambda l, nary=nary: nary(l), lnest(lambda a, b, nary=nary: nary(a, b))):
                out += [m.Iff(l, r), m.Implies(l, r), m.Not(m.Iff(l, r))]
        # BV: the operators are binary; n-ary sums are nested
        for w in (2, 3):
            x, y, z = m.Symbol("sx%d" % w, BVType(w)), m.Symbol("sy%d" % w, BVType(w)), m.Symbol("sz%d" % w, BVType(w))
            for f in (m.BVAdd, m.BVMul, m.BVAnd, m.BVOr, m.BVXor):
                vs = variants(x, y, z, m.BV(0, w), m.BV(1, w), lnest(f), lambda l, f=f: f(l[0], lnest(f)(l[1:])) if len(l) > 1 else l[0])
                for l, r in vs:
                    out += [m.Equals(l, r), m.BVULT(l, r), m.BVULE(l, r), m.BVSLT(l, r), m.BVSLE(l, r), m.BVComp(l, r)]
        # strings: concatenation is not commutative
        sx, sy, sz = self.sx, self.sy, m.Symbol("sz", STRING)
        for l, r in variants(sx, sy, sz, m.String(""), m.String("a"), lambda l: m.StrConcat(l), lnest(lambda a, b: m.StrConcat(a, b))):
            out += [m.Equals(l, r), m.StrPrefixOf(l, r), m.StrSuffixOf(l, r), m.StrContains(l, r), m.Equals(m.StrLength(l), m.StrLength(r))]
        return out

    def selfref_bv(self, w, full=True):
        """rel(t, op(t, c)), rel(op(t, c), t), rel(op(t, c1), op(t, c2)): the same sub-term in both operands of a
        relation, once plain and once under an operator with a small constant"""
        m = self.m
        x, y = m.Symbol("rx%d" % w, BVType(w)), m.Symbol("ry%d" % w, BVType(w))
        mx = (1 << w) - 1
        cs = []
        for v in (0, 1, 2, mx, 1 << (w - 1)):
            if 0 <= v <= mx and v not in cs:
                cs.append(v)
        cs = [m.BV(v, w) for v in cs]
        ops = [("add", lambda t, c: m.BVAdd(t, c)), ("add'", lambda t, c: m.BVAdd(c, t)), ("sub", lambda t, c: m.BVSub(t, c)),
               ("mul", lambda t, c: m.BVMul(t, c)), ("shl", lambda t, c: m.BVLShl(t, c)), ("lshr", lambda t, c: m.BVLShr(t, c)),
               ("ashr", lambda t, c: m.BVAShr(t, c)), ("udiv", lambda t, c: m.BVUDiv(t, c)), ("urem", lambda t, c: m.BVURem(t, c)),
               ("and", lambda t, c: m.BVAnd(t, c)), ("or", lambda t, c: m.BVOr(t, c)), ("xor", lambda t, c: m.BVXor(t, c)),
               ("ite", lambda t, c: m.Ite(self.p, t, c))]
        unops = [lambda t: m.BVNeg(t), lambda t: m.BVNot(t)]
        if w > 1:
            unops += [lambda t: m.BVConcat(m.BVExtract(t, 0, w - 2), m.BVExtract(t, w - 1, w - 1)),
                      lambda t: m.BVExtract(m.BVZExt(t, 1), 1, w), lambda t: m.BVExtract(m.BVSExt(t, 1), 0, w - 1)]
        rels = [m.BVULT, m.BVULE, m.BVSLT, m.BVSLE, m.Equals, m.BVComp]
        ts = [x, m.BVAdd(x, y)] if (full and w <= 2) or self.tier != "quick" else [x]
        out = []
        for t in ts:
            for rel in (rels if (full and t is x) or self.tier != "quick" else rels[:1] + rels[4:5]):
                for _, f in (ops if (t is x and full) or self.tier != "quick" else ops[:6] if t is x else ops[:4]):
                    for c in cs:
                        out += [rel(t, f(t, c)), rel(f(t, c), t)]
                for u in unops:
                    out += [rel(t, u(t)), rel(u(t), t)]
                for (c1, c2) in ((cs[0], cs[1 % len(cs)]), (cs[1 % len(cs)], cs[-1]), (cs[1 % len(cs)], cs[2 % len(cs)])):
                    out += [rel(m.BVAdd(t, c1), m.BVAdd(t, c2)), rel(m.BVSub(t, c1), m.BVAdd(t, c2)), rel(m.BVMul(t, c1), m.BVMul(t, c2))]
        return out

    def gen_selfref(self):
        m = self.m
        quick = self.tier == "quick"
        out = []
        for w in (1, 2, 3, 4):
            out += self.selfref_bv(w, full=(w in (2, 4)) or not quick)
        for w in (8, 13):                      # not exhaustive: the boundary interpretations decide
            x = m.Symbol("rx%d" % w, BVType(w))
            mx = (1 << w) - 1
            for c in (m.BV(1, w), m.BV(mx, w), m.BV(1 << (w - 1), w)):
                for f in (m.BVAdd, m.BVSub, m.BVMul, m.BVLShl, m.BVLShr, m.BVUDiv):
                    for rel in ((m.BVULT, m.Equals) if quick else (m.BVULT, m.BVULE, m.BVSLT, m.Equals)):
                        out += [rel(x, f(x, c)), rel(f(x, c), x)]
        for (v, v2, K) in ((self.i, self.j, m.Int), (self.r, self.s, m.Real)):
            for t in ((v,) if quick else (v, m.Plus(v, v2))):
                for cz in (0, 1, -1, 2):
                    c = K(cz)
                    for f in (lambda t, c: m.Plus(t, c), lambda t, c: m.Minus(t, c), lambda t, c: m.Times(t, c), lambda t, c: m.Div(t, c),
                              lambda t, c: m.Minus(c, t), lambda t, c: m.Ite(self.p, t, c)):
                        for rel in (m.LE, m.LT, m.Equals):
                            out += [rel(t, f(t, c)), rel(f(t, c), t)]
                for rel in (m.LE, m.LT, m.Equals):
                    out += [rel(m.Plus(t, K(1)), m.Plus(t, K(2))), rel(m.Times(t, K(2)), m.Plus(t, t)), rel(m.Minus(t, K(1)), m.Plus(t, K(-1)))]
        sx = self.sx
        for c in (m.String(""), m.String("a")):
            for f in (lambda t, c: m.StrConcat(t, c), lambda t, c: m.StrConcat(c, t), lambda t, c: m.StrReplace(t, c, m.String("b")),
                      lambda t, c: m.StrSubstr(t, m.Int(0), m.StrLength(t)), lambda t, c: m.StrSubstr(t, m.Int(1), m.StrLength(t))):
                out += [m.Equals(sx, f(sx, c)), m.StrPrefixOf(sx, f(sx, c)), m.StrPrefixOf(f(sx, c), sx), m.StrSuffixOf(sx, f(sx, c)),
                        m.StrSuffixOf(f(sx, c), sx), m.StrContains(f(sx, c), sx), m.StrContains(sx, f(sx, c)),
                        m.LE(m.StrLength(sx), m.StrLength(f(sx, c))), m.LT(m.StrLength(sx), m.StrLength(f(sx, c)))]
        return out

    SIZES = [0, 1, 2, 7, 8, 9, 10, 15, 16, 17, 31, 32, 33, 64, 100, 257]

    def sized_arrays(self, sizes=None):
        """[(sort name, N, default, [(index const, value const)] in index order, array literal, store chain)]: constant
        array values with N explicit entries (values distinct from the default and from each other) over Int, BV8 / BV16
        and String indices; the index constants are CREATED in a shuffled order, so that the order of their id()s is not
        the order of their values (array values keep their assignments sorted by id)."""
        m, rnd = self.m, self.rnd
        out = []
        for sname in ("Int", "BV", "String"):
            for n in (sizes or self.SIZES):
                if sname == "Int":
                    it, mk = INT, (lambda k: m.Int(3 * k - 40))
                elif sname == "BV":
                    w = 8 if n <= 200 else 16
                    it, mk = BVType(w), (lambda k, w=w: m.BV((7 * k + 3) % (1 << w), w))
                else:
                    it, mk = STRING, (lambda k: m.String("k%d" % k))
                order = list(range(n))
                rnd.shuffle(order)
                ks = {}
                for k in order:                  # creation order = shuffled
                    ks[k] = mk(k)
                d = m.Int(-1)
                pairs = [(ks[k], m.Int(1000 + k)) for k in range(n)]
                lit_order = list(pairs)
                rnd.shuffle(lit_order)
                lit = m.Array(it, d, dict(lit_order))
                # the store chain: all N stores up to 33 entries, above that the literal with its last 3 entries stored
                # (the Coq model re-sorts the array value at every store: a chain of N stores costs N^3)
                if n <= 33:
                    chain = m.Array(it, d)
                    todo = lit_order
                else:
                    chain = m.Array(it, d, dict(lit_order[:-3]))
                    todo = lit_order[-3:]
                for k, v in todo:
                    chain = m.Store(chain, k, v)
                outside = [mk(n), mk(n + 1)] if not (sname == "BV" and n >= 250) else [mk(n)]
                out.append((sname, n, it, d, pairs, lit, chain, outside))
        return out

    def gen_sizes(self):
        """container-size thresholds: constant array values with N explicit entries and n-ary operators with N operands,
        N in SIZES: select at every assigned index (one case per index for N <= 17 and at the id()-extreme / first / last /
        middle / random indices above; one conjunction over ALL indices for every N), at unassigned indices, after stores
        that overwrite the first / middle / last key or add a new smallest / largest key; equality of two arrays that
        differ at exactly one index; both for the literal and for the store chain."""
        m, rnd = self.m, self.rnd
        quick = self.tier == "quick"
        out = []
        for sname, n, it, d, pairs, lit, chain, outside in self.sized_arrays():
            byid = sorted(pairs, key=lambda kv: id(kv[0]))
            nv = m.Int(7)
            if quick and sname != "Int" and n not in (8, 9, 16, 17, 32, 33, 100):
                continue                     # (quick: every size over Int, the threshold neighbourhoods over BV / String)
            if quick and n > 100:
                # the largest size: Int indices only and the essential positions (one array value of 257 entries costs the
                # Coq model about a second per case)
                if sname != "Int":
                    continue
                k1, v1 = byid[-1]
                k0, v0 = byid[0]
                S_ = m.Store(lit, k1, nv)
                out += [m.Equals(m.Select(lit, k1), v1), m.Equals(m.Select(lit, k0), v0), m.Equals(m.Select(lit, pairs[0][0]), pairs[0][1]),
                        m.Equals(m.Select(lit, pairs[-1][0]), pairs[-1][1]), m.Equals(m.Select(lit, outside[0]), d),
                        m.Equals(m.Select(chain, k1), v1), m.Equals(m.Select(S_, k1), nv), m.Equals(m.Select(S_, k0), v0),
                        m.Equals(m.Select(m.Store(lit, outside[0], nv), k1), v1), m.Equals(lit, chain)]
                continue
            every = (n <= 17 and (sname == "Int" or not quick))
            if every:
                pick = pairs
            elif n:
                pick = [byid[-1], byid[0], pairs[0], pairs[-1]] + ([] if quick else [byid[1], byid[-2], pairs[n // 2]] + rnd.sample(pairs, min(5, n)))
            else:
                pick = []
            for k, v in pick:
                out.append(m.Equals(m.Select(lit, k), v))
            if n:
                out.append(m.Equals(m.Select(chain, byid[-1][0]), byid[-1][1]))
            if 0 < n <= 33:
                # (every index at once; the array occurs once per conjunct: kept to the sizes where that is cheap for
                # the tree-shaped Coq terms and the oracle)
                out += [m.And([m.Equals(m.Select(lit, k), v) for k, v in pairs]), m.And([m.Equals(m.Select(chain, k), v) for k, v in pairs])]
                if sname == "Int":
                    out.append(m.Plus([m.Select(lit, k) for k, v in pairs] + [m.Int(0)]))
            elif n:
                extra = rnd.sample(pairs, 6 if quick else 24)
                for k, v in extra:
                    out.append(m.Equals(m.Select(lit, k), v))
            for k in outside[:1 if quick else 2]:
                out += [m.Equals(m.Select(lit, k), d), m.Select(chain, k)]
            pos = ([byid[-1], byid[0], pairs[n // 2]] + ([] if quick else [pairs[0], pairs[-1]])) if n else []
            for k, v in pos:                                     # overwrite an assigned key
                S_ = m.Store(lit, k, nv)
                k2, v2 = byid[-1] if k is not byid[-1][0] else byid[0]
                out += [m.Equals(m.Select(S_, k), nv), m.Equals(m.Store(S_, k, v), lit), m.Equals(m.Select(S_, k2), v2)]
                if not quick:
                    out += [m.Equals(S_, lit), m.Equals(m.Store(lit, k, d), lit), m.Equals(m.Select(m.Store(chain, k, nv), k2), v2)]
            for k in outside[:1 if quick else 2]:                # a new key
                S_ = m.Store(lit, k, nv)
                out.append(m.Equals(m.Select(S_, k), nv))
                if n:
                    out += [m.Equals(m.Select(S_, byid[-1][0]), byid[-1][1]), m.Equals(m.Select(S_, byid[0][0]), byid[0][1])]
            out.append(m.Equals(lit, chain))
            if n:
                for k, v in ((pairs[0], byid[-1]) if quick else (pairs[0], pairs[-1], byid[-1])):
                    other = m.Array(it, d, dict((kk, (m.Int(5) if kk is k else vv)) for kk, vv in pairs))
                    out += [m.Equals(lit, other)] + ([] if quick else [m.Equals(m.Store(other, k, v), chain)])
        # n-ary operators with N operands, a distinguished operand at each end
        p, q, i, j, sx, sy = self.p, self.q, self.i, self.j, self.sx, self.sy
        x8, y8 = m.Symbol("zx8", BVType(8)), m.Symbol("zy8", BVType(8))
        for n in self.SIZES:
            if n < 2:
                continue
            mid = n - 2
            out += [m.And([p] + [m.TRUE()] * mid + [q]), m.And([p] + [m.TRUE()] * mid + [m.FALSE()]), m.Or([p] + [m.FALSE()] * mid + [q]),
                    m.Or([m.TRUE()] + [m.FALSE()] * mid + [q]), m.And([p] + [m.Not(m.Not(q))] * mid + [m.Not(p)]),
                    m.Plus([i] + [m.Int(1)] * mid + [j]), m.Plus([i] + [m.Int(k) for k in range(mid)] + [m.Times(j, m.Int(2))]),
                    m.Times([i] + [m.Int(1)] * mid + [j]), m.Times([i] + [m.Int(1)] * (mid - 1) + [m.Int(0)] * min(mid, 1) + [j]),
                    m.Times([m.Int(2)] + [m.Int(1)] * mid + [m.Int(3)]),
                    m.StrConcat([sx] + [m.String("a")] * mid + [sy]) if n >= 2 else sx,
                    m.StrLength(m.StrConcat([m.String("b")] + [m.String("a")] * mid + [m.String("c")])),
                    m.Equals(m.Plus([i] + [m.Int(1)] * mid + [j]), m.Plus([j] + [m.Int(1)] * mid + [i]))]
            t = x8
            for k in range(mid):
                t = m.BVAdd(t, m.BV(1, 8))
            out += [m.BVAdd(t, y8), m.Equals(t, m.BVAdd(x8, m.BV(mid % 256, 8)))]
            if n <= 33:
                out += [m.AllDifferent([i] + [m.Int(k) for k in range(mid)] + [j]), m.AllDifferent([m.Int(k) for k in range(n)]),
                        m.AllDifferent([m.Int(k) for k in range(n - 1)] + [m.Int(0)])]
        return out

    def gen_uf_quant(self):
        m = self.m
        out = []
        f = m.Symbol("f", FunctionType(INT, [INT]))
        g = m.Symbol("g2", FunctionType(BOOL, [INT, REAL]))
        U = self.env.type_manager.Type("U", 0)
        u, v = m.Symbol("u", U), m.Symbol("v", U)
        k = m.Symbol("k", FunctionType(U, [U]))
        i, j, p, q, r = self.i, self.j, self.p, self.q, self.r
        ints = [i, j, m.Int(0), m.Plus(i, m.Int(0)), m.Ite(m.TRUE(), m.Int(3), i), m.Plus(i, j), m.Function(f, [i])]
        for a in ints:
            out += [m.Function(f, [a]), m.Equals(m.Function(f, [a]), a)]
            for b in (r, m.Real(1), m.Plus(r, m.Real(0)), m.ToReal(a)):
                out.append(m.Function(g, [a, b]))
        out += [m.Function(k, [u]), m.Equals(m.Function(k, [u]), v), m.Equals(u, u), m.Equals(u, v),
                m.Ite(p, u, v), m.Ite(p, u, u), m.Function(k, [m.Ite(m.TRUE(), u, v)])]
        x8 = m.Symbol("x8", BVType(8))
        a = m.Symbol("a", ArrayType(INT, INT))
        bodies = [p, q, m.And(p, q), m.Or(p, m.Not(p)), m.LE(i, j), m.LE(i, m.Int(0)), m.Equals(i, i), m.TRUE(), m.FALSE(),
                  m.Function(g, [i, r]), m.And(p, m.LE(i, j)), m.Equals(m.Select(a, i), j), m.BVULT(x8, m.BV(0, 8)),
                  m.BVULT(x8, m.BV(3, 8)), m.Equals(u, v), m.Implies(p, m.LT(r, m.Real(0))),
                  m.Equals(m.Function(f, [i]), m.Int(0)), m.Iff(p, q)]
        varsets = [[p], [q], [i], [j], [r], [p, q], [q, p], [i, j], [j, i], [i, p, r], [x8], [u], [a], [i, i], [u, v],
                   [r, j, i, q, p], [p, i, q, j, r]]
        for vs, bd in self.pick(itertools.product(varsets, bodies), 8 * self.cap):
            out += [m.ForAll(vs, bd), m.Exists(vs, bd)]
        small = [vs for vs in varsets if len(vs) <= 2]      # nesting multiplies the oracle's enumeration cost
        for vs, bd in self.pick(itertools.product(small, bodies), 2 * self.cap):
            inner = m.Exists(vs, bd)
            vs2 = self.rnd.choice(small)
            out += [m.ForAll(vs2, inner), m.ForAll(vs2, m.And(inner, self.rnd.choice(bodies))),
                    m.Iff(m.ForAll(vs, bd), m.ForAll(list(reversed(vs)), bd)),
                    m.Not(m.ForAll(vs, m.Not(bd)))]
        return out


# ----------------------------------------------------------------------------------------------
# Regression cases: the minimal inputs of the repaired findings must give the standard's value
# ----------------------------------------------------------------------------------------------

def regression_cases(m):
    """(name, formula, expected simplified formula)"""
    I, R, S, T_, F_ = m.Int, m.Real, m.String, m.TRUE(), m.FALSE()
    i, r = m.Symbol("i", INT), m.Symbol("r", REAL)
    def c(x, sym):          # a term that SIMPLIFIES to the constant x
        return m.Ite(T_, x, sym)
    return [
        ("1b75a86 equals-different-constant-arrays", m.Equals(m.Array(INT, I(0)), m.Array(INT, I(1))), F_),
        ("1b75a86 equals-same-constant-arrays", m.Equals(m.Array(INT, I(0), {I(1): I(2)}), m.Array(INT, I(0), {I(1): I(2)})), T_),
        ("9f007e7 equals-constant-arrays-assignment", m.Equals(m.Array(INT, I(0), {I(1): I(2)}), m.Array(INT, I(0))), F_),
        ("392de82 equals-nested-finite-index-arrays",
         m.Equals(m.Array(INT, m.Array(BVType(1), I(0), {m.BV(0, 1): I(1), m.BV(1, 1): I(1)})), m.Array(INT, m.Array(BVType(1), I(1)))),
         T_),        # (left unfolded by 392de82; decided - the two values are the same array - since 358bbeb)
        ("358bbeb equals-finite-index-jointly-covering",
         m.Equals(m.Array(BOOL, I(0), {F_: I(1)}), m.Array(BOOL, I(1), {T_: I(0)})), T_),
        ("358bbeb equals-finite-index-covering-but-one",
         m.Equals(m.Array(BVType(2), I(0), {m.BV(0, 2): I(1), m.BV(1, 2): I(1)}), m.Array(BVType(2), I(1), {m.BV(2, 2): I(0)})), F_),
        ("358bbeb equals-finite-index-different-defaults", m.Equals(m.Array(BOOL, I(0)), m.Array(BOOL, I(1))), F_),
        ("358bbeb equals-nested-arrays-different", m.Equals(m.Array(INT, m.Array(INT, I(0))), m.Array(INT, m.Array(INT, I(1)))), F_),
        ("358bbeb equals-nested-arrays-same-value",
         m.Equals(m.Array(INT, m.Array(BOOL, I(0)), {I(3): m.Array(BOOL, I(1), {T_: I(0), F_: I(0)})}), m.Array(INT, m.Array(BOOL, I(0)))), T_),
        ("b53ca1b div-beyond-2^53", m.Div(c(I(2 ** 70), i), I(3)), I(2 ** 70 // 3)),
        ("b53ca1b div-negative-divisor", m.Div(c(I(2 ** 70 + 1), i), I(-7)), I(-((2 ** 70 + 1) // 7))),
        ("b53ca1b div-negative-dividend", m.Div(c(I(-(2 ** 70) - 1), i), I(7)), I((-(2 ** 70) - 1) // 7)),
        ("b53ca1b div-beyond-double", m.Div(c(I(2 ** 1024), i), I(1)), I(2 ** 1024)),
        ("c3b06aa pow-int-constants-real", m.Pow(c(I(0), i), I(0)), R(1)),
        ("c3b06aa pow-int-negative-exponent", m.Pow(c(I(2), i), I(-1)), R(Fraction(1, 2))),
        ("c3b06aa pow-one-negative-exponent", m.Pow(c(I(1), i), I(-1)), R(1)),
        ("c3b06aa pow-under-plus", m.Plus(m.Pow(c(I(2), i), I(3)), r), m.Plus(r, R(8))),
        ("da819cb str.to_int-sign", m.StrToInt(S("-5")), I(-1)),
        ("da819cb str.to_int-plus", m.StrToInt(S("+5")), I(-1)),
        ("da819cb str.to_int-space", m.StrToInt(S(" 12")), I(-1)),
        ("da819cb str.to_int-underscore", m.StrToInt(S("1_0")), I(-1)),
        ("da819cb str.to_int-empty", m.StrToInt(S("")), I(-1)),
        ("da819cb str.to_int-digits", m.StrToInt(S("007")), I(7)),
        ("08ceb8f str.to_int-4301-digits", m.StrToInt(S("0" * 4301 + "1")), m.StrToInt(S("0" * 4301 + "1"))),
        ("08ceb8f str.from_int-4301-digits", m.IntToStr(I(10 ** 4300)), m.IntToStr(I(10 ** 4300))),
        ("8cba1ce str.at-negative", m.StrCharAt(S("ab"), I(-2)), S("")),
        ("8cba1ce str.at-in-range", m.StrCharAt(S("ab"), I(1)), S("b")),
        ("8cba1ce str.indexof-negative-start", m.StrIndexOf(S("abcabc"), S(""), I(-7)), I(-1)),
        ("8cba1ce str.indexof-start-at-end", m.StrIndexOf(S("abc"), S(""), I(3)), I(3)),
        ("8cba1ce str.indexof-start-beyond", m.StrIndexOf(S("abc"), S(""), I(4)), I(-1)),
        ("8cba1ce str.substr-negative-start", m.StrSubstr(S("bc"), I(-2), I(1)), S("")),
        ("8cba1ce str.substr-negative-end", m.StrSubstr(S("abc"), I(0), I(-2)), S("")),
        ("8cba1ce str.substr-in-range", m.StrSubstr(S("abc"), I(1), I(5)), S("bc")),
    ]


def run_regressions(chk, st):
    n = 0
    with EnvCtx() as env:
        for name, f, expected in regression_cases(env.formula_manager):
            n += 1
            r, exc, _ = impl_simplify(env, f)
            if r is not expected:
                chk.violation({"kind": "input", "stream": "regression", "what": "repaired finding is back: %s" % name,
                               "minimal_formula": ser(f), "observed": ("raises %s" % exc) if r is None else ser(r),
                               "expected": ser(expected),
                               "repro": REPLAY_HEADER + rebuild_text(f) + "\nprint(f.simplify())"},
                              key="regression:%s" % name)
            st.add(env, f, "regression")
    return n


# ----------------------------------------------------------------------------------------------
# PyPrims against CPython
# ----------------------------------------------------------------------------------------------

def zlist(s):
    if len(s) > 200 and s.count("_") > 100:      # "1_1_1_...": periodic, not run-length friendly
        body = s.strip()
        if body == "1_" * (len(body) // 2) + "1":
            lead = s[:len(s) - len(s.lstrip())]
            trail = s[len(s.rstrip()):]
            return "(%s ++ List.concat (zrepeat [%s; %s] %s) ++ [%s] ++ %s)" % (
                zseq(ord(c) for c in lead), zl(49), zl(95), zl(len(body) // 2), zl(49), zseq(ord(c) for c in trail))
    return zseq(ord(c) for c in s)


def zopt(v):
    return "None" if v is None else "(Some %s)" % zl(v)


def prim_cases(rnd, tier):
    """list of (tag, Gallina bool expression expected to be true)"""
    out = []
    eqo = "(oz_eqb (%s) %s)"     # no `match` on a closed computation here: coqc would evaluate it while elaborating
    small = list(range(-7, 8))
    bigs = [2 ** 64 + 3, -(2 ** 64) - 3, 10 ** 30, -(10 ** 30) + 7]
    for a, b in list(itertools.product(small, small)) + [(rnd.choice(bigs + small), rnd.choice(bigs + small)) for _ in range(60)]:
        out.append(("floordiv", eqo % ("py_floordiv %s %s" % (zl(a), zl(b)), zopt(None if b == 0 else a // b))))
        out.append(("mod", eqo % ("py_mod %s %s" % (zl(a), zl(b)), zopt(None if b == 0 else a % b))))
        out.append(("and", "Z.eqb (py_and %s %s) %s" % (zl(a), zl(b), zl(a & b))))
        out.append(("or", "Z.eqb (py_or %s %s) %s" % (zl(a), zl(b), zl(a | b))))
        out.append(("xor", "Z.eqb (py_xor %s %s) %s" % (zl(a), zl(b), zl(a ^ b))))
        if 0 <= b <= 7:
            out.append(("pow", "Z.eqb (py_pow %s %s) %s" % (zl(a), zl(b), zl(a ** b))))
            out.append(("shl", "Z.eqb (py_shl %s %s) %s" % (zl(a), zl(b), zl(a << b))))
            out.append(("shr", "Z.eqb (py_shr %s %s) %s" % (zl(a), zl(b), zl(a >> b))))
            out.append(("set_bit", "Z.eqb (set_bit %s %s true) %s && Z.eqb (set_bit %s %s false) %s"
                        % (zl(a), zl(b), zl(a | (1 << b)), zl(a), zl(b), zl(a & ~(1 << b)))))
    for a in small + bigs:
        out.append(("invert", "Z.eqb (py_invert %s) %s" % (zl(a), zl(~a))))
    from pysmt.utils import twos_complement
    for w in range(1, 6):
        for v in range(1 << w):
            out.append(("twos_complement", "Z.eqb (twos_complement %s %s) %s" % (zl(v), zl(w), zl(twos_complement(v, w)))))
            for ww in (1, w, w + 2):
                s = ("{0:0%db}" % ww).format(v)
                out.append(("bin_str", "list_eqb Bool.eqb (bin_str %s %s) [%s]" % (zl(ww), zl(v), "; ".join("true" if c == "1" else "false" for c in s))))
            s = ("{0:0%db}" % w).format(v)
            out.append(("int_of_bits", eqo % ("int_of_bits [%s]" % "; ".join("true" if c == "1" else "false" for c in s), zopt(int(s, 2)))))
    for w in (64, 129):
        for _ in range(6):
            v = rnd.randint(0, (1 << w) - 1)
            out.append(("twos_complement", "Z.eqb (twos_complement %s %s) %s" % (zl(v), zl(w), zl(twos_complement(v, w)))))
    # slices
    strs = ["", "a", "ab", "abc", "abcd"]
    bounds = [None] + list(range(-6, 7))
    for s in strs:
        for a, b in itertools.product(bounds, bounds):
            out.append(("slice", "list_eqb Z.eqb (py_slice %s %s %s) %s" % (zlist(s), zopt(a), zopt(b), zlist(s[a:b]))))
        out.append(("reverse", "list_eqb Z.eqb (py_reverse %s) %s" % (zlist(s), zlist(s[::-1]))))
        for k in (-1, 0, 1, 3):
            out.append(("repeat", "list_eqb Z.eqb (py_repeat %s %s) %s" % (zlist(s), zl(k), zlist(s * k))))
    # find / in / replace / startswith / endswith
    hay = ["", "a", "b", "ab", "ba", "aa", "aab", "aba", "abab", "bbab", "abcabc"]
    sub = ["", "a", "b", "ab", "ba", "aa", "abc", "c"]
    for s, t in itertools.product(hay, sub):
        for st in range(-8, 9):
            out.append(("find", "Z.eqb (py_find %s %s %s) %s" % (zlist(s), zlist(t), zl(st), zl(s.find(t, st)))))
        out.append(("in", "Bool.eqb (py_in %s %s) %s" % (zlist(t), zlist(s), "true" if t in s else "false")))
        out.append(("startswith", "Bool.eqb (py_startswith %s %s) %s" % (zlist(s), zlist(t), "true" if s.startswith(t) else "false")))
        out.append(("endswith", "Bool.eqb (py_endswith %s %s) %s" % (zlist(s), zlist(t), "true" if s.endswith(t) else "false")))
        for u in ("", "x", "ab"):
            out.append(("replace", "list_eqb Z.eqb (py_replace1 %s %s %s) %s" % (zlist(s), zlist(t), zlist(u), zlist(s.replace(t, u, 1)))))
    # int(str): every string over a small alphabet up to length 4 (5 in the thorough tier) + long ones
    alpha = ["1", "0", "_", "-", "+", " ", "a", "\t", "\xa0", "\x1c"]
    maxlen = 4 if tier == "quick" else 5
    words = [""]
    for n in range(1, maxlen + 1):
        words += ["".join(t) for t in itertools.product(alpha, repeat=n)]
    words = words if len(words) <= 12000 else [""] + rnd.sample(words, 12000)
    words += ["\x0b12\x0c", "\x852\x1f", "\r\n5", "12\x00", "\x1b1", "1e3", "0x10", "1.0", "٣", "12", "9" * 30, "-" + "9" * 30]
    for dg in (4299, 4300, 4301):
        words += ["7" * dg, "-" + "7" * dg, "0" * dg + "1", "  " + "1" * dg + "  ", "1_" * (dg - 1) + "1"]

    def py_int(s):
        try:
            return int(s)
        except ValueError:
            return None
    for s in words:
        if any(ord(c) > 255 for c in s):
            continue
        out.append(("int(str)", eqo % ("py_int_of_str %s" % zlist(s), zopt(py_int(s)))))

    def py_str(v):
        try:
            return str(v)
        except ValueError:
            return None
    for v in small + bigs + [10 ** 4299, 10 ** 4300 - 1, 10 ** 4300, -(10 ** 4300), 10 ** 4300 + 1] + [rnd.randint(-10 ** 40, 10 ** 40) for _ in range(40)]:
        s = py_str(v)
        out.append(("str(int)", "(os_eqb (py_str_of_int %s) %s)" % (zl(v), "None" if s is None else "(Some %s)" % zlist(s))))
    # Fraction arithmetic
    fr = [Fraction(a, b) for a in (-3, -1, 0, 1, 2, 5) for b in (1, 2, 3, 7)]

    def fz(x):
        return "(%s, %s)" % (zl(x.numerator), zl(x.denominator))

    def feq(e, x):
        return "(fr_is (%s) %s %s)" % (e, zl(x.numerator), zl(x.denominator))
    for a, b in itertools.product(fr, fr):
        out.append(("Fraction+", feq("fr_add %s %s" % (fz(a), fz(b)), a + b)))
        out.append(("Fraction-", feq("fr_sub %s %s" % (fz(a), fz(b)), a - b)))
        out.append(("Fraction*", feq("fr_mul %s %s" % (fz(a), fz(b)), a * b)))
        out.append(("Fraction/", "(ofr_is (fr_div %s %s) %s)"
                    % (fz(a), fz(b), "None" if b == 0 else "(Some %s)" % fz(a / b))))
        out.append(("Fraction cmp", "Bool.eqb (fr_ltb %s %s) %s && Bool.eqb (fr_leb %s %s) %s && Bool.eqb (fr_eqb %s %s) %s"
                    % (fz(a), fz(b), lib.coq_bool(a < b), fz(a), fz(b), lib.coq_bool(a <= b), fz(a), fz(b), lib.coq_bool(a == b))))
    for a in fr:
        for e in range(-4, 5):
            try:
                v = a ** e
            except ZeroDivisionError:
                v = None
            out.append(("Fraction**", "(ofr_is (fr_pow_int %s %s) %s)" % (fz(a), zl(e), "None" if v is None else "(Some %s)" % fz(v))))
    return out


def run_prims(chk, rnd, tier):
    cases = prim_cases(rnd, tier)
    files = []
    shard = 500
    nfiles = max(1, (len(cases) + shard - 1) // shard)
    for k in range(nfiles):
        idx = list(range(k, len(cases), nfiles))
        text = ("From Coq Require Import List ZArith Bool.\nFrom PySMT.core Require Import CaseUtil Syntax PyPrims.\n"
                "Import ListNotations.\nOpen Scope bool_scope.\n" + ZCHUNKS + PRIM_HELPERS)
        text += "Definition cases : list bool := [\n%s\n].\n" % ";\n".join(cases[i][1] for i in idx)
        text += "Eval vm_compute in mismatches (fun b : bool => b) cases.\n"
        p = os.path.join(chk.dir, "cases_prims_%d.v" % k)
        with open(p, "w") as f:
            f.write(text)
        files.append((p, idx))
    pool = CasePool()
    pool.submit(files)

    def finish():
        bad, errs = pool.results()
        return _finish_prims(chk, cases, bad, errs)
    return finish


def _finish_prims(chk, cases, bad, errs):
    hist = {}
    for t, _ in cases:
        hist[t] = hist.get(t, 0) + 1
        chk.count(("prim", t, hist[t]))
    chk.cov.setdefault("correspondence", {})["pyprims"] = {"cases": len(cases), "per_primitive": hist,
                                                           "disagreements": len(bad), "case_file_errors": len(errs)}
    for i in bad[:5]:
        chk.note("PyPrims disagrees with CPython on %s: %s" % (cases[i][0], cases[i][1][:300]))
        chk.cov["correspondence"]["pyprims"].setdefault("examples", []).append({"prim": cases[i][0], "case": cases[i][1][:400]})
    for e in errs[:2]:
        chk.note("prims case file error: %s" % e["error"][-400:])
    return not bad and not errs


# ----------------------------------------------------------------------------------------------
# The simplify stream
# ----------------------------------------------------------------------------------------------

class Stream(object):
    def __init__(self, chk, rnd, tier):
        self.chk, self.rnd, self.tier = chk, rnd, tier
        self.rows = []          # Gallina rows
        self.meta = []          # (stream name, serialized formula, rebuild text)
        self.cov = LineCov()
        self.ophist = {}
        self.stats = {}
        self.raised = {}
        self.per_stream = {}
        self.findings = {}
        self.ninterp = 3 if tier == "quick" else 8
        self.nontrivial = 0
        self.stream_time = {}
        self.slow = []

    def add(self, env, f, stream):
        t0 = time.time()
        try:
            self._add(env, f, stream)
        finally:
            dt = time.time() - t0
            if dt > 0.5:
                self.slow.append((round(dt, 2), stream, ser(f, 200)))

    def _add(self, env, f, stream):
        r, exc, records = impl_simplify(env, f, self.cov)
        try:
            row = case_row(f, r, records)
        except tocoq.Unsupported:
            self.stats["not_expressible"] = self.stats.get("not_expressible", 0) + 1
            return
        self.rows.append(row)
        sf = ser(f, 600)
        self.meta.append((stream, sf, env, f, r, exc))
        self.per_stream[stream] = self.per_stream.get(stream, 0) + 1
        for n in tocoq.topo([f]):
            k = op.op_to_str(n.node_type())
            self.ophist[k] = self.ophist.get(k, 0) + 1
        if exc is not None:
            self.raised[exc] = self.raised.get(exc, 0) + 1
        nontrivial = r is not f
        self.nontrivial += 1 if nontrivial else 0
        self.chk.count((stream, hashlib.md5(row.encode()).hexdigest()), nontrivial=nontrivial)
        if len(self.chk.cov["samples"]) < 6 and nontrivial and self.rnd.random() < 0.02:
            self.chk.sample({"stream": stream, "formula": sf[:300], "simplified": ser(r, 300) if r is not None else "raises %s" % exc})
        p = semantic_problem(f, r, exc, self.rnd, self.ninterp, self.stats)
        if p is not None and len(self.chk.violations) >= 3 * self.chk.max_reports:
            self.findings["(not minimised: report limit reached)"] = self.findings.get("(not minimised: report limit reached)", 0) + 1
        elif p is not None:
            key = report(self.chk, env, f, r, exc, p, self.rnd, stream)
            self.findings[key] = self.findings.get(key, 0) + 1


def run_simplify(chk, rnd, tier):
    st = Stream(chk, rnd, tier)
    quick = tier == "quick"
    t0 = time.time()
    pool = CasePool()
    state = {"done": 0, "batch": 0, "files": 0}

    def flush(force=False):
        """hand the rows generated so far to coqc (in the background)"""
        n = len(st.rows)
        if n - state["done"] >= (3000 if not force else 1):
            files = write_case_files(chk.dir, "simp%d" % state["batch"], st.rows[state["done"]:n], 250, offset=state["done"])
            pool.submit(files)
            state["files"] += len(files)
            state["done"] = n
            state["batch"] += 1
    # ---- random deep DAGs ----
    nrandom = 2400 if quick else 30000
    per_env = 200
    for b in range(0, nrandom, per_env):
        with EnvCtx() as env:
            cfgs = [Config(), Config(widths=(1, 2, 3, 4, 8)), Config(widths=(2, 8, 32, 64, 129)), Config(quantifiers=False, strings=False),
                    Config(bv=False, strings=False, arrays=False), Config(ints=False, reals=False, max_arity=3)]
            g = FormulaGen(env, rnd, rnd.choice(cfgs))
            for _ in range(per_env):
                t = rnd.choice(g.types) if rnd.random() < 0.5 else BOOL
                f = g.gen(t, rnd.randint(1, 5))
                st.add(env, f, "random")
    nreg = run_regressions(chk, st)
    flush()
    chk.note("random stream + %d regression cases: %d cases in %.1fs" % (nreg, len(st.rows), time.time() - t0))
    # ---- directed ----
    t1 = time.time()
    plan = [("bool", lambda d: d.gen_bool()), ("int", lambda d: d.gen_arith(INT)), ("real", lambda d: d.gen_arith(REAL)),
            ("strings", lambda d: d.gen_strings()), ("string-hazard", lambda d: d.gen_string_hazard()),
            ("arrays", lambda d: d.gen_arrays()), ("array-nest", lambda d: d.gen_array_nest()), ("boundary", lambda d: d.gen_boundary()),
            ("siblings", lambda d: d.gen_siblings()), ("selfref", lambda d: d.gen_selfref()), ("sizes", lambda d: d.gen_sizes()), ("uf-quant", lambda d: d.gen_uf_quant())]
    for w in ((4, 8, 32, 64, 129) if quick else (1, 2, 3, 4, 5, 8, 16, 32, 64, 129)):
        plan.append(("bv-shapes-%d" % w, lambda d, w=w: d.gen_bv_shapes(w)))
    for w in ((1, 2, 3, 4) if quick else (1, 2, 3, 4, 5)):
        plan.append(("bv-exhaustive-%d" % w, lambda d, w=w: d.gen_bv_exhaustive([w])))
    for name, fn in plan:
        tp = time.time()
        with EnvCtx() as env:
            d = Directed(env, rnd, tier)
            fs = fn(d)
            if name == "array-nest":
                chk.cov.setdefault("directed_families", {})["array-nest"] = dict(
                    d.nest_stats, index_sorts=["Bool", "BV1", "BV2", "Int", "Real", "String"],
                    what="Equals / Store / Select on ground array values over chains of index sorts; pairs extensionally "
                         "equal but spelled differently at some depth (full coverage of a finite index domain) and "
                         "extensionally different pairs; refeval decides extensionally")
            if name == "string-hazard":
                chk.cov.setdefault("directed_families", {})["string-hazard"] = {
                    "pool": len(STR_HAZARD), "cases": len(set(fs)),
                    "what": "every str.* rule on strings where Python builtins and SMT-LIB differ (Unicode Nd digits, "
                            "fullwidth, superscripts, signs, spaces, underscores, code points beyond the BMP and around "
                            "the surrogates); model and oracle work on code points"}
            seen = set()
            for f in fs:
                if f in seen:
                    continue
                seen.add(f)
                st.add(env, f, name)
        st.stream_time[name] = round(time.time() - tp, 1)
        flush()
    flush(force=True)
    chk.note("directed stream: %d cases in %.1fs  %s" % (len(st.rows) - st.per_stream.get("random", 0), time.time() - t1, st.stream_time))
    # ---- model inside Coq ----
    t2 = time.time()
    bad, errs = pool.results()
    chk.note("model evaluated on %d cases (%d files, in the background since the first batch): waited %.1fs more, %d disagreements, %d file errors"
             % (len(st.rows), state["files"], time.time() - t2, len(bad), len(errs)))
    ml = modelled_lines()
    src = open(SIMPLIFIER_FILE).read().split("\n")

    def excused(name, l):
        """lines no generated input can reach: the ALGEBRAIC_CONSTANT branches (need z3's Numeral, absent
        here and outside core/Syntax.v) and the dead second rule of walk_le (`sr.is_zero() and sr.is_minus()`)"""
        ctx = " ".join(src[max(0, l - 5):l])
        if "lgebraic" in ctx or "Numeral" in ctx:
            return True
        if name == "walk_le" and ("x, y = sr.arg(0), sr.arg(1)" in src[l - 1] or "LE(x, y)" in src[l - 1]):
            return "sr.is_zero() and sr.is_minus()" in " ".join(src[max(0, l - 3):l])
        return False
    uncovered, unreachable = {}, {}
    total = 0
    hit = 0
    for name, ls in sorted(ml.items()):
        total += len(ls)
        miss = [l for l in ls if l not in st.cov.lines]
        hit += len(ls) - len(miss)
        for l in miss:
            (unreachable if excused(name, l) else uncovered).setdefault(name, []).append(l)
    corr = chk.cov.setdefault("correspondence", {})
    corr["simplify"] = {"cases": len(st.rows), "per_stream": st.per_stream, "nontrivial_cases": st.nontrivial,
                        "disagreements": len(bad), "case_file_errors": len(errs),
                        "implementation_raised": st.raised,
                        "compared": "simplify_opt (lookup observed-orders) f  =  Simplifier(env).simplify(f)   (term_eqb; None = raises)"}
    chk.cov["operator_histogram"] = dict(sorted(st.ophist.items()))
    allops = set(op.op_to_str(o) for o in op.ALL_TYPES if o != op.ALGEBRAIC_CONSTANT)
    chk.cov["operators_not_generated"] = sorted(allops - set(st.ophist))
    chk.cov["simplifier_line_coverage"] = {"file": "pysmt/simplifier.py", "methods": len(ml), "executable_lines": total,
                                           "executed": hit, "not_executed": uncovered,
                                           "not_executed_unreachable_here": unreachable,
                                           "unreachable_reason": "ALGEBRAIC_CONSTANT branches (need z3's Numeral; not in core/Syntax.v) and "
                                                                 "the dead test `sr.is_zero() and sr.is_minus()` of walk_le"}
    chk.cov["simplifier_methods"] = {
        "modelled": sorted(ml),
        "not_modelled": ["walk_debug / validate_simplifications (needs a solver)", "BddSimplifier",
                         "ALGEBRAIC_CONSTANT branches of walk_plus / walk_times / walk_minus / walk_pow / walk_identity"]}
    chk.cov["slowest_cases"] = sorted(st.slow, reverse=True)[:10]
    chk.cov["oracle"] = dict(st.stats, findings=st.findings, first_example_per_finding=FIRST)
    examples = []
    for i in bad[:6]:
        stream, sf, env, f, r, exc = st.meta[i]
        chk.note("model/implementation disagreement [%s] on %s  ->  %s" % (stream, sf[:240], ser(r, 200) if r is not None else "raises %s" % exc))
        examples.append({"stream": stream, "formula": sf, "implementation": ser(r, 600) if r is not None else "raises %s" % exc})
    if examples:
        corr["simplify"]["examples"] = examples
        with open(os.path.join(chk.dir, "disagreements.json"), "w") as fh:
            json.dump([{"index": i, "stream": st.meta[i][0], "formula": st.meta[i][1]} for i in bad], fh, indent=1)
    for e in errs[:2]:
        chk.note("case file error: %s" % e["error"][-500:])
    lines_ok = True
    if uncovered:
        chk.note("modelled lines not executed by any generated case: %s" % uncovered)
        lines_ok = quick          # the tie does not reach these branches: fails the thorough tier
    return (not bad and not errs and lines_ok), st


def run(tier):
    warnings.filterwarnings("ignore", message=".*Division by 0.*")
    chk = lib.Check("C01", tier)
    rnd = random.Random(chk.seed)
    gen_all.regen_all()
    ok = chk.prove()
    if not ok:
        chk.note("proof part failed: %s" % lib.proof_failure_summary(chk))
    chk.note("proof part: %s" % ("ok" if ok else "FAILED"))
    lib.clean_cases(chk.dir)
    only = os.environ.get("VERIF_C01_ONLY", "")      # development aid: "prims" or "simplify"
    # the PyPrims case files are evaluated by coqc in the background while the simplify streams are generated
    prims_finish = run_prims(chk, random.Random(chk.seed * 7919 + 1), tier) if only != "simplify" else (lambda: True)
    corr_ok, st = run_simplify(chk, rnd, tier) if only != "prims" else (True, None)
    prims_ok = prims_finish()
    chk.note("PyPrims vs CPython: %s" % ("ok" if prims_ok else "DISAGREEMENT"))
    if not ok or not prims_ok or not corr_ok:
        # the proof or a tie is broken: if the SEARCH above found an input on which the property itself fails
        # (an unlisted VIOLATION was printed) that is the report; otherwise name what no longer checks
        if not any(found for _, found in chk.violations):
            what = []
            if not ok:
                what.append("proof: " + lib.proof_failure_summary(chk))
            if not prims_ok:
                what.append("correspondence core/PyPrims.v vs CPython")
            if not corr_ok:
                what.append("correspondence models/Simplifier.v vs pysmt.simplifier.Simplifier")
            ex = chk.cov.get("correspondence", {}).get("simplify", {}).get("examples", [])
            chk.violation({"kind": "obligation", "theorem_or_correspondence": "; ".join(what),
                           "disagreeing_inputs": ex,
                           "searched": "every generated case was evaluated by the reference evaluator against the "
                                       "implementation's result; none differs in type, symbols or value (other than known findings)"},
                          found_input=False)
    rc = chk.finish(TRUSTED, ASSUMPTIONS, RULE, extra={"partial_run": only} if only else None)
    if only and rc == 0:
        chk.note("VERIF_C01_ONLY=%s: partial run (development aid), not a verdict" % only)
        return 3
    return rc


def replay(path):
    """Re-run one replay file: executes its repro snippet against the repository under test and
    re-checks the result with the reference evaluator."""
    rp = json.load(open(path))
    if rp.get("kind") != "input":
        print("replay: %s" % rp.get("theorem_or_correspondence"))
        return run("quick")
    ns = {}
    src = rp["repro"].rsplit("\nprint(", 1)[0]
    exec(src, ns)
    f, env = ns["f"], ns["env"]
    r, exc, _ = impl_simplify(env, f)
    p = semantic_problem(f, r, exc, random.Random(0), 40)
    print("formula:    %s" % ser(f, 1000))
    print("simplified: %s" % (ser(r, 1000) if r is not None else "raises %s" % exc))
    if p is None:
        print("replay: the property holds on this input now")
        return 0
    print("VIOLATION property=C01 replay=%s (%s)" % (path, p.what))
    return 1
