"""C12 - formula analyses (free symbols, atoms, qf-ness, sorts, sizes) are exact."""
import random

import pysmt.operators as op
from pysmt.environment import Environment
from pysmt.oracles import SizeOracle

from . import gen_all, lib, sortshape, termcases, tocoq
from .gen.formulas import Config, FormulaGen

TRUSTED = [
    "Coq 8.16.1 kernel (coqc); no native_compute",
    "core/Sem.v: the semantic specification (values, interpretations, eval) the coincidence and truth-functionality theorems are stated against",
    "hand model models/Oracles.v of FreeVarsOracle, AtomsOracle, QuantifierOracle, TypesOracle, SizeOracle (and models/TypeChecker.v for the Bool-typed select case), tied to pysmt/oracles.py by this run's correspondence",
    "translator harness/translate/dispatch_tr.py (Python ast -> Gallina, fail-closed) regenerates gen/Operators.v (node types, ids, names, groups) and gen/Dispatch.v (node type -> name of the handling method, per walker class) from the repository on every run; its output is cross-checked against the live tables (pysmt.operators, walker.functions[op].__name__) and the proofs Operators_proofs / Dispatch_oracles_proofs tie the hand model's case analysis to it",
    "harness/tocoq.py (FNode -> Gallina literal) and the set comparison inside Coq (set_eqb over term_eqb, proved correct in core/SyntaxLemmas.v)",
]
ASSUME = [
    "array index sorts are first-order in Sem.v; the theorems hold for all terms, the correspondence covers generated formulas of all theories",
    "sizes DAG_NODES / SYMBOLS / BOOL_DAG are the model's definitions (set cardinalities), tied by correspondence and the independent recursive definitions",
]


# ---------------- independent recursive definitions (oracle) -----------------
def ref_free_vars(f):
    memo = {}
    for n in tocoq.topo([f]):
        kids = set()
        for c in n.args():
            kids |= memo[c]
        if n.is_symbol():
            memo[n] = {n}
        elif n.is_function_application():
            memo[n] = kids | {n.function_name()}
        elif n.is_quantifier():
            memo[n] = kids - set(n.quantifier_vars())
        else:
            memo[n] = kids
    return memo[f]


def ref_is_qf(f):
    return not any(n.is_quantifier() for n in tocoq.topo([f]))


def ref_sizes(f, env):
    order = tocoq.topo([f])
    tree, leaves, depth = {}, {}, {}
    for n in order:
        a = n.args()
        tree[n] = 1 + sum(tree[c] for c in a)
        leaves[n] = 1 if not a else sum(leaves[c] for c in a)
        depth[n] = 1 + (max(depth[c] for c in a) if a else 0)
    syms = set(n for n in order if n.is_symbol())
    # bool dag: stop below theory relations
    seen, stack = set(), [f]
    while stack:
        n = stack.pop()
        if n in seen:
            continue
        seen.add(n)
        if n.node_type() in op.RELATIONS:
            continue
        stack.extend(n.args())
    return {SizeOracle.MEASURE_TREE_NODES: tree[f], SizeOracle.MEASURE_DAG_NODES: len(order),
            SizeOracle.MEASURE_LEAVES: leaves[f], SizeOracle.MEASURE_DEPTH: depth[f],
            SizeOracle.MEASURE_SYMBOLS: len(syms), SizeOracle.MEASURE_BOOL_DAG: len(seen)}


def ref_atoms(f, env):
    """Atoms of a Boolean formula: maximal Boolean sub-terms that are not built by a Boolean
    connective / quantifier / Boolean ITE (None for theory terms)."""
    memo = {}
    for n in tocoq.topo([f]):
        nt = n.node_type()
        kids = [memo[c] for c in n.args()]
        if nt in op.BOOL_CONNECTIVES or nt in op.QUANTIFIERS:
            memo[n] = None if any(k is None for k in kids) else set().union(*kids) if kids else set()
        elif nt == op.ITE:
            memo[n] = None if any(k is None for k in kids) else set().union(*kids)
        elif nt == op.BOOL_CONSTANT:
            memo[n] = set()
        elif env.stc.get_type(n).is_bool_type():
            memo[n] = {n}
        else:
            memo[n] = None
    return memo[f]


def ref_types(f):
    """All sorts of a formula by the structural definition: sorts of symbols and constants, signatures of
    applied functions, sorts of bound variables, index sorts of array values - closed under component
    sorts (index / element of an array sort, arguments of a user-declared parametric sort)."""
    base = []
    for n in tocoq.topo([f]):
        if n.is_symbol():
            base.append(n.symbol_type())
        elif n.is_function_application():
            ft = n.function_name().symbol_type()
            base.append(ft.return_type)
            base.extend(ft.param_types)
        elif n.is_quantifier():
            base.extend(v.symbol_type() for v in n.quantifier_vars())
        elif n.is_array_value():
            base.append(n.array_value_index_type())
        elif n.is_constant():
            base.append(n.constant_type())
    closed = []
    for t in base:
        sortshape.sort_tree(t, closed)
    return closed


def components(t):
    if t.is_array_type():
        return [t.index_type, t.elem_type]
    if t.is_custom_type():
        return list(t.args)
    return []


def is_builtin(t):
    return (t.is_bool_type() or t.is_int_type() or t.is_real_type() or t.is_bv_type() or t.is_array_type()
            or t.is_string_type())


def sort_shape_cases(tier):
    """SORT-SHAPE family: a user sort S, P(S) or Q(Int, S) as the ONLY occurrence of S, at depth 0..3 under every
    chain of Array-index / Array-element / parametric-argument wrappers, reaching the formula through each
    carrier of sortshape.CARRIERS."""
    from pysmt.typing import INT
    for ch in sortshape.chains(sortshape.WRAPS, 0, 3 if tier == "quick" else 4):
        for leaf in ("S", "P(S)", "Q(Int,S)"):
            env = Environment()
            tm = env.type_manager
            S = tm.Type("S", 0)
            lt = {"S": S, "P(S)": tm.get_type_instance(tm.Type("P", 1), S),
                  "Q(Int,S)": tm.get_type_instance(tm.Type("Q", 2), INT, S)}[leaf]
            t = sortshape.build_sort(env, lt, ch, INT)
            for c in sortshape.CARRIERS:
                f = sortshape.carrier_formula(env, t, c)
                if f is not None:
                    yield env, f, "sortshape:%s:%s:%s" % (leaf, "-".join(ch), c)


def degenerate_cases(tier):
    """DEGENERATE-LISTS family: argument and binder lists that are legal but unusual - a bound variable named twice or
    three times, vacuous binders, binders equal to / larger than the free symbols of the body, for EVERY body free set over
    four variables x EVERY binder list of length 1..3 over them; the same argument given twice to n-ary operators,
    functions, array values; the same shapes read by the SMT-LIB parser (which keeps (forall ((x Int) (x Int)) ...))."""
    import itertools
    from io import StringIO
    import pysmt.operators as op
    from pysmt.smtlib.parser import SmtLibParser
    from pysmt.typing import BOOL, INT, STRING, ArrayType, BVType, FunctionType
    env = Environment()
    m = env.formula_manager
    V = [m.Symbol(n, INT) for n in "xyzw"]
    p, q = m.Symbol("p", BOOL), m.Symbol("q", BOOL)
    f2 = m.Symbol("f2", FunctionType(INT, [INT, INT]))
    pr = m.Symbol("pr", FunctionType(BOOL, [INT]))

    def body(F, k):
        if k % 3 == 0:
            return m.Implies(m.GE(F[0], F[-1]), m.And([m.GE(v, m.Int(0)) for v in F]))
        if k % 3 == 1:          # function names are free symbols too; shared sub-terms
            t = m.Function(f2, [F[0], F[-1]])
            return m.And([m.Function(pr, [m.Plus(t, v)]) for v in F] + [m.LE(t, t)])
        return m.Or([m.Equals(v, m.Int(i)) for i, v in enumerate(F)] + [p])
    binders = [list(b) for n in (1, 2, 3) for b in itertools.product(V, repeat=n)]
    k = 0
    for n in (1, 2, 3, 4):
        for F in itertools.combinations(V, n):
            for B in binders:
                k += 1
                if tier == "quick" and len(set(B)) == len(B) == 3 and k % 4:
                    continue            # duplicate-free triples are thinned in the quick tier
                Q = m.ForAll if k % 2 else m.Exists
                yield env, Q(B, body(list(F), k)), "degenerate:binder:%s:%s" % ("".join(v.symbol_name() for v in B), "".join(v.symbol_name() for v in F))
    x, y, z, w = V
    # nested / shadowing binders with repetitions, Boolean bound variables, the empty-free-set body
    b0 = m.Implies(m.GE(x, y), m.GE(x, m.Int(0)))
    for B1 in ([x, x], [x, z, x], [y, y], [x, y, x, y], [z], [z, z, w]):
        for B2 in ([x, x], [y, x, y], [w, w], [x]):
            yield env, m.ForAll(B1, m.Exists(B2, b0)), "degenerate:nested"
            yield env, m.And(m.ForAll(B1, b0), m.Exists(B2, m.Not(b0)), b0), "degenerate:siblings"
    for B in ([p, p], [p, q, p], [q, q], [p, x, p, x]):
        yield env, m.Exists(B, m.And(p, m.GE(x, y))), "degenerate:bool-binder"
        yield env, m.ForAll(B, m.TRUE()), "degenerate:closed-body"
    # the same argument more than once
    a, b = m.GE(x, y), m.Function(pr, [x])
    bv, st = m.Symbol("bv", BVType(8)), m.Symbol("st", STRING)
    arr = m.Symbol("arr", ArrayType(INT, INT))
    rep = [m.And(a, a), m.Or(a, a, b), m.And(a, b, a), m.Iff(a, a), m.Implies(a, a), m.Xor(p, p), m.Plus(x, x), m.Plus(x, y, x), m.Times(x, x),
           m.Minus(x, x), m.Equals(x, x), m.LE(x, x), m.Ite(p, x, x), m.Ite(p, p, p), m.Function(f2, [x, x]),
           m.Function(f2, [m.Function(f2, [x, x]), m.Function(f2, [x, x])]), m.BVAnd(bv, bv), m.BVConcat(bv, bv), m.BVULT(bv, bv),
           m.BVAdd(bv, bv), m.StrConcat(st, st), m.StrConcat(st, st, st), m.StrContains(st, st), m.Select(arr, m.Select(arr, x)),
           m.Store(arr, x, x), m.Store(m.Store(arr, x, y), x, y), m.AllDifferent(x, x), m.ExactlyOne(p, p), m.AtMostOne(a, a, a),
           m.Array(INT, x, {m.Int(1): x}), m.Array(INT, x, {m.Int(1): x, m.Int(2): x}),
           m.create_node(node_type=op.ARRAY_VALUE, args=(x, m.Int(1), x, m.Int(1), z), payload=INT),         # the key 1 twice
           m.create_node(node_type=op.AND, args=(a, a, a)), m.create_node(node_type=op.PLUS, args=(x, x, x, x))]
    for t in rep:
        yield env, t, "degenerate:repeated-argument"
        if t.get_type().is_bool_type():
            yield env, m.ForAll([x, x], m.Or(t, m.GE(x, z))), "degenerate:repeated-argument-under-repeated-binder"
        else:
            yield env, m.Exists([x, y, x], m.EqualsOrIff(t, t)), "degenerate:repeated-argument-under-repeated-binder"
    # through the parser (a fresh environment: the parser declares the symbols itself)
    texts = ["(forall ((x Int) (x Int)) (=> (>= x y) (>= x 0)))", "(exists ((x Int) (z Int) (x Int)) (and (>= x y) (>= z y)))",
             "(forall ((x Int) (x Int) (x Int)) (>= x y))", "(forall ((z Int) (z Int)) (>= x y))", "(exists ((x Int) (y Int) (x Int) (y Int)) (>= x y))",
             "(forall ((x Int) (x Int)) (exists ((y Int) (y Int)) (and (>= x y) (>= z 0))))", "(and (>= x y) (>= x y))", "(= (g x x) (g x x))",
             "(let ((v x) (u x)) (>= (+ v u v) y))", "(forall ((x Int) (z Int) (x Int)) (and (>= x y) (>= z y) (>= w 0)))", "(distinct x x)"]
    penv = Environment()
    pre = "(declare-fun x () Int)(declare-fun y () Int)(declare-fun z () Int)(declare-fun w () Int)(declare-fun g (Int Int) Int)"
    for t in texts:
        try:
            yield penv, SmtLibParser(penv).get_script(StringIO(pre + "(assert %s)" % t)).get_last_formula(), "degenerate:parsed"
        except Exception:   # noqa: a text the parser does not take is not a case
            continue


def collision_cases(tier, info):
    """HASH-COLLISION family (harness/hashcollide.py): formulas whose sub-formulas have DIFFERENT free-symbol sets / atom
    sets / constants with the SAME Python hash (constructed at run time, verified against hash(); the family records
    itself as skipped when this Python's hash functions are not the modelled ones)."""
    from fractions import Fraction
    from pysmt.typing import INT, REAL, BOOL, FunctionType
    from . import hashcollide as hc
    env = Environment()
    m = env.formula_manager
    n = 110 if tier == "quick" else 260
    syms = [m.Symbol("hv%d" % i) for i in range(n)]
    xs = [m.Symbol("hx%d" % i, INT) for i in range(n)]
    atoms = [m.GE(x, m.Int(0)) for x in xs]
    p_sym = hc.frozenset_pairs(syms, want=2)
    p_int = hc.frozenset_pairs(xs, want=1)
    p_atom = hc.frozenset_pairs(atoms, want=1)
    ip, fp, mp = hc.int_pair(), hc.fraction_pair(), hc.mixed_pair()
    info.update({"symbol_set_pairs": len(p_sym), "int_symbol_set_pairs": len(p_int), "atom_set_pairs": len(p_atom),
                 "int_pair": ip is not None, "fraction_pair": fp is not None, "mixed_pair": mp is not None,
                 "set_size": [len(a) for a, _ in p_sym + p_int + p_atom]})
    if not (p_sym or p_int or p_atom or ip or fp):
        info["skipped"] = "no colliding objects could be built: the hash functions of this Python are not the modelled ones"
    pr = m.Symbol("hpr", FunctionType(BOOL, [INT]))
    for A, B in p_sym + p_atom:
        oa, ob = m.Or(A), m.Or(B)
        for f in (m.And(oa, ob), m.Or(m.And(A), m.And(B)), m.Iff(oa, m.And(B)), m.And(ob, oa), m.And(oa, m.Not(ob), A[0]),
                  m.And(m.Or(B[1:] + A[:1]), oa, ob), m.Implies(m.And(oa, ob), m.Or(A + B))):
            yield env, f, "hashcollide:sets"
        bound = [v for v in (A[:2] + B[:1]) if v.is_symbol()]
        if bound:
            yield env, m.ForAll(bound, m.And(oa, ob)), "hashcollide:sets-under-binder"
            yield env, m.And(m.Exists(bound, oa), ob), "hashcollide:sets-under-binder"
    for A, B in p_int:
        sa, sb = m.Plus(A), m.Plus(B)
        for f in (m.And(m.LE(sa, m.Int(0)), m.LE(sb, m.Int(0))), m.Equals(sa, sb), m.Function(pr, [m.Plus(sa, sb)]),
                  m.And(m.Function(pr, [sa]), m.Function(pr, [sb])), m.Exists(A[:2], m.LT(sa, sb))):
            yield env, f, "hashcollide:int-sets"
    x, r = m.Symbol("hcx", INT), m.Symbol("hcr", REAL)
    if ip:
        a, b = ip
        for f in (m.Equals(m.Plus(x, m.Int(a)), m.Int(b)), m.And(m.Equals(x, m.Int(a)), m.Not(m.Equals(x, m.Int(b)))),
                  m.LT(m.Int(a), m.Int(b)), m.BVULT(m.BV(a, 128), m.BV(b, 128)), m.Equals(m.BVAdd(m.BV(a, 128), m.BV(b, 128)), m.BV(a, 128)),
                  m.Equals(m.Select(m.Array(INT, m.Int(a), {m.Int(a): m.Int(b), m.Int(b): m.Int(0)}), x), m.Int(b))):
            yield env, f, "hashcollide:int-constants"
    if fp:
        a, b = fp
        for f in (m.Equals(m.Plus(r, m.Real(a)), m.Real(b)), m.LT(m.Real(a), m.Real(b)), m.And(m.LE(r, m.Real(a)), m.LE(m.Real(b), r))):
            yield env, f, "hashcollide:real-constants"
    if mp:
        a, b = mp
        yield env, m.LE(m.ToReal(m.Plus(x, m.Int(b))), m.Plus(r, m.Real(a))), "hashcollide:mixed-constants"
        yield env, m.And(m.Equals(m.Real(Fraction(b)), m.Real(a)), m.Equals(x, m.Int(b))), "hashcollide:mixed-constants"


def flag_cases(tier):
    """ENVIRONMENT-FLAGS family (harness/envflags.py): the analyses under every value of the Environment's flags, with the
    flags flipped between building and analysing."""
    from . import envflags
    for fb in envflags.combos():
        for fa in envflags.combos():
            if tier == "quick" and (fb["allow_empty_var_names"] or fa["allow_empty_var_names"]):
                continue            # quick: the two flags that code on the analysed paths reads, 4 x 4 combinations
            env = Environment()
            envflags.set_flags(env, fb)
            fs = envflags.division_formulas(env)
            envflags.set_flags(env, fa)
            for f in fs:
                yield env, f, "flags:built-%s:analysed-%s" % (envflags.label(fb), envflags.label(fa))


def check_types(chk, env, f, fam):
    """get_types in both modes against the definition, against each other, and the stated order."""
    want = ref_types(f)
    skey = str(tocoq.skey(f))[:200]
    sorts = sorted(set(str(m.symbol_type()) for m in tocoq.topo([f]) if m.is_symbol()))
    got = {}
    for custom in (False, True):
        r = env.typeso.get_types(f, custom_only=custom)
        got[custom] = r
        exp = [t for t in want if not (custom and is_builtin(t))]
        if set(r) != set(exp) or len(set(r)) != len(r):
            chk.violation({"kind": "input", "what": "get_types(f, custom_only=%s) differs from the definition (walked sorts closed under "
                           "component sorts%s)" % (custom, ", built-in sorts removed" if custom else ""), "formula": f.serialize(),
                           "symbol_sorts": sorts, "family": fam, "reported": [str(t) for t in r], "definition": sorted(str(t) for t in exp)},
                          key="types%s:%s" % ("-custom" if custom else "", skey))
        pos = {t: i for i, t in enumerate(r)}
        late = [(str(t), str(c)) for t in r for c in components(t) if c in pos and pos[c] > pos[t]]
        if late:
            chk.violation({"kind": "input", "what": "get_types(f, custom_only=%s): expand_types states 'simpler types first', but %s is listed "
                           "before its component %s" % (custom, late[0][0], late[0][1]), "formula": f.serialize(), "symbol_sorts": sorts,
                           "reported": [str(t) for t in r]}, key="types-order:%s:%s" % ("custom" if custom else "all", skey))
    if set(got[True]) != set(t for t in got[False] if not is_builtin(t)):
        chk.violation({"kind": "input", "what": "get_types(custom_only=True) is not the non-built-in part of get_types()", "formula": f.serialize(),
                       "symbol_sorts": sorts, "family": fam, "custom_only": [str(t) for t in got[True]], "default": [str(t) for t in got[False]]},
                      key="types-consistency:" + skey)
    return got


def run(tier):
    chk = lib.Check("C12", tier)
    rnd = random.Random(chk.seed)
    gen_all.regen_all()
    ok = chk.prove()
    lib.clean_cases(chk.dir)
    n = 700 if tier == "quick" else 8000
    cases, meta = [], []
    MEAS = [SizeOracle.MEASURE_TREE_NODES, SizeOracle.MEASURE_DAG_NODES, SizeOracle.MEASURE_LEAVES,
            SizeOracle.MEASURE_DEPTH, SizeOracle.MEASURE_SYMBOLS, SizeOracle.MEASURE_BOOL_DAG]
    ops_seen = set()

    def recheck(env, batch):
        """The analyses must still equal their definitions after the environment has been used for
        other things (rewriters that read the cached answers, substitutions, simplification)."""
        import pysmt.rewritings as rw
        for f in batch[::2]:
            for fn in (lambda: rw.prenex_normal_form(f), lambda: rw.nnf(f, env), lambda: rw.cnf(f, env), lambda: rw.aig(f, env),
                       lambda: env.simplifier.simplify(f),
                       lambda: f.substitute({v: v for v in list(env.fvo.get_free_variables(f))[:1]}),
                       lambda: rw.conjunctive_partition(f) and list(rw.conjunctive_partition(f))):
                try:
                    fn()
                except Exception:   # noqa: rewriters reject formulas outside their fragment
                    pass
        # a caller that modifies an answer it was given must not change later answers
        junk = env.formula_manager.Symbol("c12_junk_symbol")
        for f in batch[1::2]:
            for r in (env.fvo.get_free_variables(f), env.ao.walk(f), env.typeso.walk(f)):
                for meth, arg in (("add", junk), ("append", junk)):
                    if hasattr(r, meth):
                        try:
                            getattr(r, meth)(arg)
                        except Exception:   # noqa
                            pass
        for f in batch:
            chk.count(("c12-after-use", tocoq.skey(f)), nontrivial=len(f.args()) > 0)
            rfv = ref_free_vars(f)
            got = set(env.fvo.get_free_variables(f))
            if got != rfv:
                chk.violation({"kind": "history", "what": "get_free_variables differs from the definition after the environment was used "
                               "(prenex / nnf / cnf / aig / simplify / substitute on formulas of the same environment)", "formula": f.serialize(),
                               "reported": sorted(map(str, got)), "definition": sorted(map(str, rfv))}, key="fv-after-use:" + str(tocoq.skey(f))[:200])
            if env.qfo.is_qf(f) != ref_is_qf(f):
                chk.violation({"kind": "history", "what": "is_qf differs from the definition after the environment was used", "formula": f.serialize()},
                              key="qf-after-use:" + str(tocoq.skey(f))[:200])
            rs = ref_sizes(f, env)
            for m in MEAS:
                if env.sizeo.get_size(f, m) != rs[m]:
                    chk.violation({"kind": "history", "what": "size measure %d differs from its definition after the environment was used" % m,
                                   "formula": f.serialize()}, key="size-after-use%d:%s" % (m, str(tocoq.skey(f))[:200]))
            try:
                ats = env.ao.get_atoms(f)
            except AssertionError:
                ats = None
            ra = ref_atoms(f, env)
            if (ats is None) != (ra is None) or (ats is not None and set(ats) != ra):
                chk.violation({"kind": "history", "what": "get_atoms differs from the definition after the environment was used", "formula": f.serialize()},
                              key="atoms-after-use:" + str(tocoq.skey(f))[:200])

    def inputs():
        cur, batch = None, []
        for i in range(n):
            if i % 100 == 0:
                if cur is not None:
                    recheck(cur, batch)
                batch = []
                cur = Environment()
                # every other batch: Boolean structure with many (nested, shadowing) quantifiers over Int/Bool/UF atoms
                boolq = (i // 100) % 2 == 1
                g = FormulaGen(cur, rnd, Config(bv=False, strings=False, arrays=False, reals=False, custom=False, div=False)
                               if boolq else Config())
            t = g.types[0] if boolq else (rnd.choice(g.types) if rnd.random() < 0.5 else g.types[0])
            f = g.gen(t, rnd.randint(1, 5))
            batch.append(f)
            yield cur, f, "random"
        recheck(cur, batch)
        batch = []
        last = None
        for e, f, fam in sort_shape_cases(tier):
            if e is not last and last is not None:
                recheck(last, batch)
                batch = []
            last = e
            batch.append(f)
            yield e, f, fam
        recheck(last, batch)
        batch, last = [], None
        for e, f, fam in degenerate_cases(tier):
            if e is not last and last is not None:
                recheck(last, batch)
                batch = []
            last = e
            batch.append(f)
            yield e, f, fam
        recheck(last, batch)
        chk.note("random, sort-shape and degenerate-list families analysed")
        batch = []
        for e, f, fam in collision_cases(tier, hinfo):
            batch.append(f)
            yield e, f, fam
        if batch:
            recheck(e, batch)
        chk.note("hash-collision family analysed")
        for x in flag_cases(tier):
            yield x
        chk.note("environment-flags family analysed")
    nshape = ndegen = ncoll = nflag = 0
    hinfo = {}
    for env, f, fam in inputs():
        nshape += fam.startswith("sortshape")
        ndegen += fam.startswith("degenerate")
        ncoll += fam.startswith("hashcollide")
        nflag += fam.startswith("flags")
        fvs = env.fvo.get_free_variables(f)
        try:
            ats = env.ao.get_atoms(f)
        except AssertionError:
            ats = None
        qf = env.qfo.is_qf(f)
        both = check_types(chk, env, f, fam)
        tys, ctys = both[False], both[True]
        sizes = [env.sizeo.get_size(f, m) for m in MEAS]
        for m in tocoq.topo([f]):
            ops_seen.add(m.node_type())
        # ---- property-level oracle on the implementation
        rfv = ref_free_vars(f)
        if set(fvs) != rfv:
            chk.violation({"kind": "input", "what": "get_free_variables differs from the definition", "formula": f.serialize(), "family": fam,
                           "note": ("hashcollide: the symbols hv0.. / hx0.. are created in this order in a fresh Environment and the two sets are "
                                    "computed by harness/hashcollide.frozenset_pairs (equal frozenset hash)") if fam.startswith("hashcollide") else "",
                           "reported": sorted(map(str, fvs)), "definition": sorted(map(str, rfv))}, key="fv:" + str(tocoq.skey(f))[:200])
        if qf != ref_is_qf(f):
            chk.violation({"kind": "input", "what": "is_qf differs from the definition", "formula": f.serialize()}, key="qf:" + str(tocoq.skey(f))[:200])
        rs = ref_sizes(f, env)
        for m, v in zip(MEAS, sizes):
            if rs[m] != v:
                chk.violation({"kind": "input", "what": "size measure %d differs from its definition" % m, "formula": f.serialize(),
                               "reported": v, "definition": rs[m]}, key="size%d:%s" % (m, str(tocoq.skey(f))[:200]))
        ra = ref_atoms(f, env)
        if (ats is None) != (ra is None) or (ats is not None and set(ats) != ra):
            chk.violation({"kind": "input", "what": "get_atoms differs from the definition", "formula": f.serialize(),
                           "reported": None if ats is None else sorted(map(str, ats)), "definition": None if ra is None else sorted(map(str, ra))},
                          key="atoms:" + str(tocoq.skey(f))[:200])
        # ---- case for the model
        roots = [f] + sorted(fvs, key=lambda x: x.node_id()) + (sorted(ats, key=lambda x: x.node_id()) if ats is not None else [])

        def body(names, f=f, fvs=fvs, ats=ats, qf=qf, tys=tys, ctys=ctys, sizes=sizes):
            fv_l = "[%s]" % "; ".join("(%s, %s)" % (tocoq.cstr(v.symbol_name()), tocoq.ty(v.symbol_type())) for v in fvs)
            at_l = "None" if ats is None else "(Some [%s])" % "; ".join(names[a] for a in ats)
            ty_l = "[%s]" % "; ".join(tocoq.ty(t) for t in tys)
            cty_l = "[%s]" % "; ".join(tocoq.ty(t) for t in ctys)
            sz_l = "[%s]" % "; ".join("%d%%nat" % s for s in sizes)
            return "(%s, %s, %s, %s, %s, %s, %s)" % (names[f], fv_l, at_l, "true" if qf else "false", ty_l, cty_l, sz_l)
        cases.append((roots, body))
        meta.append(f)
        chk.count(("c12", tocoq.skey(f)), nontrivial=len(f.args()) > 0)
    chk.sample({"formula": meta[0].serialize()[:300], "free": sorted(map(str, meta[0].get_free_variables()))})
    chk.sample({"family": "sort-shape", "formula": meta[-1].serialize()[:300],
                "symbol_sorts": sorted(set(str(x.symbol_type()) for x in tocoq.topo([meta[-1]]) if x.is_symbol()))})
    ok_def = ("Definition opt_set_eqb (a b : option (list term)) : bool :=\n"
              "  match a, b with Some x, Some y => set_eqb term_eqb x y | None, None => true | _, _ => false end.\n"
              "Definition ok (c : term * list var * option (list term) * bool * list ty * list ty * list nat) : bool :=\n"
              "  let '(t, efv, eat, eqf, ety, ecty, esz) := c in\n"
              "  set_eqb var_eqb (fv t) efv && opt_set_eqb (atoms t) eat && Bool.eqb (is_qf t) eqf &&\n"
              "  set_eqb ty_eqb (get_types t) ety && set_eqb ty_eqb (get_types_custom t) ecty &&\n"
              "  list_eqb Nat.eqb [size_tree t; size_dag t; size_leaves t; size_depth t; size_symbols t; size_bool_dag t] esz.\n")
    files = termcases.write(chk.dir, "c12", "From PySMT.models Require Import TypeChecker Oracles OraclesCustom.",
                            "term * list var * option (list term) * bool * list ty * list ty * list nat", ok_def, cases, shard=60)
    bad, errs = termcases.run(files)
    chk.cov["correspondence"] = {"cases": len(cases), "sort_shape_cases": nshape, "degenerate_list_cases": ndegen, "hash_collision_cases": ncoll, "hash_collision_family": hinfo,
                                 "environment_flag_cases": nflag, "disagreements": len(bad), "case_file_errors": len(errs),
                                 "node_types_covered": len(ops_seen), "examples": [meta[i].serialize()[:300] for i in bad[:5]]}
    for e in errs[:2]:
        chk.note("case file error: " + e["error"][-400:])
    for i in bad[:5]:
        chk.note("model/implementation disagree on: " + meta[i].serialize()[:200])
    # the open finding about the ORDER of the reported list does not explain a difference of the reported sets
    if (not ok or bad or errs) and not chk.violations and not [k for k in chk.known_hits if "types-order" not in k]:
        what = []
        if not ok:
            what.append("proof obligations no longer check: " + lib.proof_failure_summary(chk))
        if bad or errs:
            what.append("correspondence models/Oracles.v <-> pysmt/oracles.py differs on %d cases, e.g. %s"
                        % (len(bad) + len(errs), [meta[i].serialize()[:200] for i in bad[:2]]))
        chk.violation({"kind": "obligation", "theorem_or_correspondence": what}, found_input=False)
    return chk.finish(TRUSTED, ASSUME,
                      "random well-typed formulas of all theories with sharing (gen/formulas.py), fresh Environment every 100; SORT-SHAPE family "
                      "(user sort S / P(S) / Q(Int,S) as the only occurrence under every chain of Array-index / Array-element / parametric wrappers "
                      "of depth 0..3 x 8 carriers), HASH-COLLISION family (different symbol / atom sets and different Int / Real / BV constants with "
                      "equal Python hash, built at run time by harness/hashcollide.py), ENVIRONMENT-FLAGS family (every value of the flags at build and "
                      "analysis time), DEGENERATE-LISTS family (every binder list of length 1..3 over four variables, repetitions included, x every "
                      "free set of the body; repeated arguments of n-ary operators / functions / array values; the same through the parser), get_types compared in both modes (default, custom_only) with the model and the definition; "
                      "distinct = distinct structural keys with at least one operator application")


def replay(path):
    import json
    print(json.dumps(json.load(open(path)), indent=1))
    return run("quick")
