"""C10 - normal forms (NNF, prenex, AIG, TimesDistributor), top-level partitioning / equality
propagation and the two Boolean quantifier-elimination procedures preserve the value of the
formula and produce the advertised shape.

Proof part: coq/props/C10.v (theorems about the Gallina models, all terms / all interpretations).
Tie: every model is run inside Coq on generated inputs together with the implementation's
outputs (exact structural equality; And/Or argument order and quantifier variable order are
compared as multisets only where the implementation builds them from Python sets).
Search oracle (independent of the models): harness/refeval.py evaluates input and output under
random interpretations with exact quantifier evaluation, plus shape predicates written here.
"""
import json
import os
import random
import traceback

import pysmt.operators as op
from pysmt.environment import Environment, push_env, pop_env
from pysmt.typing import BOOL, INT, REAL, BVType

from . import lib, refeval, termcases, tocoq
from .gen.formulas import Config, FormulaGen

TRUSTED = [
    "Coq 8.16.1 kernel; vm_compute only inside the generated correspondence case files; no native_compute",
    "core/Sem.v is the specification of 'value under an interpretation' (trusted, cross-validated elsewhere)",
    "hand models models/{Nnf,Aig,Partition,Qelim,TimesDist}.v of pysmt/rewritings.py and pysmt/solvers/qelim.py, "
    "tied to the repository under test by this run's correspondence (counts below); models/C10Local.v are local stand-ins for "
    "FormulaManager constructors and the symbol->term MGSubstituter (same definitions as models/Ctors.v on well-formed nodes)",
    "models/Prenex.v (PrenexNormalizer) is compared with the implementation up to a consistent renaming of the fresh FV-names "
    "(Prenex.canon) and up to the order of quantified variables; inputs without array theory (a Boolean array read makes the walker raise)",
    "models/PropTop.v (propagate_toplevel with do_simplify=False: conjunct scan, DisjointSet with ranking, sigma, substitution, "
    "re-asserted equalities) takes the node-id order of the equalities' arguments from the implementation (node ids are not part "
    "of a term) and is compared up to the order of And arguments; inputs without Div/Pow/ToReal/arrays/strings (normalising constructors)",
    "the memoised DAG walk is replaced by structural recursion (licensed by DagWalk_proofs.walk_refines, C20/C14)",
    "tocoq.py (FNode -> Gallina literal); refeval.py (independent evaluator) for the SEARCH oracle only",
]
ASSUMPTIONS = [
    "value-equality theorems are for well-sorted interpretations (wf_interp) and Boolean skeletons whose atoms are syntactically "
    "Boolean (boolish: Boolean symbols, Boolean-valued applications, Boolean constants, theory relations); the truth-value forms "
    "(holds I (X t) <-> holds I t) need neither",
    "Boolean-sorted array reads as atoms are outside the theorems' fragment (NNFizer asserts on them)",
    "identity-walker based models (Qelim, TimesDist) are compared on inputs without array values that carry assignments "
    "(FormulaManager.Array drops default-valued entries and orders by id(): not modelled) and on bounded tree sizes",
    "Shannon / self-substitution theorems: Boolean bound variables, quantifier-free atoms, constructor-normal nodes (qe_frag); "
    "TimesDistributor theorem: +,-,* over leaves fixed by the walker, all denoting Int (resp. Real) under I (arith, kinded_*)",
    "propagate_toplevel: the SEARCH oracle runs both do_simplify=False and the default do_simplify=True",
]

CONNECTIVES = (op.AND, op.OR, op.NOT, op.IMPLIES, op.IFF)


# ------------------------------------------------------------------------------------------
# generation of Boolean skeletons
# ------------------------------------------------------------------------------------------

class SkelGen(object):
    """Boolean structure (and/or/not/implies/iff/Boolean ite/quantifiers, with shared sub-DAGs and
    re-used bound names, hence shadowing) over atoms drawn from gen.formulas.FormulaGen."""

    def __init__(self, env, rnd, qtypes, atom_cfg=None, quantifiers=True, ite=True):
        self.env = env
        self.mgr = env.formula_manager
        self.rnd = rnd
        cfg = atom_cfg or Config(quantifiers=False, widths=(1, 2, 3), max_arity=3)
        self.g = FormulaGen(env, rnd, cfg)
        self.qtypes = [t for t in qtypes if t in self.g.syms]
        self.quantifiers = quantifiers and bool(self.qtypes)
        self.ite = ite
        self.pool = []
        self.bvars = [self.mgr.Symbol("b%d" % i, BOOL) for i in range(3)] + self.g.syms[BOOL]

    def atom(self):
        r = self.rnd
        k = r.random()
        if k < 0.35:
            return r.choice(self.bvars)
        if k < 0.42:
            return self.mgr.Bool(r.random() < 0.5)
        return self.g.gen(BOOL, r.choice([1, 1, 2, 3]))

    def gen(self, d):
        r, m = self.rnd, self.mgr
        if d <= 0:
            return self.atom()
        if self.pool and r.random() < 0.25:
            return r.choice(self.pool)
        ops = ["and", "or", "not", "not", "implies", "iff", "and", "or"]
        if self.ite:
            ops += ["ite", "ite"]
        if self.quantifiers:
            ops += ["forall", "exists", "forall", "exists"]
        k = r.choice(ops)
        g = lambda: self.gen(d - 1 - (1 if r.random() < 0.25 else 0))
        if k == "and":
            f = m.And([g() for _ in range(r.choice([2, 2, 3, 4, 1, 0]))])
        elif k == "or":
            f = m.Or([g() for _ in range(r.choice([2, 2, 3, 4, 1, 0]))])
        elif k == "not":
            f = m.Not(g())
        elif k == "implies":
            f = m.Implies(g(), g())
        elif k == "iff":
            f = m.Iff(g(), g())
        elif k == "ite":
            f = m.Ite(g(), g(), g())
        else:
            nv = r.choice([1, 1, 2, 2, 3])
            nv = min(nv, getattr(self, "max_qvars", 3))
            vs = []
            for _ in range(nv):
                t = r.choice(self.qtypes)
                pool = self.bvars if t == BOOL else self.g.syms[t]
                vs.append(r.choice(pool))
            if r.random() < 0.8:
                vs = list(dict.fromkeys(vs))
            body = g()
            f = (m.ForAll if k == "forall" else m.Exists)(vs, body)
        self.pool.append(f)
        return f


# ------------------------------------------------------------------------------------------
# shape predicates (the property's own words, written directly)
# ------------------------------------------------------------------------------------------

def _is_skel(n):
    return n.node_type() in CONNECTIVES or n.is_quantifier() or n.is_ite()


def nnf_shape(f):
    stack = [f]
    while stack:
        n = stack.pop()
        if n.is_and() or n.is_or() or n.is_quantifier():
            stack.extend(n.args())
        elif n.is_not():
            if _is_skel(n.arg(0)):
                return False
        elif n.is_implies() or n.is_iff() or n.is_ite():
            return False
    return True


def aig_shape(f):
    stack = [f]
    while stack:
        n = stack.pop()
        if n.is_and() or n.is_not() or n.is_quantifier():
            stack.extend(n.args())
        elif n.is_or() or n.is_implies() or n.is_iff() or n.is_ite():
            return False
    return True


def tree_size(f):
    """Number of nodes of the tree unfolding (the Coq model works on trees)."""
    memo = {}
    for n in tocoq.topo([f]):
        memo[n] = 1 + sum(memo[c] for c in n.args())
    return memo[f]


def has_array_assignments(f):
    """FormulaManager.Array (dropping default-valued entries, ordering by id()) is not modelled by
    C10Local.rebuild: identity-walker based rewriters are compared on inputs without such nodes."""
    return any(n.node_type() == op.ARRAY_VALUE and len(n.args()) > 1 for n in tocoq.topo([f]))


def quantifier_free(f):
    return not any(n.is_quantifier() for n in tocoq.topo([f]))


def prenex_shape(f):
    while f.is_quantifier():
        f = f.arg(0)
    return quantifier_free(f)


def has_negated_bool_ite(f):
    """A Boolean ITE reached under negative polarity by NNF's descent (the known defect's trigger)."""
    seen = set()
    stack = [(f, True)]
    while stack:
        n, pos = stack.pop()
        if (n, pos) in seen:
            continue
        seen.add((n, pos))
        if n.is_not():
            stack.append((n.arg(0), not pos))
        elif n.is_and() or n.is_or() or n.is_quantifier():
            stack.extend((a, pos) for a in n.args())
        elif n.is_implies():
            stack.append((n.arg(0), not pos))
            stack.append((n.arg(1), pos))
        elif n.is_iff():
            for a in n.args():
                stack.append((a, True))
                stack.append((a, False))
        elif n.is_ite():
            if not pos:
                return True
            i, t, e = n.args()
            stack += [(i, True), (i, False), (t, True), (e, True)]
    return False


# ------------------------------------------------------------------------------------------
# oracle
# ------------------------------------------------------------------------------------------

def differs(rnd, f, g, n):
    """First exact difference between f and g under n random interpretations, or None."""
    try:
        its = refeval.random_interps(rnd, [f, g], n, div0="raise")
        return refeval.first_difference(f, g, its, exact_only=True)
    except refeval.RefEvalError as ex:
        return ("oracle-error", repr(ex))


def exact_somewhere(rnd, f, n=2):
    try:
        for it in refeval.random_interps(rnd, [f], n):
            try:
                if refeval.evaluate_ex(f, it)[1]:
                    return True
            except refeval.DivisionByZeroEvaluated:
                pass
    except refeval.RefEvalError:
        pass
    return False


def describe(d):
    if isinstance(d, tuple):
        return {"oracle_error": d[1]}
    return {"interpretation": d.interp.describe(), "value_of_input": str(d.value_f), "value_of_output": str(d.value_g)}


# ------------------------------------------------------------------------------------------
# one batch = one rewriter in a fresh Environment
# ------------------------------------------------------------------------------------------

class Batch(object):
    def __init__(self, chk, rnd, name, tier):
        self.chk, self.rnd, self.name, self.tier = chk, rnd, name, tier
        self.cases = []       # (roots, body_fn)
        self.meta = []        # serialized input per case
        self.stats = {"impl_errors": 0, "oracle_checked": 0}

    def n(self, quick, thorough):
        return quick if self.tier == "quick" else thorough

    def check_equiv(self, f, out, what, replay, key=None, ninterp=5):
        self.stats["oracle_checked"] += 1
        d = differs(self.rnd, f, out, ninterp)
        if d is None:
            return True
        info = {"kind": "input", "what": what, "input": f.serialize(), "output": out.serialize(), "repro": replay,
                "oracle": "harness/refeval.py, exact quantifier evaluation"}
        info.update(describe(d))
        self.chk.violation(info, key=key)
        return False


def opt_term(names, out):
    return "None" if out is None else "(Some %s)" % names[out]


def run_nnf(b):
    from pysmt.rewritings import NNFizer
    env = Environment()
    push_env(env)
    try:
        sg = SkelGen(env, b.rnd, [BOOL, BVType(1), BVType(2), INT, REAL, BVType(3)],
                     atom_cfg=Config(quantifiers=False, widths=(1, 2, 3), max_arity=3))
        m = env.formula_manager
        a, bb, c = [m.Symbol(x, BOOL) for x in "abc"]
        fixed = [m.Not(m.Ite(a, bb, c)), m.Not(m.Iff(a, m.Not(bb))), m.Implies(m.Not(a), m.Not(m.Not(bb))),
                 m.Not(m.ForAll([a], m.Exists([a], m.Or(a, bb))))]
        for i in range(b.n(500, 6000)):
            f = fixed[i] if i < len(fixed) else sg.gen(b.rnd.randint(1, 5))
            try:
                out = NNFizer(env).convert(f)
            except AssertionError:
                out = None
                b.stats["impl_errors"] += 1
            b.cases.append(([f] + ([out] if out is not None else []),
                            (lambda names, f=f, out=out: "(%s, %s)" % (names[f], opt_term(names, out)))))
            b.meta.append(f.serialize()[:400])
            b.chk.count(("nnf", tocoq.skey(f)), nontrivial=out is not None and out is not f)
            if out is None:
                continue
            b.check_equiv(f, out, "nnf(f) does not have the value of f", "pysmt.rewritings.nnf(<input>)")
            if not nnf_shape(out):
                # (regression: before /repo commit 777db40 every input with a Boolean ITE under negative polarity failed here)
                key = "nnf-shape:negated-boolean-ite" if has_negated_bool_ite(f) else "nnf-shape:%s" % f.serialize()[:200]
                b.chk.violation({"kind": "input", "what": "nnf(f) is not in negation normal form (a negation above a non-atom, or ->, <->, ite left)",
                                 "input": f.serialize(), "output": out.serialize(), "repro": "pysmt.rewritings.nnf(<input>)",
                                 "expected": "negations only on atoms"}, key=key)
        b.chk.sample({"rewriter": "nnf", "input": b.meta[-1]})
    finally:
        pop_env()
    ok_def = ("Definition ok (c : term * option term) : bool :=\n"
              "  match snd c with Some o => boolish (fst c) && term_eqb (nnf (fst c)) o | None => negb (boolish (fst c)) end.\n")
    return "From PySMT.models Require Import C10Local Nnf.", "term * option term", ok_def


def run_aig(b):
    from pysmt.rewritings import AIGer
    env = Environment()
    push_env(env)
    try:
        sg = SkelGen(env, b.rnd, [BOOL, BVType(1), BVType(2), INT, REAL],
                     atom_cfg=Config(widths=(1, 2, 3), max_arity=3))
        for i in range(b.n(500, 6000)):
            f = sg.gen(b.rnd.randint(1, 5))
            out = AIGer(env).convert(f)
            b.cases.append(([f, out], (lambda names, f=f, out=out: "(%s, %s)" % (names[f], names[out]))))
            b.meta.append(f.serialize()[:400])
            b.chk.count(("aig", tocoq.skey(f)), nontrivial=out is not f)
            b.check_equiv(f, out, "aig(f) does not have the value of f", "pysmt.rewritings.aig(<input>)")
            if not aig_shape(out):
                b.chk.violation({"kind": "input", "what": "aig(f) contains a connective other than And / Not",
                                 "input": f.serialize(), "output": out.serialize(), "repro": "pysmt.rewritings.aig(<input>)"},
                                key="aig-shape:%s" % f.serialize()[:200])
        b.chk.sample({"rewriter": "aig", "input": b.meta[-1]})
    finally:
        pop_env()
    ok_def = "Definition ok (c : term * term) : bool := term_eqb (aig (fst c)) (snd c).\n"
    return "From PySMT.models Require Import C10Local Aig.", "term * term", ok_def


def run_partition(b):
    from pysmt.rewritings import conjunctive_partition, disjunctive_partition
    env = Environment()
    push_env(env)
    try:
        sg = SkelGen(env, b.rnd, [BOOL, BVType(2), INT], atom_cfg=Config(widths=(1, 2, 3), max_arity=3))
        m = env.formula_manager
        for i in range(b.n(400, 5000)):
            conj = b.rnd.random() < 0.5
            mk = m.And if conj else m.Or
            # nested same-connective structure with repeated members
            parts = [sg.gen(b.rnd.randint(0, 2)) for _ in range(b.rnd.randint(1, 4))]

            def nest(d):
                if d <= 0 or b.rnd.random() < 0.3:
                    return b.rnd.choice(parts)
                return mk([nest(d - 1) for _ in range(b.rnd.choice([2, 2, 3]))])
            f = nest(b.rnd.randint(1, 4)) if b.rnd.random() < 0.8 else sg.gen(3)
            outs = list((conjunctive_partition if conj else disjunctive_partition)(f))
            b.cases.append(([f] + outs, (lambda names, f=f, outs=outs, conj=conj:
                                         "(%s, %s, [%s])" % ("true" if conj else "false", names[f], "; ".join(names[o] for o in outs)))))
            b.meta.append(f.serialize()[:400])
            b.chk.count(("part", conj, tocoq.skey(f)), nontrivial=len(outs) > 1)
            # the property on the implementation: the conjunction/disjunction of the parts, any order
            sh = list(outs)
            b.rnd.shuffle(sh)
            g = mk(sh)
            b.check_equiv(f, g, "%s of the %s partition does not have the value of the input" % ("And" if conj else "Or", "conjunctive" if conj else "disjunctive"),
                          "pysmt.rewritings.%s_partition(<input>)" % ("conjunctive" if conj else "disjunctive"))
            if any((o.is_and() if conj else o.is_or()) for o in outs) or len(set(outs)) != len(outs):
                b.chk.violation({"kind": "input", "what": "partition member is itself a conjunction/disjunction, or repeated",
                                 "input": f.serialize(), "output": [o.serialize() for o in outs]}, key="part-shape:%s" % f.serialize()[:200])
        b.chk.sample({"rewriter": "partition", "input": b.meta[-1]})
    finally:
        pop_env()
    ok_def = ("Definition ok (c : bool * term * list term) : bool :=\n"
              "  let '(cj, t, outs) := c in\n"
              "  if cj then list_eqb term_eqb (conjunctive_partition t) outs &&\n"
              "               match conjunctive_partition_wl t with Some l => list_eqb term_eqb l outs | None => false end\n"
              "  else list_eqb term_eqb (disjunctive_partition t) outs &&\n"
              "       match disjunctive_partition_wl t with Some l => list_eqb term_eqb l outs | None => false end.\n")
    return "From PySMT.models Require Import Partition.", "bool * term * list term", ok_def


def run_qelim(b):
    from pysmt.solvers.qelim import ShannonQuantifierEliminator, SelfSubstitutionQuantifierEliminator
    env = Environment()
    push_env(env)   # FNode.substitute() goes through the GLOBAL environment's substituter
    try:
        sg = SkelGen(env, b.rnd, [BOOL], atom_cfg=Config(quantifiers=False, widths=(1, 2, 3), max_arity=3))
        sg.max_qvars = 2
        for i in range(b.n(500, 6000)):
            f = sg.gen(b.rnd.randint(1, 4))
            which = i % 2
            cls = SelfSubstitutionQuantifierEliminator if which else ShannonQuantifierEliminator
            nm = "selfsub" if which else "shannon"
            if tree_size(f) > 400 or has_array_assignments(f):
                b.stats["skipped_unmodelled"] = b.stats.get("skipped_unmodelled", 0) + 1
                continue
            out = cls(env).eliminate_quantifiers(f)
            if tree_size(out) > 6000:
                b.stats["skipped_large"] = b.stats.get("skipped_large", 0) + 1
                continue
            b.cases.append(([f, out], (lambda names, f=f, out=out, which=which:
                                       "(%s, %s, %s)" % ("true" if which else "false", names[f], names[out]))))
            b.meta.append("%s: %s" % (nm, f.serialize()[:400]))
            b.chk.count((nm, tocoq.skey(f)), nontrivial=out is not f)
            b.check_equiv(f, out, "%s quantifier elimination changed the value of the formula" % nm,
                          "pysmt.solvers.qelim.%s(env).eliminate_quantifiers(<input>)" % cls.__name__)
            if not quantifier_free(out):
                b.chk.violation({"kind": "input", "what": "%s: a quantifier is left" % nm, "input": f.serialize(), "output": out.serialize()},
                                key="qe-shape:%s:%s" % (nm, f.serialize()[:200]))
        b.chk.sample({"rewriter": "qelim", "input": b.meta[-1]})
    finally:
        pop_env()
    ok_def = ("Definition ok (c : bool * term * term) : bool :=\n"
              "  let '(ss, t, o) := c in qe_vars_bool t && term_eqb (if ss then selfsub t else shannon t) o.\n")
    return "From PySMT.models Require Import C10Local Qelim.", "bool * term * term", ok_def


def run_timesdist(b):
    from pysmt.rewritings import TimesDistributor
    env = Environment()
    push_env(env)
    try:
        g = FormulaGen(env, b.rnd, Config(bv=False, strings=False, arrays=False, custom=False, quantifiers=False, max_arity=3, reuse=0.3))
        m = env.formula_manager
        for i in range(b.n(400, 5000)):
            t = b.rnd.choice([INT, REAL, INT, REAL, BOOL])
            # sums/differences/products of small sums, so that distribution really happens
            def arith(ty, d):
                r = b.rnd
                if d <= 0 or r.random() < 0.2:
                    return g.gen(ty, r.choice([0, 0, 1, 2]))
                k = r.choice(["plus", "times", "minus", "times", "plus"])
                if k == "plus":
                    return m.Plus([arith(ty, d - 1) for _ in range(r.choice([2, 2, 3]))])
                if k == "times":
                    return m.Times([arith(ty, d - 1) for _ in range(r.choice([2, 2, 3]))])
                return m.Minus(arith(ty, d - 1), arith(ty, d - 1))
            if t == BOOL:
                ty = b.rnd.choice([INT, REAL])
                f = b.rnd.choice([m.LE, m.LT, m.Equals])(arith(ty, 3), arith(ty, 2))
            else:
                f = arith(t, b.rnd.randint(1, 4))
            if tree_size(f) > 150:
                continue
            out = TimesDistributor(env).walk(f)
            if tree_size(out) > 1500:
                b.stats["skipped_large"] = b.stats.get("skipped_large", 0) + 1
                continue
            b.cases.append(([f, out], (lambda names, f=f, out=out: "(%s, %s)" % (names[f], names[out]))))
            b.meta.append(f.serialize()[:400])
            b.chk.count(("td", tocoq.skey(f)), nontrivial=out is not f)
            b.check_equiv(f, out, "TimesDistributor changed the value of the term", "pysmt.rewritings.TimesDistributor(env).walk(<input>)")
        b.chk.sample({"rewriter": "TimesDistributor", "input": b.meta[-1]})
    finally:
        pop_env()
    ok_def = "Definition ok (c : term * term) : bool := term_eqb (td (fst c)) (snd c).\n"
    return "From PySMT.models Require Import C10Local TimesDist.", "term * term", ok_def


def run_prenex(b):
    from pysmt.rewritings import prenex_normal_form
    env = Environment()
    push_env(env)
    try:
        sg = SkelGen(env, b.rnd, [BOOL, BVType(1), BVType(2), BOOL, BVType(2), INT],
                     atom_cfg=Config(quantifiers=False, arrays=False, widths=(1, 2, 3), max_arity=3))
        m = env.formula_manager
        x, y = sg.g.syms[BVType(2)][0], sg.g.syms[BVType(2)][1]
        px = m.BVULT(x, y)
        fixed = [m.And(px, m.Exists([x], m.Not(px))), m.Or(m.ForAll([x], px), m.ForAll([x], m.Not(px))),
                 m.Iff(m.Exists([x], px), m.Exists([y], px)), m.ForAll([x], m.Implies(px, m.Exists([x], px))),
                 m.Ite(m.Exists([x], px), m.ForAll([x], px), px)]
        for i in range(b.n(500, 4000)):
            f = fixed[i] if i < len(fixed) else sg.gen(b.rnd.randint(1, 4))
            if tree_size(f) > 300:
                continue
            guess = m._fresh_guess
            try:
                out = prenex_normal_form(f, env)
            except TypeError:
                b.stats["impl_errors"] += 1     # a Boolean-sorted theory operator (array read) in a Boolean position
                continue
            if tree_size(out) > 1500 or sum(len(n.quantifier_vars()) for n in tocoq.topo([out]) if n.is_quantifier()) > 7:
                b.stats["skipped_large"] = b.stats.get("skipped_large", 0) + 1     # exact quantifier evaluation would take minutes
                continue
            b.cases.append(([f, out], (lambda names, f=f, out=out, guess=guess: "(%d%%nat, %s, %s)" % (guess, names[f], names[out]))))
            b.meta.append(f.serialize()[:400])
            b.chk.count(("prenex", tocoq.skey(f)), nontrivial=out is not f)
            b.check_equiv(f, out, "prenex_normal_form(f) does not have the value of f", "pysmt.rewritings.prenex_normal_form(<input>)")
            if not prenex_shape(out):
                b.chk.violation({"kind": "input", "what": "prenex_normal_form(f) is not a quantifier prefix over a quantifier-free matrix",
                                 "input": f.serialize(), "output": out.serialize()}, key="prenex-shape:%s" % f.serialize()[:200])
        b.chk.sample({"rewriter": "prenex", "input": b.meta[-1]})
    finally:
        pop_env()
    return PRENEX_COQ


def bound_symbols(f):
    out = set()
    for n in tocoq.topo([f]):
        if n.is_quantifier():
            out.update(n.quantifier_vars())
    return out


def run_proptop(b):
    from pysmt.rewritings import propagate_toplevel, conjunctive_partition
    for variant in (0, 1):
        env = Environment()
        push_env(env)
        try:
            cfg = Config(quantifiers=False, arrays=False, strings=False, custom=False, div=False, nonlinear=False, widths=(1, 2, 3), max_arity=3,
                         ints=(variant == 0), reals=(variant == 1))
            num = INT if variant == 0 else REAL
            sg = SkelGen(env, b.rnd, [num, BVType(2), BOOL], atom_cfg=cfg)
            m = env.formula_manager
            g = sg.g
            wx, wy = g.syms[BVType(2)][0], g.syms[BVType(2)][1]     # wx has the smaller node id: it is the representative
            witness = m.And(m.Equals(wy, wx), m.Exists([wx], m.Not(m.Equals(wx, wy))))
            for i in range(b.n(200, 2500)):
                r = b.rnd
                conj = []
                for _ in range(r.choice([1, 2, 2, 3, 4])):
                    t = r.choice([num, num, BVType(2)])
                    pick = lambda: (r.choice(g.syms[t]) if r.random() < 0.7 else g.const(t))
                    conj.append(m.Equals(pick(), pick()))
                for _ in range(r.choice([0, 1, 1, 2])):
                    conj.append(sg.gen(r.randint(0, 3)))
                if r.random() < 0.5:
                    # a quantifier that binds one side of a top-level equality while the other side is free below it
                    t = r.choice([BVType(2), BVType(2), num])
                    v, w = r.sample(g.syms[t], 2)
                    conj = [c for c in conj if not (c.is_equals() and c.arg(0).is_constant() and c.arg(1).is_constant())]
                    conj.append(m.Equals(v, w) if r.random() < 0.5 else m.Equals(w, v))
                    body = r.choice([m.Equals(v, w), m.Not(m.Equals(v, w)), m.Or(m.Not(m.Equals(w, v)), sg.gen(1))])
                    conj.append(r.choice([m.Exists, m.ForAll])([v], body))
                r.shuffle(conj)
                f = m.And(conj) if r.random() < 0.8 else m.And(conj[0], m.And(conj[1:])) if len(conj) > 2 else m.And(conj)
                if i == 0:
                    f = witness      # the _refuted witness of coq/proofs/PropTop_proofs.v, replayed on the real code
                if tree_size(f) > 300:
                    continue
                out = propagate_toplevel(f, env, do_simplify=False)
                out_s = propagate_toplevel(f, env)
                ids = sorted(set(a for c in conjunctive_partition(f) if c.is_equals() for a in c.args()), key=lambda n: n.node_id())
                b.cases.append(([f, out] + ids, (lambda names, f=f, out=out, ids=ids:
                                                 "(%s, [%s], %s)" % (names[f], "; ".join(names[a] for a in ids), names[out]))))
                b.meta.append(f.serialize()[:400])
                b.chk.count(("proptop", tocoq.skey(f)), nontrivial=out is not f)
                eq_syms = set(a for c in conjunctive_partition(f) if c.is_equals() for a in c.args() if a.is_symbol())
                captured = bool(eq_syms & bound_symbols(f))
                key = "proptop:substitution-under-binder" if captured else None
                for o, how in ((out, "do_simplify=False"), (out_s, "default arguments")):
                    if not b.check_equiv(f, o, "propagate_toplevel(f) (%s) does not have the value of f" % how,
                                         "pysmt.rewritings.propagate_toplevel(<input>%s)" % (", do_simplify=False" if o is out else ""),
                                         key=key or "proptop:%s" % f.serialize()[:200]):
                        break
            b.chk.sample({"rewriter": "propagate_toplevel", "input": b.meta[-1]})
        finally:
            pop_env()
    return PROPTOP_COQ


PRENEX_COQ = ("From PySMT.models Require Import C10Local Prenex.", "nat * term * term",
              "Definition ok (c : nat * term * term) : bool :=\n"
              "  let '(n, t, o) := c in\n"
              "  match prenex n t with Some r => ac_eqb (canon r) (canon o) && pq_frag t | None => false end.\n")
PROPTOP_COQ = ("From PySMT.models Require Import C10Local PropTop.", "term * list term * term",
               "Definition ok (c : term * list term * term) : bool :=\n"
               "  let '(t, order, o) := c in\n"
               "  match propagate_toplevel order t with Some r => ac_eqb r o | None => false end.\n")

BATCHES = [("nnf", run_nnf), ("aig", run_aig), ("partition", run_partition), ("qelim", run_qelim), ("timesdist", run_timesdist),
           ("prenex", run_prenex), ("proptop", run_proptop)]


def run(tier, only=None):
    chk = lib.Check("C10", tier)
    rnd = random.Random(chk.seed)
    ok = chk.prove()
    lib.clean_cases(chk.dir)
    files_of = {}
    batches = {}
    corr = {}
    for name, fn in BATCHES:
        if only and name not in only:
            continue
        b = Batch(chk, random.Random(rnd.getrandbits(64)), name, tier)
        try:
            coq = fn(b)
        except Exception:   # noqa - an exception of the implementation outside the modelled domain
            chk.note("batch %s aborted: %s" % (name, traceback.format_exc()[-1500:]))
            chk.violation({"kind": "obligation", "theorem_or_correspondence": "batch %s raised: %s" % (name, traceback.format_exc()[-800:])},
                          found_input=False)
            continue
        batches[name] = b
        if coq is None:
            corr[name] = dict(b.stats, cases=len(b.cases), correspondence="not modelled in Coq yet: SEARCH oracle only")
            chk.note("%s: %d cases, oracle comparisons %d (oracle only)" % (name, len(b.cases), b.stats["oracle_checked"]))
            continue
        imports, ctype, ok_def = coq
        files_of[name] = termcases.write(chk.dir, name, imports, ctype, ok_def, b.cases, shard=100)
        chk.note("%s: %d cases generated, oracle comparisons %d" % (name, len(b.cases), b.stats["oracle_checked"]))
    disagreements = []
    allfiles = [x for fs in files_of.values() for x in fs]
    if allfiles:
        res = lib.run_case_files([p for p, _, _ in allfiles])
        for name, fs in files_of.items():
            bad, errs = [], []
            for p, first, n in fs:
                rc, out = res[p]
                mm = lib.parse_nat_list(out) if rc == 0 else None
                if mm is None:
                    errs.append({"file": p, "error": out[-600:]})
                else:
                    bad += [first + i for i in mm]
            corr[name] = {"cases": len(batches[name].cases), "disagreements": len(bad), "case_file_errors": len(errs)}
            corr[name].update(batches[name].stats)
            for i in bad[:3]:
                chk.note("%s: model/implementation disagreement on %s" % (name, batches[name].meta[i][:300]))
                disagreements.append({"rewriter": name, "input": batches[name].meta[i]})
            for e in errs[:2]:
                chk.note("%s: case file error: %s" % (name, e["error"][-400:]))
                disagreements.append({"rewriter": name, "case_file_error": e["error"][-300:]})
    chk.cov["correspondence"] = corr
    if (not ok or disagreements) and not chk.violations:
        what = []
        if not ok:
            what.append("proof obligations no longer check: " + lib.proof_failure_summary(chk))
        if disagreements:
            what.append("correspondence model<->implementation differs: %s" % disagreements[:3])
        chk.violation({"kind": "obligation", "theorem_or_correspondence": what}, found_input=False)
    return chk.finish(TRUSTED, ASSUMPTIONS,
                      "per rewriter, in a fresh Environment: random Boolean skeletons (and/or/not/implies/iff/Boolean ite/quantifiers "
                      "with re-used bound names and shared sub-DAGs) over atoms from gen/formulas.py (all theories); distinct = distinct "
                      "inputs on which the rewriter is not the identity")


def replay(path):
    r = json.load(open(path))
    print(json.dumps(r, indent=1))
    return run("quick")
